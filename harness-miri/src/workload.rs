// Shared C33 workload + shadow-accounting monitor. `include!`d by the Miri
// crate and by the native harness; the includer must have `MemoryPool` and
// `MemoryReservation` in scope.

use std::sync::atomic::{AtomicU64, AtomicUsize, Ordering as O};

pub struct HistoryOutcome {
    pub violations: Vec<String>,
    pub interleaving_hash: u64,
    pub ops: u64,
    pub grants: u64,
    pub denials: u64,
    pub forced: u64,
    pub samples: u64,
}

struct Xs(u64);
impl Xs {
    fn next(&mut self) -> u64 {
        let mut x = self.0;
        x ^= x << 13;
        x ^= x >> 7;
        x ^= x << 17;
        self.0 = x;
        x
    }
    fn below(&mut self, n: u64) -> u64 {
        self.next() % n.max(1)
    }
}

/// One concurrent history: `threads` threads x `ops` operations over one pool
/// with `limit`. `allow_forced` adds forced allocations and growing resizes.
pub fn run_history(seed: u64, threads: usize, ops: usize, limit: usize, allow_forced: bool) -> HistoryOutcome {
    let pool = MemoryPool::new(limit);
    let seq = AtomicU64::new(0);
    // lower bound of the live try-granted total (added after grant, removed before release)
    let shadow_try = AtomicUsize::new(0);
    // monotone counters bounding live forced bytes: added BEFORE the call, released AFTER the drop
    let forced_added = AtomicUsize::new(0);
    let forced_released = AtomicUsize::new(0);
    let sizes: [usize; 8] = [0, 1, 7, 30, 60, limit, limit.saturating_add(1), usize::MAX];

    struct Held<'a> {
        r: MemoryReservation<'a>,
        try_part: usize,
        forced_part: usize,
    }
    struct ThreadOut<'a> {
        log: Vec<(u64, u8)>,
        held: Vec<Held<'a>>,
        violations: Vec<String>,
        ops: u64,
        grants: u64,
        denials: u64,
        forced: u64,
        samples: u64,
    }

    let outs: Vec<ThreadOut> = std::thread::scope(|s| {
        let mut hs = Vec::new();
        for t in 0..threads {
            let (pool, seq, shadow_try, forced_added, forced_released) = (&pool, &seq, &shadow_try, &forced_added, &forced_released);
            hs.push(s.spawn(move || {
                let mut rng = Xs(seed.wrapping_mul(0x9E3779B97F4A7C15) ^ ((t as u64 + 1) << 32) | 1);
                let mut o = ThreadOut { log: Vec::new(), held: Vec::new(), violations: Vec::new(), ops: 0, grants: 0, denials: 0, forced: 0, samples: 0 };
                for _ in 0..ops {
                    o.ops += 1;
                    let k = rng.below(if allow_forced { 10 } else { 7 });
                    let stamp = seq.fetch_add(1, O::SeqCst);
                    match k {
                        0..=3 => {
                            let size = sizes[rng.below(sizes.len() as u64) as usize];
                            match pool.try_allocate(size) {
                                Some(r) => {
                                    o.grants += 1;
                                    o.log.push((stamp, 1));
                                    let after = shadow_try.fetch_add(size, O::SeqCst).wrapping_add(size);
                                    if after > limit {
                                        o.violations.push(format!("over-grant: live conditional reservations total {} > limit {} after try_allocate({})", after, limit, size));
                                    }
                                    if size > limit {
                                        o.violations.push(format!("try_allocate({}) granted with limit {}", size, limit));
                                    }
                                    if r.size() != size {
                                        o.violations.push(format!("reservation size {} != requested {}", r.size(), size));
                                    }
                                    o.held.push(Held { r, try_part: size, forced_part: 0 });
                                }
                                None => {
                                    o.denials += 1;
                                    o.log.push((stamp, 2));
                                }
                            }
                        }
                        4 | 5 => {
                            // release one
                            if !o.held.is_empty() {
                                let i = rng.below(o.held.len() as u64) as usize;
                                let h = o.held.swap_remove(i);
                                shadow_try.fetch_sub(h.try_part, O::SeqCst);
                                let fp = h.forced_part;
                                drop(h.r);
                                forced_released.fetch_add(fp, O::SeqCst);
                                o.log.push((stamp, 3));
                            }
                        }
                        6 => {
                            // shrink one (never grows in the try-only phase)
                            if !o.held.is_empty() {
                                let i = rng.below(o.held.len() as u64) as usize;
                                let h = &mut o.held[i];
                                let cur = h.try_part + h.forced_part;
                                let new = rng.below(cur as u64 + 1) as usize;
                                // remove from the shadows before the pool shrinks
                                let mut cut = cur - new;
                                let cut_try = cut.min(h.try_part);
                                shadow_try.fetch_sub(cut_try, O::SeqCst);
                                h.try_part -= cut_try;
                                cut -= cut_try;
                                h.forced_part -= cut;
                                h.r.resize(new);
                                forced_released.fetch_add(cut, O::SeqCst);
                                if h.r.size() != new {
                                    o.violations.push(format!("resize({}) left size {}", new, h.r.size()));
                                }
                                o.log.push((stamp, 4));
                            }
                        }
                        7 => {
                            let size = [0usize, 1, 30, limit][rng.below(4) as usize];
                            forced_added.fetch_add(size, O::SeqCst);
                            let r = pool.allocate(size);
                            o.forced += 1;
                            o.held.push(Held { r, try_part: 0, forced_part: size });
                            o.log.push((stamp, 5));
                        }
                        8 => {
                            // grow one (forced growth)
                            if !o.held.is_empty() {
                                let i = rng.below(o.held.len() as u64) as usize;
                                let h = &mut o.held[i];
                                let cur = h.try_part + h.forced_part;
                                let add = rng.below(40) as usize;
                                forced_added.fetch_add(add, O::SeqCst);
                                h.forced_part += add;
                                h.r.resize(cur + add);
                                o.log.push((stamp, 6));
                            }
                        }
                        _ => {}
                    }
                    // sample the pool
                    let rel = forced_released.load(O::SeqCst);
                    let u = pool.used();
                    let add = forced_added.load(O::SeqCst);
                    o.samples += 1;
                    if u > usize::MAX / 2 {
                        o.violations.push(format!("used() = {} (underflow / wrap-around)", u));
                    } else if u > limit.saturating_add(add.saturating_sub(rel)) {
                        o.violations.push(format!("used() = {} exceeds limit {} + live forced bytes (at most {})", u, limit, add.saturating_sub(rel)));
                    }
                    if pool.available() > limit {
                        o.violations.push(format!("available() = {} > limit {}", pool.available(), limit));
                    }
                }
                o
            }));
        }
        hs.into_iter().map(|h| h.join().expect("worker thread")).collect()
    });

    // quiescent point: usage equals the sum of live reservations
    let mut violations = Vec::new();
    let mut all_log: Vec<(u64, u8, u8)> = Vec::new();
    let mut live_total: usize = 0;
    let (mut ops_n, mut grants, mut denials, mut forced, mut samples) = (0, 0, 0, 0, 0);
    let mut held_all = Vec::new();
    for (t, o) in outs.into_iter().enumerate() {
        violations.extend(o.violations);
        for (s, k) in o.log {
            all_log.push((s, t as u8, k));
        }
        for h in o.held {
            live_total += h.try_part + h.forced_part;
            if h.r.size() != h.try_part + h.forced_part {
                violations.push(format!("reservation reports size {} but the shadow says {}", h.r.size(), h.try_part + h.forced_part));
            }
            held_all.push(h);
        }
        ops_n += o.ops;
        grants += o.grants;
        denials += o.denials;
        forced += o.forced;
        samples += o.samples;
    }
    if pool.used() != live_total {
        violations.push(format!("quiescent: used() = {} but live reservations sum to {}", pool.used(), live_total));
    }
    drop(held_all);
    if pool.used() != 0 {
        violations.push(format!("after dropping every reservation used() = {}", pool.used()));
    }
    all_log.sort();
    let mut h: u64 = 0xcbf29ce484222325;
    for (_, t, k) in &all_log {
        h ^= (*t as u64) << 8 | *k as u64;
        h = h.wrapping_mul(0x100000001b3);
    }
    HistoryOutcome { violations, interleaving_hash: h, ops: ops_n, grants, denials, forced, samples }
}

/// Resize-window scenario. One owner holds at least `floor` bytes of a pool of
/// `limit` for a whole odd epoch while it resizes its reservation up and down
/// inside [floor, limit]; probers ask for `ask` bytes with floor + ask > limit.
/// A grant whose request began and ended inside the same odd epoch was made
/// while the owner's reservation was alive and at least `floor` big, so it
/// cannot have fitted: either the pool's usage did not equal the sum of live
/// reservations at that moment or the limit was ignored.
pub fn run_resize_window(seed: u64, probers: usize, epochs: usize, resizes: usize) -> HistoryOutcome {
    let limit = 1000usize;
    let floor = 800usize;
    let ask = 300usize;
    let pool = MemoryPool::new(limit);
    let epoch = AtomicU64::new(0);
    let done = AtomicU64::new(0);
    let mut violations: Vec<String> = Vec::new();
    let (mut ops, mut grants, mut denials, mut samples) = (0u64, 0u64, 0u64, 0u64);
    let mut hash = 0xcbf29ce484222325u64;
    std::thread::scope(|s| {
        let (pool, epoch, done) = (&pool, &epoch, &done);
        let owner = s.spawn(move || {
            let mut rng = Xs(seed.wrapping_mul(0x9E3779B97F4A7C15) | 1);
            let mut v = Vec::new();
            let mut n = 0u64;
            for _ in 0..epochs {
                // wait until the probers' leftovers are gone and the big block fits
                let mut r = loop {
                    if let Some(r) = pool.try_allocate(floor + 100) {
                        break r;
                    }
                    std::thread::yield_now();
                };
                epoch.fetch_add(1, O::SeqCst); // odd: at least `floor` is held from here on
                for _ in 0..resizes {
                    let new = floor + rng.below((limit - floor) as u64 + 1) as usize;
                    r.resize(new);
                    n += 1;
                    if r.size() != new {
                        v.push(format!("resize({}) left size {}", new, r.size()));
                    }
                    let u = pool.used();
                    if u > usize::MAX / 2 {
                        v.push(format!("used() = {} (underflow / wrap-around) during a resize", u));
                    }
                }
                epoch.fetch_add(1, O::SeqCst); // even: the block may go away
                drop(r);
            }
            done.store(1, O::SeqCst);
            (v, n)
        });
        let mut hs = Vec::new();
        for _ in 0..probers {
            hs.push(s.spawn(move || {
                let mut v = Vec::new();
                let (mut g, mut d, mut inside) = (0u64, 0u64, 0u64);
                let mut trace = 0u64;
                while done.load(O::SeqCst) == 0 {
                    let e1 = epoch.load(O::SeqCst);
                    let r = pool.try_allocate(ask);
                    let e2 = epoch.load(O::SeqCst);
                    let odd_same = e1 == e2 && e1 % 2 == 1;
                    if odd_same {
                        inside += 1;
                    }
                    match r {
                        Some(r) => {
                            g += 1;
                            trace = trace.wrapping_mul(31).wrapping_add(e1 * 2 + 1);
                            if odd_same {
                                v.push(format!(
                                    "over-grant: try_allocate({}) granted while a live reservation of at least {} was being resized in a pool of {} (used() now {})",
                                    ask, floor, limit, pool.used()
                                ));
                            }
                            drop(r);
                        }
                        None => {
                            d += 1;
                            trace = trace.wrapping_mul(31).wrapping_add(e1 * 2);
                        }
                    }
                    std::thread::yield_now();
                }
                (v, g, d, inside, trace)
            }));
        }
        let (v, n) = owner.join().expect("owner");
        violations.extend(v);
        ops += n;
        for h in hs {
            let (v, g, d, inside, trace) = h.join().expect("prober");
            violations.extend(v);
            grants += g;
            denials += d;
            samples += inside;
            ops += g + d;
            hash ^= trace;
            hash = hash.wrapping_mul(0x100000001b3);
        }
    });
    if pool.used() != 0 {
        violations.push(format!("after dropping every reservation used() = {}", pool.used()));
    }
    violations.truncate(8);
    HistoryOutcome { violations, interleaving_hash: hash, ops, grants, denials, forced: 0, samples }
}

/// Sequential lock-step model at the edges of the counter's range: one thread,
/// so the answer of every call is determined. Sizes sit next to 0, the limit
/// and usize::MAX; forced bytes are kept inside the counter's range (what a
/// forced allocation past usize::MAX should do is not something the property
/// states).
pub fn run_boundary(seed: u64, ops: usize, limit: usize) -> HistoryOutcome {
    let pool = MemoryPool::new(limit);
    let mut rng = Xs(seed.wrapping_mul(0x9E3779B97F4A7C15) | 1);
    let mut model_used: usize = 0;
    let mut held: Vec<(MemoryReservation, usize)> = Vec::new();
    let mut violations = Vec::new();
    let (mut grants, mut denials, mut forced) = (0u64, 0u64, 0u64);
    let mut hash = 0xcbf29ce484222325u64;
    let m = usize::MAX;
    let edge = [0usize, 1, 2, 89, 90, 1000, limit / 2, limit.saturating_sub(1), limit, limit.saturating_add(1), m / 2, m / 2 + 1, m - 90, m - 1, m];
    for step in 0..ops {
        let k = rng.below(8);
        match k {
            0..=2 => {
                let size = edge[rng.below(edge.len() as u64) as usize];
                let expect = match model_used.checked_add(size) {
                    Some(n) => n <= limit,
                    None => false,
                };
                match pool.try_allocate(size) {
                    Some(r) => {
                        grants += 1;
                        if !expect {
                            violations.push(format!("over-grant: step {}: try_allocate({}) granted with used {} and limit {}", step, size, model_used, limit));
                        }
                        model_used = model_used.wrapping_add(size);
                        held.push((r, size));
                    }
                    None => {
                        denials += 1;
                        if expect {
                            violations.push(format!("step {}: try_allocate({}) refused with used {} and limit {}", step, size, model_used, limit));
                        }
                    }
                }
                hash = (hash ^ (size as u64 ^ expect as u64)).wrapping_mul(0x100000001b3);
            }
            3 => {
                // forced, kept inside the counter's range
                let room = m - model_used;
                let pickv = [0usize, 1, 90, room / 2, room.saturating_sub(90), room.saturating_sub(1), room];
                let size = pickv[rng.below(pickv.len() as u64) as usize];
                let r = pool.allocate(size);
                forced += 1;
                model_used += size;
                held.push((r, size));
                hash = (hash ^ 3).wrapping_mul(0x100000001b3);
            }
            4 => {
                if !held.is_empty() {
                    let i = rng.below(held.len() as u64) as usize;
                    let cur = held[i].1;
                    let room = m - model_used;
                    let new = match rng.below(4) {
                        0 => 0,
                        1 => cur / 2,
                        2 => cur.saturating_add(room.min(90)),
                        _ => cur.saturating_add(room),
                    };
                    held[i].0.resize(new);
                    model_used = model_used - cur + new;
                    held[i].1 = new;
                    if held[i].0.size() != new {
                        violations.push(format!("step {}: resize({}) left size {}", step, new, held[i].0.size()));
                    }
                    hash = (hash ^ 4).wrapping_mul(0x100000001b3);
                }
            }
            _ => {
                if !held.is_empty() {
                    let i = rng.below(held.len() as u64) as usize;
                    let (r, sz) = held.swap_remove(i);
                    drop(r);
                    model_used -= sz;
                    hash = (hash ^ 5).wrapping_mul(0x100000001b3);
                }
            }
        }
        if pool.used() != model_used {
            violations.push(format!("quiescent: step {}: used() = {} but live reservations sum to {}", step, pool.used(), model_used));
            break;
        }
        if pool.available() != limit.saturating_sub(model_used) {
            violations.push(format!("step {}: available() = {} with used {} and limit {}", step, pool.available(), model_used, limit));
        }
    }
    held.clear();
    if pool.used() != 0 {
        violations.push(format!("after dropping every reservation used() = {}", pool.used()));
    }
    HistoryOutcome { violations, interleaving_hash: hash, ops: ops as u64, grants, denials, forced, samples: ops as u64 }
}
