// Shared C33 workload + shadow-accounting monitor. `include!`d by the Miri
// crate and by the native harness; the includer must have `MemoryPool` and
// `MemoryReservation` in scope.

use std::sync::atomic::{AtomicU64, AtomicUsize, Ordering as O};

pub struct HistoryOutcome {
    pub violations: Vec<String>,
    pub interleaving_hash: u64,
    pub ops: u64,
    pub grants: u64,
    pub denials: u64,
    pub forced: u64,
    pub samples: u64,
}

struct Xs(u64);
impl Xs {
    fn next(&mut self) -> u64 {
        let mut x = self.0;
        x ^= x << 13;
        x ^= x >> 7;
        x ^= x << 17;
        self.0 = x;
        x
    }
    fn below(&mut self, n: u64) -> u64 {
        self.next() % n.max(1)
    }
}

/// One concurrent history: `threads` threads x `ops` operations over one pool
/// with `limit`. `allow_forced` adds forced allocations and growing resizes.
pub fn run_history(seed: u64, threads: usize, ops: usize, limit: usize, allow_forced: bool) -> HistoryOutcome {
    let pool = MemoryPool::new(limit);
    let seq = AtomicU64::new(0);
    // lower bound of the live try-granted total (added after grant, removed before release)
    let shadow_try = AtomicUsize::new(0);
    // monotone counters bounding live forced bytes: added BEFORE the call, released AFTER the drop
    let forced_added = AtomicUsize::new(0);
    let forced_released = AtomicUsize::new(0);
    let sizes: [usize; 8] = [0, 1, 7, 30, 60, limit, limit.saturating_add(1), usize::MAX];

    struct Held<'a> {
        r: MemoryReservation<'a>,
        try_part: usize,
        forced_part: usize,
    }
    struct ThreadOut<'a> {
        log: Vec<(u64, u8)>,
        held: Vec<Held<'a>>,
        violations: Vec<String>,
        ops: u64,
        grants: u64,
        denials: u64,
        forced: u64,
        samples: u64,
    }

    let outs: Vec<ThreadOut> = std::thread::scope(|s| {
        let mut hs = Vec::new();
        for t in 0..threads {
            let (pool, seq, shadow_try, forced_added, forced_released) = (&pool, &seq, &shadow_try, &forced_added, &forced_released);
            hs.push(s.spawn(move || {
                let mut rng = Xs(seed.wrapping_mul(0x9E3779B97F4A7C15) ^ ((t as u64 + 1) << 32) | 1);
                let mut o = ThreadOut { log: Vec::new(), held: Vec::new(), violations: Vec::new(), ops: 0, grants: 0, denials: 0, forced: 0, samples: 0 };
                for _ in 0..ops {
                    o.ops += 1;
                    let k = rng.below(if allow_forced { 10 } else { 7 });
                    let stamp = seq.fetch_add(1, O::SeqCst);
                    match k {
                        0..=3 => {
                            let size = sizes[rng.below(sizes.len() as u64) as usize];
                            match pool.try_allocate(size) {
                                Some(r) => {
                                    o.grants += 1;
                                    o.log.push((stamp, 1));
                                    let after = shadow_try.fetch_add(size, O::SeqCst).wrapping_add(size);
                                    if after > limit {
                                        o.violations.push(format!("over-grant: live conditional reservations total {} > limit {} after try_allocate({})", after, limit, size));
                                    }
                                    if size > limit {
                                        o.violations.push(format!("try_allocate({}) granted with limit {}", size, limit));
                                    }
                                    if r.size() != size {
                                        o.violations.push(format!("reservation size {} != requested {}", r.size(), size));
                                    }
                                    o.held.push(Held { r, try_part: size, forced_part: 0 });
                                }
                                None => {
                                    o.denials += 1;
                                    o.log.push((stamp, 2));
                                }
                            }
                        }
                        4 | 5 => {
                            // release one
                            if !o.held.is_empty() {
                                let i = rng.below(o.held.len() as u64) as usize;
                                let h = o.held.swap_remove(i);
                                shadow_try.fetch_sub(h.try_part, O::SeqCst);
                                let fp = h.forced_part;
                                drop(h.r);
                                forced_released.fetch_add(fp, O::SeqCst);
                                o.log.push((stamp, 3));
                            }
                        }
                        6 => {
                            // shrink one (never grows in the try-only phase)
                            if !o.held.is_empty() {
                                let i = rng.below(o.held.len() as u64) as usize;
                                let h = &mut o.held[i];
                                let cur = h.try_part + h.forced_part;
                                let new = rng.below(cur as u64 + 1) as usize;
                                // remove from the shadows before the pool shrinks
                                let mut cut = cur - new;
                                let cut_try = cut.min(h.try_part);
                                shadow_try.fetch_sub(cut_try, O::SeqCst);
                                h.try_part -= cut_try;
                                cut -= cut_try;
                                h.forced_part -= cut;
                                h.r.resize(new);
                                forced_released.fetch_add(cut, O::SeqCst);
                                if h.r.size() != new {
                                    o.violations.push(format!("resize({}) left size {}", new, h.r.size()));
                                }
                                o.log.push((stamp, 4));
                            }
                        }
                        7 => {
                            let size = [0usize, 1, 30, limit][rng.below(4) as usize];
                            forced_added.fetch_add(size, O::SeqCst);
                            let r = pool.allocate(size);
                            o.forced += 1;
                            o.held.push(Held { r, try_part: 0, forced_part: size });
                            o.log.push((stamp, 5));
                        }
                        8 => {
                            // grow one (forced growth)
                            if !o.held.is_empty() {
                                let i = rng.below(o.held.len() as u64) as usize;
                                let h = &mut o.held[i];
                                let cur = h.try_part + h.forced_part;
                                let add = rng.below(40) as usize;
                                forced_added.fetch_add(add, O::SeqCst);
                                h.forced_part += add;
                                h.r.resize(cur + add);
                                o.log.push((stamp, 6));
                            }
                        }
                        _ => {}
                    }
                    // sample the pool
                    let rel = forced_released.load(O::SeqCst);
                    let u = pool.used();
                    let add = forced_added.load(O::SeqCst);
                    o.samples += 1;
                    if u > usize::MAX / 2 {
                        o.violations.push(format!("used() = {} (underflow / wrap-around)", u));
                    } else if u > limit.saturating_add(add.saturating_sub(rel)) {
                        o.violations.push(format!("used() = {} exceeds limit {} + live forced bytes (at most {})", u, limit, add.saturating_sub(rel)));
                    }
                    if pool.available() > limit {
                        o.violations.push(format!("available() = {} > limit {}", pool.available(), limit));
                    }
                }
                o
            }));
        }
        hs.into_iter().map(|h| h.join().expect("worker thread")).collect()
    });

    // quiescent point: usage equals the sum of live reservations
    let mut violations = Vec::new();
    let mut all_log: Vec<(u64, u8, u8)> = Vec::new();
    let mut live_total: usize = 0;
    let (mut ops_n, mut grants, mut denials, mut forced, mut samples) = (0, 0, 0, 0, 0);
    let mut held_all = Vec::new();
    for (t, o) in outs.into_iter().enumerate() {
        violations.extend(o.violations);
        for (s, k) in o.log {
            all_log.push((s, t as u8, k));
        }
        for h in o.held {
            live_total += h.try_part + h.forced_part;
            if h.r.size() != h.try_part + h.forced_part {
                violations.push(format!("reservation reports size {} but the shadow says {}", h.r.size(), h.try_part + h.forced_part));
            }
            held_all.push(h);
        }
        ops_n += o.ops;
        grants += o.grants;
        denials += o.denials;
        forced += o.forced;
        samples += o.samples;
    }
    if pool.used() != live_total {
        violations.push(format!("quiescent: used() = {} but live reservations sum to {}", pool.used(), live_total));
    }
    drop(held_all);
    if pool.used() != 0 {
        violations.push(format!("after dropping every reservation used() = {}", pool.used()));
    }
    all_log.sort();
    let mut h: u64 = 0xcbf29ce484222325;
    for (_, t, k) in &all_log {
        h ^= (*t as u64) << 8 | *k as u64;
        h = h.wrapping_mul(0x100000001b3);
    }
    HistoryOutcome { violations, interleaving_hash: h, ops: ops_n, grants, denials, forced, samples }
}
