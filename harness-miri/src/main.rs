//! C33 under Miri: the real `src/execution/memory.rs` of /repo, compiled
//! stand-alone, driven by the shared workload with the shadow-accounting
//! monitor. Usage: qe-verif-miri <seed> <histories>
//! Prints one line per history: "H <seed> <interleaving-hash> ops grants denials forced samples"
//! and "VIOL <text>" for each violation; exit code 1 if any.

mod error {
    #[derive(Debug)]
    pub enum QueryError {
        InvalidArgument(String),
        Execution(String),
        Io(std::io::Error),
    }
    impl std::fmt::Display for QueryError {
        fn fmt(&self, f: &mut std::fmt::Formatter<'_>) -> std::fmt::Result {
            write!(f, "{:?}", self)
        }
    }
    impl std::error::Error for QueryError {}
    impl From<std::io::Error> for QueryError {
        fn from(e: std::io::Error) -> Self {
            QueryError::Io(e)
        }
    }
    pub type Result<T> = std::result::Result<T, QueryError>;
}

#[path = "/repo/src/execution/memory.rs"]
#[allow(dead_code, unused)]
mod memory;

mod wl {
    use super::memory::{MemoryPool, MemoryReservation};
    include!("workload.rs");
}

fn main() {
    let args: Vec<String> = std::env::args().collect();
    let seed: u64 = args.get(1).and_then(|s| s.parse().ok()).unwrap_or(1);
    let n: u64 = args.get(2).and_then(|s| s.parse().ok()).unwrap_or(4);
    let mut bad = 0;
    for i in 0..n {
        let s = seed.wrapping_mul(1000).wrapping_add(i);
        let threads = 2 + (s % 2) as usize;
        let ops = 4 + (s % 5) as usize;
        let forced = s % 3 == 0;
        let o = wl::run_history(s, threads, ops, 100, forced);
        println!("H {} {:016x} {} {} {} {} {}", s, o.interleaving_hash, o.ops, o.grants, o.denials, o.forced, o.samples);
        for v in &o.violations {
            println!("VIOL {}", v);
            bad += 1;
        }
    }
    // resize-window and boundary scenarios, small
    {
        let o = wl::run_resize_window(seed, 1 + (seed % 2) as usize, 2, 3);
        println!("H rw{} {:016x} {} {} {} {} {}", seed, o.interleaving_hash, o.ops, o.grants, o.denials, o.forced, o.samples);
        for v in &o.violations {
            println!("VIOL {}", v);
            bad += 1;
        }
        for (i, limit) in [usize::MAX, usize::MAX / 2, 1000].into_iter().enumerate() {
            let o = wl::run_boundary(seed.wrapping_mul(31).wrapping_add(i as u64), 20, limit);
            println!("H b{}-{} {:016x} {} {} {} {} {}", seed, i, o.interleaving_hash, o.ops, o.grants, o.denials, o.forced, o.samples);
            for v in &o.violations {
                println!("VIOL {}", v);
                bad += 1;
            }
        }
    }
    if bad > 0 {
        std::process::exit(1);
    }
}
