//! Logical tables owned by the harness and their physical materialisations
//! (Arrow batches with an arbitrary batch split, Parquet files with arbitrary
//! file / row-group splits).

use crate::rng::Rng;
use arrow::array::*;
use arrow::datatypes::{DataType, Field, Schema, SchemaRef};
use arrow::record_batch::RecordBatch;
use parquet::arrow::ArrowWriter;
use parquet::basic::Compression;
use parquet::file::properties::{EnabledStatistics, WriterProperties};
use serde_json::{json, Value};
use std::path::{Path, PathBuf};
use std::sync::Arc;

#[derive(Clone, Debug)]
pub enum Cell {
    Null,
    Int(i64),
    F(f64),
    S(String),
    Date(i32),
    Bool(bool),
}

#[derive(Clone, Copy, Debug, PartialEq, Eq, Hash)]
pub enum Ty {
    I64,
    I32,
    F64,
    Str,
    Date,
    Bool,
}

impl Ty {
    pub fn arrow(self) -> DataType {
        match self {
            Ty::I64 => DataType::Int64,
            Ty::I32 => DataType::Int32,
            Ty::F64 => DataType::Float64,
            Ty::Str => DataType::Utf8,
            Ty::Date => DataType::Date32,
            Ty::Bool => DataType::Boolean,
        }
    }
    pub fn is_int(self) -> bool {
        matches!(self, Ty::I64 | Ty::I32)
    }
    pub fn is_num(self) -> bool {
        matches!(self, Ty::I64 | Ty::I32 | Ty::F64)
    }
    pub fn name(self) -> &'static str {
        match self {
            Ty::I64 => "i64",
            Ty::I32 => "i32",
            Ty::F64 => "f64",
            Ty::Str => "str",
            Ty::Date => "date",
            Ty::Bool => "bool",
        }
    }
}

#[derive(Clone, Debug)]
pub struct Col {
    pub name: String,
    pub ty: Ty,
    pub nullable: bool,
}

#[derive(Clone, Debug)]
pub struct Table {
    pub name: String,
    pub cols: Vec<Col>,
    pub rows: Vec<Vec<Cell>>,
}

pub fn date_to_string(days: i32) -> String {
    match chrono::NaiveDate::from_ymd_opt(1970, 1, 1).unwrap().checked_add_signed(chrono::Duration::days(days as i64)) {
        Some(d) if (-200_000..=200_000).contains(&days) => d.format("%Y-%m-%d").to_string(),
        _ => format!("day{}", days),
    }
}

impl Cell {
    pub fn is_null(&self) -> bool {
        matches!(self, Cell::Null)
    }
    /// SQL literal text understood by both the engine and DataFusion.
    pub fn sql(&self) -> String {
        match self {
            Cell::Null => "NULL".into(),
            Cell::Int(i) => i.to_string(),
            Cell::F(f) => {
                if f.fract() == 0.0 && f.abs() < 1e15 {
                    format!("{:.1}", f)
                } else {
                    format!("{}", f)
                }
            }
            Cell::S(s) => format!("'{}'", s.replace('\'', "''")),
            Cell::Date(d) => format!("DATE '{}'", date_to_string(*d)),
            Cell::Bool(b) => if *b { "TRUE" } else { "FALSE" }.into(),
        }
    }
    pub fn json(&self) -> Value {
        match self {
            Cell::Null => Value::Null,
            Cell::Int(i) => json!(i),
            Cell::F(f) => {
                if f.is_finite() {
                    json!(f)
                } else {
                    json!(format!("{}", f))
                }
            }
            Cell::S(s) => json!(s),
            Cell::Date(d) => json!(format!("d:{}", date_to_string(*d))),
            Cell::Bool(b) => json!(b),
        }
    }
    pub fn as_f64(&self) -> Option<f64> {
        match self {
            Cell::Int(i) => Some(*i as f64),
            Cell::F(f) => Some(*f),
            _ => None,
        }
    }
}

impl Table {
    pub fn schema(&self) -> SchemaRef {
        Arc::new(Schema::new(
            self.cols
                .iter()
                .map(|c| Field::new(&c.name, c.ty.arrow(), c.nullable))
                .collect::<Vec<_>>(),
        ))
    }
    pub fn col_index(&self, name: &str) -> Option<usize> {
        self.cols.iter().position(|c| c.name == name)
    }

    pub fn batch_of(&self, lo: usize, hi: usize) -> RecordBatch {
        let schema = self.schema();
        let mut arrays: Vec<ArrayRef> = Vec::new();
        for (ci, c) in self.cols.iter().enumerate() {
            let it = self.rows[lo..hi].iter().map(|r| &r[ci]);
            let a: ArrayRef = match c.ty {
                Ty::I64 => Arc::new(Int64Array::from(
                    it.map(|c| if let Cell::Int(i) = c { Some(*i) } else { None }).collect::<Vec<_>>(),
                )),
                Ty::I32 => Arc::new(Int32Array::from(
                    it.map(|c| if let Cell::Int(i) = c { Some(*i as i32) } else { None })
                        .collect::<Vec<_>>(),
                )),
                Ty::F64 => Arc::new(Float64Array::from(
                    it.map(|c| match c {
                        Cell::F(f) => Some(*f),
                        Cell::Int(i) => Some(*i as f64),
                        _ => None,
                    })
                    .collect::<Vec<_>>(),
                )),
                Ty::Str => Arc::new(StringArray::from(
                    it.map(|c| if let Cell::S(s) = c { Some(s.as_str()) } else { None })
                        .collect::<Vec<_>>(),
                )),
                Ty::Date => Arc::new(Date32Array::from(
                    it.map(|c| match c {
                        Cell::Date(d) => Some(*d),
                        _ => None,
                    })
                    .collect::<Vec<_>>(),
                )),
                Ty::Bool => Arc::new(BooleanArray::from(
                    it.map(|c| if let Cell::Bool(b) = c { Some(*b) } else { None }).collect::<Vec<_>>(),
                )),
            };
            arrays.push(a);
        }
        RecordBatch::try_new(schema, arrays).expect("harness batch")
    }

    /// One batch with all rows.
    pub fn one_batch(&self) -> RecordBatch {
        self.batch_of(0, self.rows.len())
    }

    /// Split at the given cut points (sorted offsets in 0..=n; repeated
    /// offsets produce empty batches).
    pub fn batches_at(&self, cuts: &[usize]) -> Vec<RecordBatch> {
        let n = self.rows.len();
        let mut out = Vec::new();
        let mut prev = 0usize;
        for &c in cuts {
            let c = c.min(n).max(prev);
            out.push(self.batch_of(prev, c));
            prev = c;
        }
        out.push(self.batch_of(prev, n));
        out
    }

    /// Random split into `k` batches (some may be empty when `allow_empty`).
    pub fn random_batches(&self, rng: &mut Rng, k: usize, allow_empty: bool) -> Vec<RecordBatch> {
        let n = self.rows.len();
        if k <= 1 {
            return vec![self.one_batch()];
        }
        let mut cuts: Vec<usize> = (0..k - 1).map(|_| rng.usize(n + 1)).collect();
        cuts.sort();
        if !allow_empty {
            cuts.dedup();
            cuts.retain(|&c| c != 0 && c != n);
        }
        self.batches_at(&cuts)
    }

    /// Even split into batches of `rows_per` rows.
    pub fn even_batches(&self, rows_per: usize) -> Vec<RecordBatch> {
        let n = self.rows.len();
        let rows_per = rows_per.max(1);
        let mut out = Vec::new();
        let mut lo = 0;
        while lo < n {
            let hi = (lo + rows_per).min(n);
            out.push(self.batch_of(lo, hi));
            lo = hi;
        }
        if out.is_empty() {
            out.push(self.batch_of(0, 0));
        }
        out
    }

    pub fn json(&self, max_rows: usize) -> Value {
        json!({
            "name": self.name,
            "cols": self.cols.iter().map(|c| format!("{}:{}{}", c.name, c.ty.name(), if c.nullable {"?"} else {""})).collect::<Vec<_>>(),
            "n_rows": self.rows.len(),
            "rows": self.rows.iter().take(max_rows).map(|r| Value::Array(r.iter().map(|c| c.json()).collect())).collect::<Vec<_>>(),
        })
    }
}

#[derive(Clone, Debug)]
pub struct PqOpts {
    pub files: usize,
    pub rg_rows: usize,
    pub dictionary: bool,
    pub snappy: bool,
    pub stats: bool,
}

impl Default for PqOpts {
    fn default() -> Self {
        PqOpts { files: 1, rg_rows: 1 << 20, dictionary: true, snappy: false, stats: true }
    }
}

impl PqOpts {
    pub fn random(rng: &mut Rng, n_rows: usize) -> Self {
        let files = *rng.pick(&[1usize, 1, 2, 3, 5]);
        let rg_choices = [1usize, 3, 7, 50, 100, 1000, 1 << 20];
        let mut rg_rows = *rng.pick(&rg_choices);
        // keep the number of row groups bounded
        while n_rows / rg_rows.max(1) > 400 {
            rg_rows *= 4;
        }
        PqOpts { files, rg_rows, dictionary: rng.bool(), snappy: rng.chance(1, 3), stats: true }
    }
    pub fn json(&self) -> Value {
        json!({"files": self.files, "rg_rows": self.rg_rows, "dict": self.dictionary, "snappy": self.snappy, "stats": self.stats})
    }
}

pub fn write_parquet_file(path: &Path, schema: SchemaRef, batches: &[RecordBatch], o: &PqOpts) {
    let props = WriterProperties::builder()
        .set_max_row_group_size(o.rg_rows.max(1))
        .set_dictionary_enabled(o.dictionary)
        .set_compression(if o.snappy { Compression::SNAPPY } else { Compression::UNCOMPRESSED })
        .set_statistics_enabled(if o.stats { EnabledStatistics::Chunk } else { EnabledStatistics::None })
        .build();
    let f = std::fs::File::create(path).expect("create parquet");
    let mut w = ArrowWriter::try_new(f, schema, Some(props)).expect("writer");
    for b in batches {
        // Feed in slices no larger than a row group so the writer flushes
        // exactly at rg_rows boundaries.
        let mut off = 0;
        while off < b.num_rows() {
            let len = (b.num_rows() - off).min(o.rg_rows.max(1));
            w.write(&b.slice(off, len)).expect("write");
            off += len;
        }
    }
    w.close().expect("close");
}

/// Materialise a table as a directory of Parquet files; returns the directory.
pub fn write_parquet_table(dir: &Path, t: &Table, o: &PqOpts) -> PathBuf {
    let d = dir.join(&t.name);
    let _ = std::fs::remove_dir_all(&d);
    std::fs::create_dir_all(&d).unwrap();
    let n = t.rows.len();
    let files = o.files.max(1);
    let per = (n + files - 1) / files.max(1);
    let mut lo = 0;
    for i in 0..files {
        let hi = if i + 1 == files { n } else { (lo + per).min(n) };
        let b = t.batch_of(lo, hi);
        write_parquet_file(&d.join(format!("part-{:03}.parquet", i)), t.schema(), &[b], o);
        lo = hi;
    }
    d
}

/// Scratch directory for one run, removed on drop.
pub struct Scratch(pub PathBuf);
impl Scratch {
    pub fn new(tag: &str) -> Self {
        let base = std::env::var("QE_VERIF_SCRATCH").unwrap_or_else(|_| "/var/tmp".into());
        let p = PathBuf::from(base).join(format!("qe-verif.{}.{}", tag, std::process::id()));
        let _ = std::fs::remove_dir_all(&p);
        std::fs::create_dir_all(&p).unwrap();
        Scratch(p)
    }
    pub fn path(&self) -> &Path {
        &self.0
    }
}
impl Drop for Scratch {
    fn drop(&mut self) {
        let _ = std::fs::remove_dir_all(&self.0);
    }
}

impl Table {
    /// Inverse of `Table::json` (used by replay / probe).
    pub fn from_json(v: &Value) -> Option<Table> {
        let name = v["name"].as_str()?.to_string();
        let mut cols = Vec::new();
        for c in v["cols"].as_array()? {
            let s = c.as_str()?;
            let (n, t) = s.split_once(':')?;
            let nullable = t.ends_with('?');
            let t = t.trim_end_matches('?');
            let ty = match t {
                "i64" => Ty::I64,
                "i32" => Ty::I32,
                "f64" => Ty::F64,
                "str" => Ty::Str,
                "date" => Ty::Date,
                "bool" => Ty::Bool,
                _ => return None,
            };
            cols.push(Col { name: n.to_string(), ty, nullable });
        }
        let mut rows = Vec::new();
        for r in v["rows"].as_array()? {
            let mut row = Vec::new();
            for (i, c) in r.as_array()?.iter().enumerate() {
                let cell = match (c, cols[i].ty) {
                    (Value::Null, _) => Cell::Null,
                    (Value::Bool(b), _) => Cell::Bool(*b),
                    (Value::Number(n), Ty::F64) => Cell::F(n.as_f64()?),
                    (Value::Number(n), _) => Cell::Int(n.as_i64()?),
                    (Value::String(s), Ty::Date) => {
                        let d = chrono::NaiveDate::parse_from_str(s.trim_start_matches("d:"), "%Y-%m-%d").ok()?;
                        Cell::Date((d - chrono::NaiveDate::from_ymd_opt(1970, 1, 1).unwrap()).num_days() as i32)
                    }
                    (Value::String(s), Ty::F64) => Cell::F(s.parse().ok()?),
                    (Value::String(s), _) => Cell::S(s.clone()),
                    _ => return None,
                };
                row.push(cell);
            }
            rows.push(row);
        }
        Some(Table { name, cols, rows })
    }
}
