//! C40 CLI output formats round-trip the result.
//!
//! The shell's formatter lives in the binary crate (src/cli/output.rs), so the
//! harness compiles that very file from /repo's working tree as a module of
//! its own (it depends only on arrow and chrono) and drives
//! OutputFormatter::{Csv,Json} — the code `.mode csv|json` and `--format` run.
//! The CSV text is parsed back by an RFC 4180 reader written here, the JSON
//! text by serde_json; both must give back every cell.

#[path = "/repo/src/cli/output.rs"]
#[allow(dead_code, unused, clippy::all)]
mod cli_output;

use crate::data::{Cell, Col, Table, Ty};
use crate::report::{Report, Tier};
use crate::rng::Rng;
use cli_output::{OutputFormat, OutputFormatter};
use serde_json::{json, Value};

/// RFC 4180 reader: records end at CRLF, LF or CR outside quotes; quoted
/// fields may contain separators, line breaks and doubled quotes.
pub fn parse_csv(text: &str) -> Result<Vec<Vec<String>>, String> {
    let mut recs = Vec::new();
    let mut rec: Vec<String> = Vec::new();
    let mut field = String::new();
    let cs: Vec<char> = text.chars().collect();
    let mut i = 0;
    let mut any = false;
    while i < cs.len() {
        let c = cs[i];
        if c == '"' && field.is_empty() {
            // quoted field
            i += 1;
            loop {
                if i >= cs.len() {
                    return Err("unterminated quoted field".into());
                }
                if cs[i] == '"' {
                    if i + 1 < cs.len() && cs[i + 1] == '"' {
                        field.push('"');
                        i += 2;
                        continue;
                    }
                    i += 1;
                    break;
                }
                field.push(cs[i]);
                i += 1;
            }
            any = true;
            // after the closing quote only a separator or a record end may follow
            if i < cs.len() && !(cs[i] == ',' || cs[i] == '\n' || cs[i] == '\r') {
                return Err(format!("text after a closing quote at char {}", i));
            }
            continue;
        }
        match c {
            ',' => {
                rec.push(std::mem::take(&mut field));
                any = true;
                i += 1;
            }
            '\r' | '\n' => {
                rec.push(std::mem::take(&mut field));
                recs.push(std::mem::take(&mut rec));
                any = false;
                if c == '\r' && i + 1 < cs.len() && cs[i + 1] == '\n' {
                    i += 1;
                }
                i += 1;
            }
            '"' => return Err(format!("bare quote inside an unquoted field at char {}", i)),
            _ => {
                field.push(c);
                any = true;
                i += 1;
            }
        }
    }
    if any || !field.is_empty() || !rec.is_empty() {
        rec.push(field);
        recs.push(rec);
    }
    Ok(recs)
}

fn hostile_string(rng: &mut Rng) -> String {
    let atoms: &[&str] = &["a", "b", "xyz", ",", "\"", "\n", "\r", "\r\n", "\t", " ", "\\", "'", ";", "\u{0}", "\u{1}", "\u{7}", "\u{8}", "\u{c}", "\u{1b}", "\u{7f}", "\u{85}", "\u{2028}", "ü", "日本", "😀", "e\u{301}", "NULL", "null", "true", "1", "-0", "1e5", "{", "}", "[", "]", ":", "\\n", "\\\"", "\"\"", ",,", "</script>", "\u{feff}"];
    let n = rng.usize(6);
    (0..n).map(|_| *rng.pick(atoms)).collect::<Vec<_>>().join("")
}

fn gen_result(rng: &mut Rng) -> Table {
    let ncols = 1 + rng.usize(5);
    let mut cols = Vec::new();
    let hostile_names = rng.chance(1, 5);
    for i in 0..ncols {
        let ty = *rng.pick(&[Ty::Str, Ty::Str, Ty::Str, Ty::I64, Ty::F64, Ty::Bool, Ty::Date]);
        let name = if hostile_names && rng.chance(1, 2) { format!("c{}{}", i, rng.pick(&[",x", "\"q\"", " sp", "\nnl", "ü", "\\", ":"])) } else { format!("c{}", i) };
        cols.push(Col { name, ty, nullable: true });
    }
    let nrows = *rng.pick(&[0usize, 1, 1, 2, 3, 7, 30]);
    let mut rows = Vec::new();
    for _ in 0..nrows {
        let mut r = Vec::new();
        for c in &cols {
            r.push(if rng.chance(1, 7) {
                Cell::Null
            } else {
                match c.ty {
                    Ty::Str => Cell::S(hostile_string(rng)),
                    Ty::I64 => Cell::Int(*rng.pick(&[0i64, 1, -1, 42, i64::MAX, i64::MIN, 1_000_000])),
                    Ty::F64 => Cell::F(*rng.pick(&[0.0f64, -0.0, 1.5, -2.25, 1e300, 1e-7, 123456789.125, f64::NAN, f64::INFINITY, f64::NEG_INFINITY, 0.1])),
                    Ty::Bool => Cell::Bool(rng.bool()),
                    Ty::Date => Cell::Date(*rng.pick(&[0i32, 18262, -1, 11016, 47482, -25567])),
                    Ty::I32 => Cell::Int(7),
                }
            });
        }
        rows.push(r);
    }
    Table { name: "r".into(), cols, rows }
}

fn class_of(s: &str) -> &'static str {
    if s.contains('\r') {
        "carriage-return"
    } else if s.contains('\n') {
        "newline"
    } else if s.chars().any(|c| (c as u32) < 0x20 || c as u32 == 0x7f) {
        "control-char"
    } else if s.contains('"') {
        "quote"
    } else if s.contains('\\') {
        "backslash"
    } else if s.contains(',') {
        "comma"
    } else if !s.is_ascii() {
        "non-ascii"
    } else if s.is_empty() {
        "empty-string"
    } else {
        "plain"
    }
}

/// Text a non-NULL cell is displayed as (the formatter's own display for
/// non-string types is taken from a one-cell table rendering is avoided: the
/// standard text of the value is the definition).
fn cell_text(c: &Cell) -> Option<String> {
    match c {
        Cell::Null => None,
        Cell::S(s) => Some(s.clone()),
        Cell::Int(i) => Some(i.to_string()),
        Cell::F(f) => Some(f.to_string()),
        Cell::Bool(b) => Some(b.to_string()),
        Cell::Date(d) => Some(crate::data::date_to_string(*d)),
    }
}

pub fn run_c40(tier: Tier, seed: u64) -> i32 {
    let mut rep = Report::new(
        "C40",
        tier,
        seed,
        "exploration",
        "generated result sets (0-30 rows x 1-5 columns of VARCHAR, BIGINT, DOUBLE, BOOLEAN, DATE with NULLs; strings assembled from commas, quotes, CR, LF, CRLF, tabs, backslashes, NUL and other control characters, U+2028, BOM, non-ASCII and combining characters, JSON-looking and NULL-looking text; plain and hostile column names; one or several batches) rendered by the shell's OutputFormatter in CSV and JSON mode. The CSV text is read back by an RFC 4180 parser: header = column names, one record per row, every field equal to the cell's text (NULL = empty field). The JSON text is read back by serde_json: an array with one object per row whose keys are the column names and whose values equal the cells (non-finite doubles are judged separately: JSON has no token for them). distinct = distinct (format, cell class) observed",
    );
    let n = tier.pick(6000usize, 200_000);
    let mut rng = Rng::new(seed ^ 0xC40);
    for case in 0..n {
        let t = gen_result(&mut rng);
        let batches = if t.rows.len() > 2 && rng.bool() { t.random_batches(&mut rng, 3, false) } else { vec![t.one_batch()] };
        let names: Vec<String> = t.cols.iter().map(|c| c.name.clone()).collect();
        let replay = |fmt: &str, text: &str, what: &str| json!({"format": fmt, "table": t.json(40), "output": text.chars().take(3000).collect::<String>(), "what": what});
        // ---- CSV -------------------------------------------------------------
        rep.eval();
        let csv = OutputFormatter::new(OutputFormat::Csv).format_to_string(&batches);
        if t.rows.is_empty() && batches.iter().all(|b| b.num_rows() == 0) && csv.is_empty() {
            // nothing printed for an empty result: nothing to parse back
        } else {
            match parse_csv(&csv) {
                Err(e) => {
                    let cls = if names.iter().any(|n| class_of(n) != "plain" && class_of(n) != "non-ascii") {
                        "hostile-column-name"
                    } else {
                        t.rows.iter().flatten().filter_map(|c| if let Cell::S(s) = c { Some(class_of(s)) } else { None }).find(|c| !matches!(*c, "plain" | "non-ascii" | "empty-string" | "comma")).unwrap_or("other")
                    };
                    rep.fail(&format!("csv:unparseable:{}", cls), &format!("CSV output is not RFC 4180: {}", e), replay("csv", &csv, &e));
                }
                Ok(recs) => {
                    let mut failed = false;
                    if recs.first().map(|h| h != &names).unwrap_or(true) {
                        let hostile = names.iter().any(|n| class_of(n) != "plain");
                        rep.fail(&format!("csv:header:{}", if hostile { "hostile-name" } else { "plain-name" }), &format!("CSV header parses to {:?}, columns are {:?}", recs.first(), names), replay("csv", &csv, "header"));
                        failed = true;
                    }
                    if !failed && recs.len() != t.rows.len() + 1 {
                        let cls = t.rows.iter().flatten().filter_map(|c| if let Cell::S(s) = c { Some(class_of(s)) } else { None }).find(|c| *c == "carriage-return" || *c == "newline").unwrap_or("other");
                        rep.fail(&format!("csv:record-count:{}", cls), &format!("CSV parses to {} records for {} rows", recs.len().saturating_sub(1), t.rows.len()), replay("csv", &csv, "record count"));
                        failed = true;
                    }
                    if !failed {
                        'rows: for (ri, row) in t.rows.iter().enumerate() {
                            let rec = &recs[ri + 1];
                            if rec.len() != row.len() {
                                rep.fail("csv:field-count", &format!("row {} parses to {} fields, {} columns", ri, rec.len(), row.len()), replay("csv", &csv, "field count"));
                                break 'rows;
                            }
                            for (ci, c) in row.iter().enumerate() {
                                let want = cell_text(c).unwrap_or_default();
                                let ty = t.cols[ci].ty;
                                let ok = if ty == Ty::F64 && !c.is_null() { rec[ci].parse::<f64>().ok().map(|g| Some(g.to_bits()) == c.as_f64().map(|w| w.to_bits()) || (g.is_nan() && c.as_f64().map(|w| w.is_nan()).unwrap_or(false))).unwrap_or(false) } else { rec[ci] == want };
                                if ok {
                                    rep.nontrivial(&("csv", if let Cell::S(s) = c { class_of(s) } else if c.is_null() { "null" } else { ty.name() }));
                                } else {
                                    let cls = if let Cell::S(s) = c { class_of(s) } else { ty.name() };
                                    rep.fail(&format!("csv:cell:{}", cls), &format!("row {} column {}: CSV field parses to {:?}, the cell is {:?}", ri, ci, rec[ci], want), replay("csv", &csv, "cell"));
                                    break 'rows;
                                }
                            }
                        }
                    }
                }
            }
        }
        // ---- JSON ------------------------------------------------------------
        rep.eval();
        let js = OutputFormatter::new(OutputFormat::Json).format_to_string(&batches);
        let has_nonfinite = t.rows.iter().flatten().any(|c| matches!(c, Cell::F(f) if !f.is_finite()));
        match serde_json::from_str::<Value>(&js) {
            Err(e) => {
                let cls = if has_nonfinite {
                    "nonfinite-double"
                } else if names.iter().any(|n| class_of(n) != "plain") {
                    "hostile-column-name"
                } else {
                    t.rows.iter().flatten().filter_map(|c| if let Cell::S(s) = c { Some(class_of(s)) } else { None }).find(|c| !matches!(*c, "plain" | "comma" | "non-ascii" | "empty-string")).unwrap_or("other")
                };
                rep.fail(&format!("json:unparseable:{}", cls), &format!("JSON output does not parse: {}", e), replay("json", &js, &e.to_string()));
            }
            Ok(v) => {
                let Some(arr) = v.as_array() else {
                    rep.fail("json:not-an-array", "JSON output is not an array", replay("json", &js, "shape"));
                    continue;
                };
                if arr.len() != t.rows.len() {
                    rep.fail("json:row-count", &format!("JSON holds {} objects for {} rows", arr.len(), t.rows.len()), replay("json", &js, "row count"));
                    continue;
                }
                'jrows: for (ri, row) in t.rows.iter().enumerate() {
                    let Some(o) = arr[ri].as_object() else {
                        rep.fail("json:row-not-object", "row is not an object", replay("json", &js, "shape"));
                        break;
                    };
                    for (ci, c) in row.iter().enumerate() {
                        let got = o.get(&names[ci]);
                        let ty = t.cols[ci].ty;
                        let ok = match (c, got) {
                            (_, None) => false,
                            (Cell::Null, Some(g)) => g.is_null(),
                            (Cell::S(s), Some(g)) => g.as_str() == Some(s.as_str()),
                            (Cell::Int(i), Some(g)) => g.as_i64() == Some(*i),
                            (Cell::Bool(b), Some(g)) => g.as_bool() == Some(*b),
                            (Cell::F(f), Some(g)) => {
                                if f.is_finite() {
                                    g.as_f64().map(|x| x == *f).unwrap_or(false)
                                } else {
                                    // no JSON token exists: null or the value's name as a string are both faithful
                                    g.is_null() || g.as_str().map(|s| s.parse::<f64>().map(|x| x.to_bits() == f.to_bits() || (x.is_nan() && f.is_nan())).unwrap_or(false)).unwrap_or(false)
                                }
                            }
                            (Cell::Date(d), Some(g)) => g.as_str() == Some(crate::data::date_to_string(*d).as_str()),
                        };
                        if ok {
                            rep.nontrivial(&("json", if let Cell::S(s) = c { class_of(s) } else if c.is_null() { "null" } else { ty.name() }));
                        } else {
                            let cls = if got.is_none() { "missing-key" } else if let Cell::S(s) = c { class_of(s) } else { ty.name() };
                            rep.fail(&format!("json:cell:{}", cls), &format!("row {} column {:?}: JSON value {:?}, the cell is {:?}", ri, names[ci], got, c), replay("json", &js, "cell"));
                            break 'jrows;
                        }
                    }
                }
            }
        }
        if case % 2000 == 0 {
            rep.sample(json!({"columns": names, "rows": t.rows.len(), "csv_head": csv.chars().take(160).collect::<String>(), "json_head": js.chars().take(160).collect::<String>()}));
        }
    }
    rep.assumptions.push("the formatter is compiled from /repo/src/cli/output.rs into the harness (the binary crate keeps it private); the REPL's `.mode` and the CLI's `--format` construct the same OutputFormatter".into());
    rep.assumptions.push("a NULL is an empty CSV field and JSON null; the text of a non-NULL number, boolean or date is its standard rendering".into());
    rep.finish()
}
