//! C12 Byte-balanced assignment is a deterministic partition within the LPT bound.
//!
//! Oracle: brute-force optimal makespan (exhaustive over small instances), and
//! partition / totals / determinism invariants on large random instances.

use crate::report::{Report, Tier};
use crate::rng::Rng;
use query_engine::distributed::splits::{assign_lpt, Assignment, Split, SplitSet};
use serde_json::json;
use std::path::PathBuf;

fn set_of(sizes: &[u64], rows: &[i64], keys: &[(String, usize, i64)]) -> SplitSet {
    let mut splits: Vec<Split> = sizes
        .iter()
        .enumerate()
        .map(|(i, &b)| Split {
            table: "t".into(),
            path: PathBuf::from(format!("/data/{}", keys[i].0)),
            file: keys[i].0.clone(),
            row_group: keys[i].1,
            row_offset: keys[i].2,
            num_rows: rows[i],
            bytes: b,
        })
        .collect();
    splits.sort_by(|a, b| (&a.file, a.row_group, a.row_offset).cmp(&(&b.file, b.row_group, b.row_offset)));
    SplitSet {
        table: "t".into(),
        total_bytes: sizes.iter().sum(),
        total_rows: rows.iter().sum(),
        target_split_bytes: 1 << 20,
        splits,
    }
}

fn simple_set(sizes: &[u64]) -> SplitSet {
    let rows: Vec<i64> = sizes.iter().enumerate().map(|(i, _)| 10 + i as i64).collect();
    let keys: Vec<(String, usize, i64)> = (0..sizes.len()).map(|i| ("f.parquet".to_string(), i, 0)).collect();
    set_of(sizes, &rows, &keys)
}

/// Optimal makespan by DFS with symmetry breaking and bound pruning.
fn opt_makespan(sizes: &[u64], n: usize) -> u64 {
    let mut s: Vec<u64> = sizes.to_vec();
    s.sort_by(|a, b| b.cmp(a));
    let total: u64 = s.iter().sum();
    let lower = ((total + n as u64 - 1) / n as u64).max(s.first().copied().unwrap_or(0));
    let mut best = total;
    let mut loads = vec![0u64; n];
    fn go(i: usize, s: &[u64], loads: &mut Vec<u64>, best: &mut u64, lower: u64) {
        if *best == lower {
            return;
        }
        let cur = *loads.iter().max().unwrap();
        if cur >= *best {
            return;
        }
        if i == s.len() {
            *best = cur;
            return;
        }
        let mut seen_empty = false;
        let mut tried: Vec<u64> = Vec::new();
        for k in 0..loads.len() {
            if loads[k] == 0 {
                if seen_empty {
                    continue;
                }
                seen_empty = true;
            }
            if tried.contains(&loads[k]) {
                continue;
            }
            tried.push(loads[k]);
            loads[k] += s[i];
            go(i + 1, s, loads, best, lower);
            loads[k] -= s[i];
        }
    }
    go(0, &s, &mut loads, &mut best, lower);
    best
}

fn check_partition(set: &SplitSet, a: &Assignment, n: usize) -> Result<(), String> {
    let n_eff = n.max(1);
    if a.nodes != n_eff || a.per_node.len() != n_eff || a.node_bytes.len() != n_eff || a.node_rows.len() != n_eff || a.node_splits.len() != n_eff {
        return Err(format!("shape: nodes={} per_node={} for n={}", a.nodes, a.per_node.len(), n));
    }
    let mut owner = vec![0u32; set.splits.len()];
    for (k, owned) in a.per_node.iter().enumerate() {
        let mut b = 0u64;
        let mut r = 0i64;
        for &i in owned {
            if i >= set.splits.len() {
                return Err(format!("node {} owns index {} out of range", k, i));
            }
            owner[i] += 1;
            b += set.splits[i].bytes;
            r += set.splits[i].num_rows;
        }
        if b != a.node_bytes[k] {
            return Err(format!("node {} bytes {} != sum of owned {}", k, a.node_bytes[k], b));
        }
        if r != a.node_rows[k] {
            return Err(format!("node {} rows {} != sum of owned {}", k, a.node_rows[k], r));
        }
        if owned.len() != a.node_splits[k] {
            return Err(format!("node {} split count {} != owned {}", k, a.node_splits[k], owned.len()));
        }
    }
    if let Some(i) = owner.iter().position(|&c| c != 1) {
        return Err(format!("split {} owned by {} nodes", i, owner[i]));
    }
    if a.total_bytes != set.total_bytes {
        return Err("total_bytes differs".into());
    }
    Ok(())
}

fn same(a: &Assignment, b: &Assignment) -> bool {
    a.nodes == b.nodes && a.per_node == b.per_node && a.node_bytes == b.node_bytes && a.node_rows == b.node_rows && a.node_splits == b.node_splits && a.total_bytes == b.total_bytes
}

pub fn run(tier: Tier, seed: u64) -> i32 {
    let mut rep = Report::new(
        "C12",
        tier,
        seed,
        "exploration",
        "exhaustive: every multiset of <=K sizes from {0,1,2,3,5,8,13} x N in 1..Nmax checked against the brute-force optimal makespan (3N*max <= (4N-1)*OPT), partition, totals and determinism; random: large instances with ties and zero-byte splits for partition/totals/determinism. distinct = distinct (size multiset, N) instances with >= 2 splits",
    );
    let alphabet = [0u64, 1, 2, 3, 5, 8, 13];
    let (kmax, nmax) = tier.pick((7usize, 4usize), (9, 5));
    let mut exhaustive_instances = 0u64;
    // enumerate multisets as non-decreasing index sequences
    let mut stack: Vec<Vec<usize>> = vec![vec![]];
    while let Some(cur) = stack.pop() {
        if cur.len() < kmax {
            let start = cur.last().copied().unwrap_or(0);
            for j in start..alphabet.len() {
                let mut nx = cur.clone();
                nx.push(j);
                stack.push(nx);
            }
        }
        let sizes: Vec<u64> = cur.iter().map(|&j| alphabet[j]).collect();
        let set = simple_set(&sizes);
        for n in 1..=nmax {
            rep.eval();
            exhaustive_instances += 1;
            let a = assign_lpt(&set, n);
            let a2 = assign_lpt(&set.clone(), n);
            let replay = json!({"sizes": sizes, "nodes": n, "assignment": a.per_node, "node_bytes": a.node_bytes});
            if let Err(e) = check_partition(&set, &a, n) {
                rep.fail("partition", &e, replay.clone());
                continue;
            }
            if !same(&a, &a2) {
                rep.fail("nondeterministic", "two runs on identical input differ", replay.clone());
            }
            let max = a.node_bytes.iter().copied().max().unwrap_or(0);
            let opt = opt_makespan(&sizes, n);
            if 3 * n as u64 * max > (4 * n as u64 - 1) * opt {
                rep.fail("lpt-bound", &format!("max load {} vs optimum {} with N={} exceeds 4/3-1/(3N)", max, opt, n), replay.clone());
            }
            if max < opt {
                rep.fail("oracle-bug", "assignment beats the brute-force optimum", replay.clone());
            }
            if sizes.len() >= 2 {
                rep.nontrivial(&(&sizes, n));
            }
            if sizes.len() == kmax && n == nmax && cur[0] != cur[kmax - 1] {
                rep.sample(json!({"sizes": sizes, "nodes": n, "node_bytes": a.node_bytes, "opt": opt}));
            }
        }
    }
    rep.set("exhaustive_instances", json!(exhaustive_instances));
    rep.exhaustive = Some(false);
    rep.set("exhaustive_subspace", json!(format!("all multisets of <= {} sizes from {:?} x N in 1..={} (complete)", kmax, alphabet, nmax)));

    // random large instances
    let mut rng = Rng::new(seed ^ 0xC12);
    let rounds = tier.pick(400, 6000);
    for r in 0..rounds {
        let m = match rng.below(4) {
            0 => rng.usize(6),
            1 => rng.usize(40),
            2 => rng.usize(400),
            _ => rng.usize(tier.pick(2000, 5000)),
        };
        let n = match rng.below(3) {
            0 => 1 + rng.usize(4),
            1 => 1 + rng.usize(16),
            _ => 1 + rng.usize(64),
        };
        let tie_heavy = rng.bool();
        let mut sizes = Vec::new();
        let mut rows = Vec::new();
        let mut keys = Vec::new();
        for i in 0..m {
            let b = if rng.chance(1, 10) {
                0
            } else if tie_heavy {
                *rng.pick(&[4u64 << 20, 8 << 20, 64 << 20, 1])
            } else {
                rng.below(1 << 27)
            };
            sizes.push(b);
            rows.push(1 + rng.below(100_000) as i64);
            keys.push((format!("f{:03}.parquet", i % 7), i / 7, (rng.below(3) * 1000) as i64 + (i as i64) * 0));
        }
        // keys are unique in four instances out of five; the fifth keeps
        // repeated canonical keys (and, with tie-heavy sizes, equal bytes):
        // "every split goes to exactly one node" holds for ANY split set
        if r % 5 != 4 {
            for (i, k) in keys.iter_mut().enumerate() {
                k.2 = i as i64;
            }
        } else {
            for k in keys.iter_mut() {
                k.1 = 0;
                k.2 = (k.2 / 1000) % 2;
            }
        }
        let set = set_of(&sizes, &rows, &keys);
        let a = assign_lpt(&set, n);
        let a2 = assign_lpt(&set, n);
        rep.eval();
        let replay = json!({"sizes": sizes, "rows": rows, "nodes": n});
        if let Err(e) = check_partition(&set, &a, n) {
            rep.fail("partition", &e, replay.clone());
            continue;
        }
        if !same(&a, &a2) {
            rep.fail("nondeterministic", "two runs on identical input differ", replay.clone());
        }
        // Graham's bound against the trivial lower bound on OPT is implied by
        // the exact bound: max <= (4/3-1/(3N)) OPT and OPT >= max(avg, biggest).
        // We can only check the weaker list-scheduling consequence here:
        // max - min <= largest split (holds for any greedy least-loaded rule).
        let max = a.node_bytes.iter().copied().max().unwrap_or(0);
        let min = a.node_bytes.iter().copied().min().unwrap_or(0);
        let biggest = sizes.iter().copied().max().unwrap_or(0);
        if max - min > biggest {
            rep.fail("greedy-gap", &format!("max-min load {} exceeds the largest split {}: not least-loaded-first", max - min, biggest), replay.clone());
        }
        if m >= 2 {
            rep.nontrivial(&(r, m, n));
        }
        if r < 2 {
            rep.sample(json!({"random_instance": {"splits": m, "nodes": n, "node_bytes_max": max, "node_bytes_min": min}}));
        }
    }
    // nodes == 0 is clamped to 1
    let s = simple_set(&[3, 5, 8]);
    let a0 = assign_lpt(&s, 0);
    rep.eval();
    if let Err(e) = check_partition(&s, &a0, 0) {
        rep.fail("partition", &format!("nodes=0: {}", e), json!({"sizes":[3,5,8],"nodes":0}));
    }
    rep.assumptions.push("SplitSet values are built by the harness in canonical order, as enumerate_parquet produces them".into());
    rep.finish()
}
