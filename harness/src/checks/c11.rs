//! C11 Split enumeration covers every row exactly once, canonically.
//! C14 Nodes that disagree about the data refuse to answer.

use crate::data::{write_parquet_file, Cell, Col, PqOpts, Scratch, Table, Ty};
use crate::eng::rt;
use crate::report::{Report, Tier};
use crate::rng::Rng;
use parquet::file::reader::{FileReader, SerializedFileReader};
use query_engine::distributed::coordinator::{execute_fragment, splits_of, FragmentRequest};
use query_engine::distributed::splits::{enumerate_parquet, SplitSet};
use query_engine::ExecutionContext;
use serde_json::json;
use std::collections::BTreeMap;
use std::path::{Path, PathBuf};

/// (file name, row group) -> (rows, uncompressed bytes), read by the harness
/// with the parquet crate, independently of the engine's metadata cache.
pub fn inventory(files: &[PathBuf]) -> BTreeMap<(String, usize), (i64, u64)> {
    let mut m = BTreeMap::new();
    for f in files {
        let r = SerializedFileReader::new(std::fs::File::open(f).unwrap()).unwrap();
        let name = f.file_name().unwrap().to_string_lossy().to_string();
        for (i, rg) in r.metadata().row_groups().iter().enumerate() {
            m.insert((name.clone(), i), (rg.num_rows(), rg.total_byte_size().max(0) as u64));
        }
    }
    m
}

pub fn gen_table(rng: &mut Rng, rows: usize, wide: bool, tag: i64) -> Table {
    let mut cols = vec![Col { name: "id".into(), ty: Ty::I64, nullable: false }, Col { name: "v".into(), ty: Ty::I64, nullable: true }];
    if wide {
        cols.push(Col { name: "s".into(), ty: Ty::Str, nullable: true });
        cols.push(Col { name: "f".into(), ty: Ty::F64, nullable: true });
    }
    let mut out = Vec::with_capacity(rows);
    for i in 0..rows {
        let mut r = vec![Cell::Int(tag * 1_000_000 + i as i64), if rng.chance(1, 8) { Cell::Null } else { Cell::Int(rng.range(-50, 50)) }];
        if wide {
            r.push(if rng.chance(1, 8) { Cell::Null } else { Cell::S("x".repeat(rng.usize(30))) });
            r.push(Cell::F(rng.range(0, 800) as f64 / 8.0));
        }
        out.push(r);
    }
    Table { name: "t".into(), cols, rows: out }
}

pub struct FileSet {
    pub files: Vec<PathBuf>,
    pub rows: Vec<usize>,
}

/// Write `nfiles` parquet files into `dir` with random row counts / row-group sizes.
pub fn gen_fileset(rng: &mut Rng, dir: &Path, nfiles: usize, max_rows: usize, wide: bool) -> FileSet {
    std::fs::create_dir_all(dir).unwrap();
    let mut files = Vec::new();
    let mut rows_v = Vec::new();
    for i in 0..nfiles {
        let rows = match rng.below(5) {
            0 => 0,
            1 => 1 + rng.usize(5),
            2 => 1 + rng.usize(200),
            _ => 1 + rng.usize(max_rows),
        };
        let p = dir.join(format!("part-{:02}-{}.parquet", i, rng.below(1000)));
        if !wide && rows > 0 && rng.chance(1, 4) {
            // a file with zero-row row groups in the middle (ArrowWriter never writes
            // one; the low-level writer, Spark and parquet-mr do): a row group's index
            // is its position in the FILE, empty ones included
            let t = gen_table(rng, rows, false, i as i64);
            let n_groups = 2 + rng.usize(5);
            let mut sizes: Vec<usize> = (0..n_groups).map(|_| if rng.chance(1, 3) { 0 } else { 1 + rng.usize(rows) }).collect();
            let mut left = rows;
            for s in sizes.iter_mut() {
                *s = (*s).min(left);
                left -= *s;
            }
            if left > 0 {
                sizes.push(left);
            }
            write_lowlevel(&p, &t, &sizes);
            files.push(p);
            rows_v.push(rows);
            continue;
        }
        let t = gen_table(rng, rows, wide, i as i64);
        let rg = *rng.pick(&[1usize, 3, 10, 100, 1000, 1 << 20]);
        let rg = if rows / rg > 30 { rows / 30 + 1 } else { rg };
        let o = PqOpts { files: 1, rg_rows: rg, dictionary: rng.bool(), snappy: rng.bool(), stats: true };
        write_parquet_file(&p, t.schema(), &[t.one_batch()], &o);
        files.push(p);
        rows_v.push(rows);
    }
    FileSet { files, rows: rows_v }
}

/// The narrow table (id BIGINT NOT NULL, v BIGINT) written with the low-level
/// writer, one row group per entry of `sizes` (0 = a zero-row row group).
fn write_lowlevel(path: &Path, t: &Table, sizes: &[usize]) {
    use parquet::data_type::Int64Type;
    use parquet::file::properties::WriterProperties;
    use parquet::file::writer::SerializedFileWriter;
    use parquet::schema::parser::parse_message_type;
    let schema = std::sync::Arc::new(parse_message_type("message schema { REQUIRED INT64 id; OPTIONAL INT64 v; }").unwrap());
    let props = std::sync::Arc::new(WriterProperties::builder().build());
    let mut w = SerializedFileWriter::new(std::fs::File::create(path).unwrap(), schema, props).unwrap();
    let mut at = 0usize;
    for n in sizes {
        let rows = &t.rows[at..at + n];
        at += n;
        let mut rg = w.next_row_group().unwrap();
        let mut ci = 0;
        while let Some(mut col) = rg.next_column().unwrap() {
            if ci == 0 {
                let ids: Vec<i64> = rows.iter().map(|r| if let Cell::Int(i) = r[0] { i } else { 0 }).collect();
                col.typed::<Int64Type>().write_batch(&ids, None, None).unwrap();
            } else {
                let defs: Vec<i16> = rows.iter().map(|r| if r[1].is_null() { 0 } else { 1 }).collect();
                let vals: Vec<i64> = rows.iter().filter_map(|r| if let Cell::Int(i) = r[1] { Some(i) } else { None }).collect();
                col.typed::<Int64Type>().write_batch(&vals, Some(&defs), None).unwrap();
            }
            col.close().unwrap();
            ci += 1;
        }
        rg.close().unwrap();
    }
    w.close().unwrap();
}

fn check_cover(set: &SplitSet, inv: &BTreeMap<(String, usize), (i64, u64)>) -> Result<(), String> {
    // canonical order and unique keys
    for w in set.splits.windows(2) {
        let a = (&w[0].table, &w[0].file, w[0].row_group, w[0].row_offset);
        let b = (&w[1].table, &w[1].file, w[1].row_group, w[1].row_offset);
        if a >= b {
            return Err(format!("splits not in strictly increasing canonical order: {:?} then {:?}", a, b));
        }
    }
    let mut by_rg: BTreeMap<(String, usize), Vec<(i64, i64, u64)>> = BTreeMap::new();
    for s in &set.splits {
        if s.num_rows <= 0 {
            return Err(format!("split with {} rows", s.num_rows));
        }
        by_rg.entry((s.file.clone(), s.row_group)).or_default().push((s.row_offset, s.num_rows, s.bytes));
    }
    let mut total_rows = 0i64;
    let mut total_bytes = 0u64;
    for (k, (rows, bytes)) in inv {
        if *rows <= 0 {
            if by_rg.contains_key(k) {
                return Err(format!("empty row group {:?} has splits", k));
            }
            continue;
        }
        total_rows += rows;
        total_bytes += bytes;
        let Some(parts) = by_rg.get(k) else { return Err(format!("row group {:?} ({} rows) is in no split", k, rows)) };
        let mut parts = parts.clone();
        parts.sort();
        let mut next = 0i64;
        let mut b = 0u64;
        for (off, n, by) in &parts {
            if *off != next {
                return Err(format!("row group {:?}: range starts at {} but previous ended at {} (gap or overlap)", k, off, next));
            }
            next += n;
            b += by;
        }
        if next != *rows {
            return Err(format!("row group {:?}: splits cover {} of {} rows", k, next, rows));
        }
        if b != *bytes {
            return Err(format!("row group {:?}: split bytes sum to {} but the row group has {}", k, b, bytes));
        }
    }
    for k in by_rg.keys() {
        if !inv.contains_key(k) {
            return Err(format!("split refers to unknown row group {:?}", k));
        }
    }
    if set.total_rows != total_rows {
        return Err(format!("total_rows {} != {}", set.total_rows, total_rows));
    }
    if set.total_bytes != total_bytes {
        return Err(format!("total_bytes {} != {}", set.total_bytes, total_bytes));
    }
    let sb: u64 = set.splits.iter().map(|s| s.bytes).sum();
    if sb != total_bytes {
        return Err(format!("sum of split bytes {} != table bytes {}", sb, total_bytes));
    }
    Ok(())
}

fn shape(set: &SplitSet) -> Vec<(String, usize, i64, i64, u64)> {
    set.splits.iter().map(|s| (s.file.clone(), s.row_group, s.row_offset, s.num_rows, s.bytes)).collect()
}

fn copy_dir(files: &[PathBuf], to: &Path) -> Vec<PathBuf> {
    std::fs::create_dir_all(to).unwrap();
    files
        .iter()
        .map(|f| {
            let d = to.join(f.file_name().unwrap());
            std::fs::copy(f, &d).unwrap();
            d
        })
        .collect()
}

pub fn run_c11(tier: Tier, seed: u64) -> i32 {
    let mut rep = Report::new(
        "C11",
        tier,
        seed,
        "exploration",
        "generated Parquet file sets (1-8 files, 0-30 row groups each, empty files, zero-row row groups in the middle of a file, narrow and wide schemas) x node counts 1..64: interval cover per (file,row group) against a footer inventory read independently with the parquet crate; byte and row totals; canonical order; invariance under file-list permutation and relocation; digest sensitivity to rename / re-row-grouping / one more row / wider values, judged by whether the independent inventories differ; one file rewritten in place between two enumerations of the same path (mtime new / kept / moved earlier): cover and digest of the second enumeration against the new inventory. distinct = distinct (inventory, node count) pairs with >= 2 row groups",
    );
    let scratch = Scratch::new("c11");
    let mut rng = Rng::new(seed ^ 0xC11);
    let cases = tier.pick(120, 2500);
    let mut cut_rgs = 0u64;
    let mut dup_cases = 0u64;
    for case in 0..cases {
        let dir = scratch.path().join(format!("case{}", case));
        let nf_max = *rng.pick(&[1usize, 3, 8]);
        let nfiles = 1 + rng.usize(nf_max);
        let wide = rng.bool();
        let fs = gen_fileset(&mut rng, &dir.join("a"), nfiles, tier.pick(3000, 20000), wide);
        let inv = inventory(&fs.files);
        for _ in 0..3 {
            let nodes = *rng.pick(&[0usize, 1, 2, 3, 4, 5, 7, 8, 12, 16, 33, 64]);
            let set = match enumerate_parquet("t", &fs.files, nodes) {
                Ok(s) => s,
                Err(e) => {
                    rep.fail("enumerate-error", &format!("{}", e), json!({"files": fs.rows, "nodes": nodes}));
                    continue;
                }
            };
            rep.eval();
            if inv.len() >= 2 {
                rep.nontrivial(&(inv.iter().collect::<Vec<_>>(), nodes));
            }
            let replay = json!({"file_rows": fs.rows, "nodes": nodes, "inventory": inv.iter().map(|(k, v)| format!("{}#{}: {} rows {} bytes", k.0, k.1, v.0, v.1)).collect::<Vec<_>>(), "splits": shape(&set).iter().take(40).collect::<Vec<_>>()});
            if let Err(e) = check_cover(&set, &inv) {
                rep.fail("cover", &e, replay.clone());
            }
            let multi = set.splits.windows(2).filter(|w| w[0].file == w[1].file && w[0].row_group == w[1].row_group).count();
            cut_rgs += multi as u64;
            if case < 2 {
                rep.sample(json!({"file_rows": fs.rows, "nodes": nodes, "splits": set.len(), "total_rows": set.total_rows, "total_bytes": set.total_bytes, "sub_row_group_cuts": multi}));
            }
            // permutation
            let mut perm = fs.files.clone();
            rng.shuffle(&mut perm);
            let set_p = enumerate_parquet("t", &perm, nodes).unwrap();
            if shape(&set_p) != shape(&set) || set_p.digest() != set.digest() {
                rep.fail("permutation", "splits or digest changed when the file list was permuted", replay.clone());
            }
            // relocation
            let moved = copy_dir(&fs.files, &dir.join("b").join("deeper"));
            let set_m = enumerate_parquet("t", &moved, nodes).unwrap();
            if shape(&set_m) != shape(&set) || set_m.digest() != set.digest() {
                rep.fail("relocation", "splits or digest changed when files were copied under another directory", replay.clone());
            }
            // determinism
            let set_2 = enumerate_parquet("t", &fs.files, nodes).unwrap();
            if shape(&set_2) != shape(&set) || set_2.digest() != set.digest() {
                rep.fail("nondeterministic", "two enumerations differ", replay.clone());
            }
            // --- content changes: digest must change iff the inventory does
            let fi = rng.usize(fs.files.len());
            let variants: Vec<(&str, Vec<PathBuf>)> = {
                let mut v = Vec::new();
                // rename one file
                let vd = dir.join(format!("ren{}", nodes));
                let mut files = copy_dir(&fs.files, &vd);
                let newp = vd.join(format!("renamed-{}.parquet", rng.below(100)));
                std::fs::rename(&files[fi], &newp).unwrap();
                files[fi] = newp;
                v.push(("rename", files));
                // rewrite one file with one more row / other row-group size / wider values
                if fs.rows[fi] > 0 {
                    for kind in ["one-more-row", "regroup", "wider"] {
                        let vd = dir.join(format!("{}{}", kind, nodes));
                        let mut files = copy_dir(&fs.files, &vd);
                        let src = &fs.files[fi];
                        let rd = parquet::arrow::arrow_reader::ParquetRecordBatchReaderBuilder::try_new(std::fs::File::open(src).unwrap()).unwrap();
                        let schema = rd.schema().clone();
                        let old_rg = {
                            let r = SerializedFileReader::new(std::fs::File::open(src).unwrap()).unwrap();
                            r.metadata().row_group(0).num_rows() as usize
                        };
                        let batches: Vec<_> = rd.build().unwrap().map(|b| b.unwrap()).collect();
                        let all = arrow::compute::concat_batches(&schema, &batches).unwrap();
                        let (out, rg) = match kind {
                            "one-more-row" => {
                                let extra = all.slice(0, 1);
                                (arrow::compute::concat_batches(&schema, &[all.clone(), extra]).unwrap(), old_rg)
                            }
                            "regroup" => (all.clone(), old_rg + 1 + rng.usize(5)),
                            _ => {
                                // widen: replace v with a constant large column → different byte size
                                let n = all.num_rows();
                                let mut cols = all.columns().to_vec();
                                let vi = schema.index_of("v").unwrap();
                                cols[vi] = std::sync::Arc::new(arrow::array::Int64Array::from((0..n as i64).map(|i| i * 1_000_003_007).collect::<Vec<_>>()));
                                (arrow::record_batch::RecordBatch::try_new(schema.clone(), cols).unwrap(), old_rg)
                            }
                        };
                        let o = PqOpts { files: 1, rg_rows: rg.max(1), dictionary: false, snappy: false, stats: true };
                        write_parquet_file(&files[fi], schema.clone(), &[out], &o);
                        let _ = &mut files;
                        v.push((kind, files));
                    }
                }
                v
            };
            for (kind, files) in variants {
                let inv2 = inventory(&files);
                let set2 = enumerate_parquet("t", &files, nodes).unwrap();
                rep.eval();
                let same_inv = inv2 == inv;
                let same_digest = set2.digest() == set.digest();
                if !same_inv && same_digest {
                    rep.fail(&format!("digest-blind-{}", kind), &format!("inventory changed by {} but the digest did not", kind), replay.clone());
                }
                if same_inv && !same_digest {
                    rep.fail("digest-unstable", &format!("inventory identical after {} but the digest changed", kind), replay.clone());
                }
                if let Err(e) = check_cover(&set2, &inv2) {
                    rep.fail("cover", &format!("after {}: {}", kind, e), replay.clone());
                }
            }
        }
        // --- a file rewritten IN PLACE between two enumerations of the same path (one more
        // row; its mtime left new, put back to the old one, or moved before it): the second
        // enumeration must describe what the path holds now
        {
            let fi = rng.usize(fs.files.len());
            let nodes = *rng.pick(&[1usize, 2, 3, 5, 8]);
            if fs.rows[fi] > 0 {
                let vd = dir.join("inplace");
                let files = copy_dir(&fs.files, &vd);
                if let Ok(first) = enumerate_parquet("t", &files, nodes) {
                    let old_mtime = std::fs::metadata(&files[fi]).unwrap().modified().unwrap();
                    std::thread::sleep(std::time::Duration::from_millis(20));
                    let rd = parquet::arrow::arrow_reader::ParquetRecordBatchReaderBuilder::try_new(std::fs::File::open(&files[fi]).unwrap()).unwrap();
                    let schema = rd.schema().clone();
                    let old_rg = {
                        let r = SerializedFileReader::new(std::fs::File::open(&files[fi]).unwrap()).unwrap();
                        r.metadata().row_group(0).num_rows() as usize
                    };
                    let batches: Vec<_> = rd.build().unwrap().map(|b| b.unwrap()).collect();
                    let all = arrow::compute::concat_batches(&schema, &batches).unwrap();
                    let out = arrow::compute::concat_batches(&schema, &[all.clone(), all.slice(0, 1)]).unwrap();
                    let o = PqOpts { files: 1, rg_rows: old_rg.max(1), dictionary: false, snappy: false, stats: true };
                    write_parquet_file(&files[fi], schema.clone(), &[out], &o);
                    let policy = *rng.pick(&["mtime-new", "mtime-kept", "mtime-earlier"]);
                    let set_to = match policy {
                        "mtime-kept" => Some(old_mtime),
                        "mtime-earlier" => Some(old_mtime - std::time::Duration::from_secs(10)),
                        _ => None,
                    };
                    if let Some(t) = set_to {
                        std::fs::File::options().write(true).open(&files[fi]).unwrap().set_modified(t).unwrap();
                    }
                    let inv2 = inventory(&files);
                    let replay = json!({"file_rows": fs.rows, "nodes": nodes, "rewritten_file": fi, "mtime_policy": policy, "inventory_after": inv2.iter().map(|(k, v)| format!("{}#{}: {} rows {} bytes", k.0, k.1, v.0, v.1)).collect::<Vec<_>>()});
                    match enumerate_parquet("t", &files, nodes) {
                        Ok(second) => {
                            rep.eval();
                            rep.count("in_place_rewrites_followed_by_a_second_enumeration", 1);
                            if inv2 != inv && second.digest() == first.digest() {
                                rep.fail(&format!("digest-blind-inplace-rewrite-{}", policy), "a file was rewritten in place with one more row and the digest of the next enumeration did not change", replay.clone());
                            }
                            if let Err(e) = check_cover(&second, &inv2) {
                                rep.fail(&format!("cover-after-inplace-rewrite-{}", policy), &e, replay.clone());
                            }
                        }
                        Err(e) => rep.fail("enumerate-error", &format!("after an in-place rewrite: {}", e), replay.clone()),
                    }
                }
            }
        }
        // --- equal file names in different directories
        if rng.chance(1, 6) && fs.files.len() >= 1 {
            dup_cases += 1;
            let other = dir.join("other");
            std::fs::create_dir_all(&other).unwrap();
            let tr = 5 + rng.usize(50);
            let t = gen_table(&mut rng, tr, false, 77);
            let twin = other.join(fs.files[0].file_name().unwrap());
            write_parquet_file(&twin, t.schema(), &[t.one_batch()], &PqOpts { rg_rows: 7, ..Default::default() });
            // only meaningful when schemas agree (narrow); skip the wide ones
            let mut a = fs.files.clone();
            a.push(twin.clone());
            let mut b = vec![twin.clone()];
            b.extend(fs.files.iter().cloned());
            if let (Ok(sa), Ok(sb)) = (enumerate_parquet("t", &a, 2), enumerate_parquet("t", &b, 2)) {
                rep.eval();
                let strict = sa.splits.windows(2).all(|w| (&w[0].file, w[0].row_group, w[0].row_offset) < (&w[1].file, w[1].row_group, w[1].row_offset));
                if shape(&sa) != shape(&sb) || sa.digest() != sb.digest() || !strict {
                    rep.fail(
                        "dup-basename",
                        "two files with equal names in different directories: splits share a canonical key and the split order / digest depends on the order of the file list",
                        json!({"files_a": a.iter().map(|p| p.display().to_string()).collect::<Vec<_>>()}),
                    );
                }
            }
        }
        let _ = std::fs::remove_dir_all(&dir);
    }
    rep.set("sub_row_group_cuts_observed", json!(cut_rgs));
    rep.set("duplicate_basename_cases", json!(dup_cases));
    rep.floor(cut_rgs > 0, "no row group was ever cut into several splits");

    // target_split_bytes clamp invariants over a grid
    use query_engine::distributed::splits::{target_split_bytes, MAX_SPLIT_BYTES, MIN_SPLIT_BYTES};
    let mut grid = vec![0u64, 1, 2, 1023, 1 << 20, (4 << 20) - 1, 4 << 20, (4 << 20) + 1, 1 << 30, 1 << 40, u64::MAX / 2, u64::MAX];
    for _ in 0..tier.pick(2000, 50000) {
        grid.push(rng.next() >> rng.below(64));
    }
    for &tb in &grid {
        for n in [0usize, 1, 2, 3, 8, 64, 1000] {
            rep.eval();
            let t = target_split_bytes(tb, n);
            let nn = n.max(1) as u64;
            let ok = t >= 1 && t <= MAX_SPLIT_BYTES.max(MIN_SPLIT_BYTES) && (tb < nn.saturating_mul(MIN_SPLIT_BYTES) || t >= MIN_SPLIT_BYTES);
            if !ok {
                rep.fail("target-clamp", &format!("target_split_bytes({}, {}) = {}", tb, n, t), json!({"total": tb, "nodes": n}));
            }
        }
    }
    rep.finish()
}

// ---------------------------------------------------------------------------

fn ctx_over(files_dir: &Path) -> Option<ExecutionContext> {
    let mut c = ExecutionContext::new();
    c.register_parquet("t", files_dir).ok()?;
    Some(c)
}

pub fn run_c14(tier: Tier, seed: u64) -> i32 {
    let mut rep = Report::new(
        "C14",
        tier,
        seed,
        "exploration",
        "table pairs (initiator copy, worker copy) that differ in exactly one attribute (file name, row-group layout, row count, byte size) or not at all (relocated identical copy = positive control); every shard index in and out of range; execute_fragment on the worker with the initiator's digest must fail for differing copies and succeed for identical ones. distinct = distinct (inventory, difference kind, shard_count)",
    );
    let scratch = Scratch::new("c14");
    let mut rng = Rng::new(seed ^ 0xC14);
    let cases = tier.pick(60, 1200);
    let mut refused = 0u64;
    let mut served = 0u64;
    for case in 0..cases {
        let dir = scratch.path().join(format!("case{}", case));
        let nfiles = 1 + rng.usize(3);
        let mut fs = gen_fileset(&mut rng, &dir.join("init"), nfiles, 2000, false);
        if fs.rows.iter().all(|r| *r == 0) {
            // make sure there is something to disagree about
            let t = gen_table(&mut rng, 50, false, 9);
            let p = dir.join("init").join("part-zz.parquet");
            write_parquet_file(&p, t.schema(), &[t.one_batch()], &PqOpts { rg_rows: 10, ..Default::default() });
            fs.files.push(p);
            fs.rows.push(50);
        }
        let Some(init) = ctx_over(&dir.join("init")) else { continue };
        let shard_count = 1 + rng.usize(5);
        let Ok(set) = splits_of(&init, "t", shard_count) else {
            rep.inconclusive("initiator-enumeration-failed");
            continue;
        };
        let digest = set.digest();
        let inv = inventory(&fs.files);
        let total_rows: i64 = inv.values().map(|v| v.0).sum();
        let kinds = ["identical", "rename", "regroup", "one-more-row", "wider"];
        for kind in kinds {
            let wdir = dir.join(format!("w-{}", kind));
            let mut files = copy_dir(&fs.files, &wdir);
            let candidates: Vec<usize> = (0..files.len()).filter(|&i| fs.rows[i] > 0).collect();
            let fi = *rng.pick(&candidates);
            match kind {
                "identical" => {}
                "rename" => {
                    let np = wdir.join("zz-renamed.parquet");
                    std::fs::rename(&files[fi], &np).unwrap();
                    files[fi] = np;
                }
                _ => {
                    let src = &fs.files[fi];
                    let rd = parquet::arrow::arrow_reader::ParquetRecordBatchReaderBuilder::try_new(std::fs::File::open(src).unwrap()).unwrap();
                    let schema = rd.schema().clone();
                    let old_rg = SerializedFileReader::new(std::fs::File::open(src).unwrap()).unwrap().metadata().row_group(0).num_rows() as usize;
                    let batches: Vec<_> = rd.build().unwrap().map(|b| b.unwrap()).collect();
                    let all = arrow::compute::concat_batches(&schema, &batches).unwrap();
                    let (out, rg) = match kind {
                        "one-more-row" => (arrow::compute::concat_batches(&schema, &[all.clone(), all.slice(0, 1)]).unwrap(), old_rg),
                        "regroup" => (all.clone(), old_rg + 1 + rng.usize(4)),
                        _ => {
                            let n = all.num_rows();
                            let mut cols = all.columns().to_vec();
                            let vi = schema.index_of("v").unwrap();
                            cols[vi] = std::sync::Arc::new(arrow::array::Int64Array::from((0..n as i64).map(|i| i * 1_000_003_007 + 1).collect::<Vec<_>>()));
                            (arrow::record_batch::RecordBatch::try_new(schema.clone(), cols).unwrap(), old_rg)
                        }
                    };
                    write_parquet_file(&files[fi], schema, &[out], &PqOpts { files: 1, rg_rows: rg.max(1), dictionary: false, snappy: false, stats: true });
                }
            }
            let inv_w = inventory(&files);
            let differs = inv_w != inv;
            let Some(worker) = ctx_over(&wdir) else { continue };
            for shard_index in (0..shard_count).chain([shard_count, shard_count + 3, usize::MAX]) {
                let req = FragmentRequest { sql: "SELECT COUNT(*) AS n FROM t".into(), table: "t".into(), shard_index, shard_count, splits_digest: digest };
                let out = rt().block_on(async { execute_fragment(&worker, &req).await });
                rep.eval();
                rep.nontrivial(&(inv.iter().collect::<Vec<_>>(), kind, shard_count, shard_index.min(shard_count + 4)));
                let replay = json!({"difference": kind, "shard_index": shard_index, "shard_count": shard_count, "initiator_inventory": format!("{:?}", inv), "worker_inventory": format!("{:?}", inv_w)});
                let in_range = shard_index < shard_count;
                match out {
                    Ok((r, stats)) => {
                        served += 1;
                        if differs {
                            rep.fail(&format!("served-despite-{}", kind), "worker answered although its copy differs from the initiator's", replay.clone());
                        } else if !in_range {
                            rep.fail("served-out-of-range-shard", &format!("shard_index {} >= shard_count {} was served", shard_index, shard_count), replay.clone());
                        } else {
                            // shard COUNT(*) must equal the assignment's row total for this shard
                            let n = crate::canon::batches_to_rows(&r.batches);
                            let got = match n.first().and_then(|r| r.first()) {
                                Some(Cell::Int(i)) => *i,
                                _ => -1,
                            };
                            if got != stats.rows {
                                rep.fail("shard-count-mismatch", &format!("shard COUNT(*) = {} but the assignment gives it {} rows", got, stats.rows), replay.clone());
                            }
                        }
                    }
                    Err(_) => {
                        refused += 1;
                        if !differs && in_range {
                            rep.fail("identical-refused", "an identical relocated copy was refused (positive control)", replay.clone());
                        }
                    }
                }
            }
            // positive control completeness: shard counts over identical copy sum to the table
            if !differs && kind == "identical" {
                let mut sum = 0i64;
                for shard_index in 0..shard_count {
                    let req = FragmentRequest { sql: "SELECT COUNT(*) AS n FROM t".into(), table: "t".into(), shard_index, shard_count, splits_digest: digest };
                    if let Ok((r, _)) = rt().block_on(async { execute_fragment(&worker, &req).await }) {
                        if let Some(Cell::Int(i)) = crate::canon::batches_to_rows(&r.batches).first().and_then(|r| r.first()) {
                            sum += i;
                        }
                    }
                }
                if sum != total_rows {
                    rep.fail("shards-do-not-sum", &format!("shard COUNT(*) values sum to {} but the table has {} rows", sum, total_rows), json!({"shard_count": shard_count}));
                }
            }
            if case < 1 {
                rep.sample(json!({"difference": kind, "inventories_differ": differs, "shard_count": shard_count}));
            }
        }
        let _ = std::fs::remove_dir_all(&dir);
    }
    rep.set("fragments_refused", json!(refused));
    rep.set("fragments_served", json!(served));
    rep.floor(refused > 0 && served > 0, "need both refused and served fragments");
    rep.finish()
}
