//! C38 Vector distance functions compute their formulas.
//! C43 Exact vector search is the literal ORDER BY ... LIMIT.

use crate::canon::{ordered_window_check, Row, SortKey};
use crate::data::Cell;
use crate::eng::{optimizer_without, run_sql, run_sql_with, Outcome};
use crate::report::{Report, Tier};
use crate::rng::Rng;
use arrow::array::*;
use arrow::datatypes::{DataType, Field, Schema};
use arrow::record_batch::RecordBatch;
use query_engine::physical::vector::{distance_column, distance_columns, DistanceKind};
use query_engine::ExecutionContext;
use serde_json::json;
use std::sync::Arc;

const EPS: f64 = 5.960464477539063e-8; // 2^-24

pub fn gen_vec(rng: &mut Rng, dim: usize, style: u64) -> Vec<f32> {
    (0..dim)
        .map(|_| match style {
            0 => rng.range(-32, 32) as f32 / 8.0,
            1 => 0.0,
            2 => (rng.f64_unit() * 2.0 - 1.0) as f32,
            3 => {
                if rng.chance(1, 8) {
                    (rng.range(-5, 5) as f32) * 1.0e6
                } else {
                    (rng.range(-50, 50) as f32) * 1.0e-3
                }
            }
            _ => rng.range(-2, 2) as f32,
        })
        .collect()
}

pub fn fsl(rows: &[Option<Vec<f32>>], dim: usize) -> ArrayRef {
    let mut flat: Vec<f32> = Vec::new();
    let mut valid = Vec::new();
    for r in rows {
        match r {
            Some(v) => {
                flat.extend_from_slice(v);
                valid.push(true);
            }
            None => {
                flat.extend(std::iter::repeat(0.0f32).take(dim));
                valid.push(false);
            }
        }
    }
    let field = Arc::new(Field::new("item", DataType::Float32, true));
    let nulls = if valid.iter().all(|v| *v) { None } else { Some(arrow::buffer::NullBuffer::from(valid)) };
    Arc::new(FixedSizeListArray::new(field, dim as i32, Arc::new(Float32Array::from(flat)), nulls))
}

/// f64 reference value and admissible absolute error.
pub fn reference(a: &[f32], b: &[f32], kind: DistanceKind) -> (f64, f64, bool) {
    let dim = a.len() as f64;
    let dotf = |x: &[f32], y: &[f32]| -> (f64, f64) {
        let mut s = 0f64;
        let mut abs = 0f64;
        for (p, q) in x.iter().zip(y.iter()) {
            let t = *p as f64 * *q as f64;
            s += t;
            abs += t.abs();
        }
        (s, abs)
    };
    match kind {
        DistanceKind::Dot => {
            let (s, abs) = dotf(a, b);
            (s, 4.0 * dim * EPS * abs + 1e-300, false)
        }
        DistanceKind::L2 => {
            let mut s = 0f64;
            for (p, q) in a.iter().zip(b.iter()) {
                let d = *p as f64 - *q as f64;
                s += d * d;
            }
            // relative error of the f32 sum of squares: each d has rel error eps, d*d 3 eps, sum dim*eps
            let rel = (4.0 + dim) * 2.0 * EPS;
            let es = rel * s;
            let r = s.sqrt();
            let tol = if s > 0.0 { es / (2.0 * r) * 2.0 + 1e-300 } else { 0.0 };
            (r, tol.max(r * 4.0 * EPS), false)
        }
        DistanceKind::Cosine | DistanceKind::CosineSimilarity => {
            let (d, _) = dotf(a, b);
            let (na, _) = dotf(a, a);
            let (nb, _) = dotf(b, b);
            let denom = na.sqrt() * nb.sqrt();
            if denom == 0.0 || !denom.is_finite() {
                return (0.0, 0.0, true); // 0/0: engine-defined, compared engine-vs-engine only
            }
            let sim = d / denom;
            let tol = 16.0 * dim * EPS + 1e-12;
            (if kind == DistanceKind::Cosine { 1.0 - sim } else { sim }, tol, false)
        }
    }
}

fn kname(k: DistanceKind) -> &'static str {
    match k {
        DistanceKind::L2 => "l2_distance",
        DistanceKind::Cosine => "cosine_distance",
        DistanceKind::CosineSimilarity => "cosine_similarity",
        DistanceKind::Dot => "dot_product",
    }
}

fn f64s(a: &ArrayRef) -> Vec<Option<f64>> {
    let f = a.as_any().downcast_ref::<Float64Array>().expect("Float64 distances");
    (0..f.len()).map(|i| if f.is_null(i) { None } else { Some(f.value(i)) }).collect()
}

pub fn run(tier: Tier, seed: u64) -> i32 {
    let mut rep = Report::new(
        "C38",
        tier,
        seed,
        "exploration",
        "FixedSizeList<Float32> columns of dimension 1..1024 (dyadic, unit-range, mixed-magnitude and zero vectors, NULL rows), all four functions, array-vs-literal and array-vs-array, whole and sliced at a non-zero offset, through the kernels and through SQL; oracle = the documented formula in f64 with the forward-error bound of 8-lane f32 accumulation (4*dim*2^-24*sum|term|, propagated through sqrt and the cosine quotient); dimension mismatch must error, NULL vector must give NULL, a slice must equal the same rows unsliced bit for bit. distinct = distinct (function, dimension class, value style, shape) tuples",
    );
    let mut rng = Rng::new(seed ^ 0xC38);
    let cases = tier.pick(1500, 40_000);
    let kinds = [DistanceKind::L2, DistanceKind::Cosine, DistanceKind::CosineSimilarity, DistanceKind::Dot];
    for case in 0..cases {
        let dim = *rng.pick(&[1usize, 2, 3, 7, 8, 9, 15, 16, 17, 64, 100, 384, 1024]);
        let dim = if dim > 100 && tier == Tier::Quick && rng.chance(2, 3) { 16 } else { dim };
        let n = 1 + rng.usize(12);
        let style = rng.below(5);
        let rows: Vec<Option<Vec<f32>>> = (0..n).map(|_| if rng.chance(1, 6) { None } else { { let st = if rng.chance(1, 10) { 1 } else { style }; Some(gen_vec(&mut rng, dim, st)) } }).collect();
        let rows_b: Vec<Option<Vec<f32>>> = (0..n).map(|_| if rng.chance(1, 8) { None } else { Some(gen_vec(&mut rng, dim, style)) }).collect();
        let q = gen_vec(&mut rng, dim, style);
        let col = fsl(&rows, dim);
        let colb = fsl(&rows_b, dim);
        let kind = kinds[rng.usize(4)];
        rep.eval();
        rep.nontrivial(&(kname(kind), dim.min(20), style, "lit"));
        // array vs literal
        match distance_column(&col, &q, kind, "v") {
            Err(e) => rep.fail("kernel-error", &format!("{}(v, q) failed: {}", kname(kind), e), json!({"dim": dim})),
            Ok(out) => {
                let got = f64s(&out);
                for (i, r) in rows.iter().enumerate() {
                    match (r, got[i]) {
                        (None, None) => {}
                        (None, Some(v)) => rep.fail("null-vector-not-null", &format!("{} of a NULL vector = {}", kname(kind), v), json!({"dim": dim, "row": i})),
                        (Some(_), None) => rep.fail("spurious-null", &format!("{} of a non-NULL vector is NULL", kname(kind)), json!({"dim": dim, "row": i})),
                        (Some(a), Some(v)) => {
                            let (want, tol, undefined) = reference(a, &q, kind);
                            if !undefined && !((v - want).abs() <= tol) {
                                rep.fail(
                                    &format!("formula:{}", kname(kind)),
                                    &format!("{}(a, q) = {:e}, formula gives {:e} (|diff| {:e} > bound {:e}), dim {}", kname(kind), v, want, (v - want).abs(), tol, dim),
                                    json!({"function": kname(kind), "a": a.iter().take(32).collect::<Vec<_>>(), "q": q.iter().take(32).collect::<Vec<_>>(), "dim": dim, "got": v, "want": want, "bound": tol}),
                                );
                            }
                        }
                    }
                }
                // slicing: bit-identical to the same rows unsliced
                if n >= 2 {
                    let off = 1 + rng.usize(n - 1);
                    let len = 1 + rng.usize(n - off);
                    match distance_column(&col.slice(off, len), &q, kind, "v") {
                        Ok(s) => {
                            let sg = f64s(&s);
                            for k in 0..len {
                                let same = match (sg[k], got[off + k]) {
                                    (None, None) => true,
                                    (Some(x), Some(y)) => x.to_bits() == y.to_bits(),
                                    _ => false,
                                };
                                if !same {
                                    rep.fail("slice-differs", &format!("{} over slice(off {}, len {}) row {} = {:?}, unsliced = {:?}", kname(kind), off, len, k, sg[k], got[off + k]), json!({"dim": dim, "offset": off, "function": kname(kind)}));
                                    break;
                                }
                            }
                        }
                        Err(e) => rep.fail("kernel-error", &format!("sliced column failed: {}", e), json!({"dim": dim})),
                    }
                }
            }
        }
        // dimension mismatch must be an error
        if case % 7 == 0 {
            rep.eval();
            let mut bad = q.clone();
            if rng.bool() || bad.len() == 1 {
                bad.push(1.0);
            } else {
                bad.pop();
            }
            if distance_column(&col, &bad, kind, "v").is_ok() {
                rep.fail("dimension-mismatch-accepted", &format!("{} accepted a query of {} dims against a column of {}", kname(kind), bad.len(), dim), json!({"dim": dim}));
            }
            let other = fsl(&[Some(bad.clone())].into_iter().chain((1..n).map(|_| Some(bad.clone()))).collect::<Vec<_>>(), bad.len());
            if distance_columns(&col, &other, kind).is_ok() {
                rep.fail("dimension-mismatch-accepted", "array-vs-array with different dimensions accepted", json!({"dim": dim}));
            }
        }
        // array vs array
        rep.eval();
        rep.nontrivial(&(kname(kind), dim.min(20), style, "arr"));
        match distance_columns(&col, &colb, kind) {
            Err(e) => rep.fail("kernel-error", &format!("{}(v, w) failed: {}", kname(kind), e), json!({"dim": dim})),
            Ok(out) => {
                let got = f64s(&out);
                if got.len() != n {
                    rep.fail("length", &format!("array-vs-array returned {} rows for {}", got.len(), n), json!({"dim": dim}));
                }
                for i in 0..got.len().min(n) {
                    match (&rows[i], &rows_b[i], got[i]) {
                        (Some(a), Some(b), Some(v)) => {
                            let (want, tol, undefined) = reference(a, b, kind);
                            if !undefined && !((v - want).abs() <= tol) {
                                rep.fail(&format!("formula:{}", kname(kind)), &format!("{}(a, b) = {:e}, formula gives {:e}, bound {:e}, dim {}", kname(kind), v, want, tol, dim), json!({"function": kname(kind), "dim": dim, "got": v, "want": want}));
                            }
                        }
                        (Some(_), Some(_), None) => rep.fail("spurious-null", "array-vs-array gave NULL for two non-NULL vectors", json!({"dim": dim})),
                        (_, _, Some(v)) => rep.fail("null-vector-not-null", &format!("array-vs-array with a NULL side = {}", v), json!({"dim": dim})),
                        _ => {}
                    }
                }
            }
        }
        // through SQL (small dims keep the literal short)
        if dim <= 17 && case % 3 == 0 {
            let schema = Arc::new(Schema::new(vec![Field::new("id", DataType::Int64, false), Field::new("v", col.data_type().clone(), true)]));
            let batch = RecordBatch::try_new(schema.clone(), vec![Arc::new(Int64Array::from((0..n as i64).collect::<Vec<_>>())), col.clone()]).unwrap();
            let mut ctx = ExecutionContext::new();
            ctx.register_table("t", schema, vec![batch]);
            let ctx = Arc::new(ctx);
            let lit = format!("[{}]", q.iter().map(|x| format!("{:?}", *x as f64)).collect::<Vec<_>>().join(", "));
            let sql = format!("SELECT id AS c0, {}(v, {}) AS c1 FROM t", kname(kind), lit);
            rep.eval();
            match run_sql(&ctx, &sql) {
                Outcome::Ok(a) => {
                    for r in &a.rows {
                        let Cell::Int(id) = r[0] else { continue };
                        match (&rows[id as usize], &r[1]) {
                            (None, Cell::Null) => {}
                            (Some(av), Cell::F(v)) => {
                                let (want, tol, undefined) = reference(av, &q, kind);
                                if !undefined && !((v - want).abs() <= tol) {
                                    rep.fail(&format!("sql-formula:{}", kname(kind)), &format!("{} :: row {} = {:e}, formula {:e}", sql.chars().take(120).collect::<String>(), id, v, want), json!({"sql": sql, "dim": dim}));
                                }
                            }
                            (a, b) => rep.fail("sql-null-handling", &format!("{} :: row {} vector {:?} gave {:?}", sql.chars().take(120).collect::<String>(), id, a.is_some(), b), json!({"sql": sql})),
                        }
                    }
                    if a.rows.len() != n {
                        rep.fail("sql-row-count", &format!("{} rows for {} input rows", a.rows.len(), n), json!({"sql": sql}));
                    }
                }
                o => {
                    rep.inconclusive("sql-error");
                    rep.count(&format!("sql_err: {}", o.short().chars().take(80).collect::<String>()), 1);
                }
            }
            if case < 6 {
                rep.sample(json!({"sql": sql.chars().take(200).collect::<String>(), "dim": dim, "rows": n}));
            }
        }
    }
    rep.finish()
}

// ---------------------------------------------------------------------------
// C43

#[derive(Debug)]
struct Poisoned {
    schema: arrow::datatypes::SchemaRef,
    batch: RecordBatch,
    calls: std::sync::atomic::AtomicU64,
    has_index: bool,
}

impl query_engine::physical::operators::TableProvider for Poisoned {
    fn schema(&self) -> arrow::datatypes::SchemaRef {
        self.schema.clone()
    }
    fn scan(&self, projection: Option<&[usize]>) -> query_engine::Result<Vec<RecordBatch>> {
        Ok(vec![match projection {
            Some(p) => self.batch.project(p).map_err(query_engine::QueryError::from)?,
            None => self.batch.clone(),
        }])
    }
    fn scan_knn(&self, projection: Option<&[usize]>, q: &query_engine::physical::vector::VectorQuery) -> query_engine::Result<Option<Vec<RecordBatch>>> {
        // any call in the default exact mode is a violation; count them all
        self.calls.fetch_add(1, std::sync::atomic::Ordering::SeqCst);
        if !self.has_index {
            return Ok(None);
        }
        // deliberately WRONG rows: the first k rows of the table, whatever the distance
        let k = q.k.min(self.batch.num_rows());
        let b = self.batch.slice(0, k);
        Ok(Some(vec![match projection {
            Some(p) => b.project(p).map_err(query_engine::QueryError::from)?,
            None => b,
        }]))
    }
}

pub fn run_c43(tier: Tier, seed: u64) -> i32 {
    let mut rep = Report::new(
        "C43",
        tier,
        seed,
        "exploration",
        "vector tables with duplicate vectors (ties), NULL vectors, all four functions, k in {0,1,k,rows,rows+3} and OFFSET, canonical and non-canonical shapes (DESC, extra keys, WHERE, computed distance in SELECT, no LIMIT); the engine's answer in the default exact mode must be the k nearest rows by harness-computed distance (tie-aware) and equal the same statement planned without VectorSearchPushdown; a provider whose scan_knn returns deliberately wrong rows (\"poisoned index\") must never be consulted in exact mode. distinct = distinct (function, shape, k class, tie/null class) tuples",
    );
    let mut rng = Rng::new(seed ^ 0xC43);
    let cases = tier.pick(500, 12_000);
    let kinds = [DistanceKind::L2, DistanceKind::Cosine, DistanceKind::CosineSimilarity, DistanceKind::Dot];
    let mut poisoned_calls = 0u64;
    for case in 0..cases {
        let dim = *rng.pick(&[2usize, 3, 8, 16]);
        let n = 1 + rng.usize(40);
        let pool: Vec<Vec<f32>> = (0..1 + rng.usize(6)).map(|_| gen_vec(&mut rng, dim, 4)).collect();
        let rows: Vec<Option<Vec<f32>>> = (0..n)
            .map(|_| if rng.chance(1, 7) { None } else if rng.chance(1, 2) { Some(pool[rng.usize(pool.len())].clone()) } else { Some(gen_vec(&mut rng, dim, 0)) })
            .collect();
        let mut q = gen_vec(&mut rng, dim, 0);
        if q.iter().all(|x| *x == 0.0) {
            q[0] = 1.0;
        }
        let cats: Vec<i64> = (0..n).map(|_| rng.range(0, 2)).collect();
        let col = fsl(&rows, dim);
        let schema = Arc::new(Schema::new(vec![Field::new("id", DataType::Int64, false), Field::new("cat", DataType::Int64, false), Field::new("v", col.data_type().clone(), true)]));
        let batch = RecordBatch::try_new(schema.clone(), vec![Arc::new(Int64Array::from((0..n as i64).collect::<Vec<_>>())), Arc::new(Int64Array::from(cats.clone())), col.clone()]).unwrap();
        let kind = kinds[rng.usize(4)];
        let larger_is_closer = matches!(kind, DistanceKind::CosineSimilarity | DistanceKind::Dot);
        let lit = format!("[{}]", q.iter().map(|x| format!("{:?}", *x as f64)).collect::<Vec<_>>().join(", "));
        let dist = format!("{}(v, {})", kname(kind), lit);
        let k = *rng.pick(&[0usize, 1, 3, n, n + 3]);
        let off = if rng.chance(1, 4) { 1 + rng.usize(3) } else { 0 };
        let shape = rng.below(6);
        let desc = if larger_is_closer { " DESC" } else { "" };
        let (sql, wherep, sel_dist, limited): (String, bool, bool, bool) = match shape {
            0 => (format!("SELECT id AS c0 FROM t ORDER BY {}{} LIMIT {}{}", dist, desc, k, if off > 0 { format!(" OFFSET {}", off) } else { "".into() }), false, false, true),
            1 => (format!("SELECT id AS c0 FROM t WHERE cat = 1 ORDER BY {}{} LIMIT {}", dist, desc, k), true, false, true),
            2 => (format!("SELECT id AS c0, {} AS c1 FROM t ORDER BY {}{} LIMIT {}", dist, dist, desc, k), false, true, true),
            3 => (format!("SELECT id AS c0 FROM t ORDER BY {}{}", dist, desc), false, false, false),
            4 => (format!("SELECT id AS c0 FROM t ORDER BY {}{}, id LIMIT {}", dist, desc, k), false, false, true),
            // the wrong direction for this metric (farthest first) is not the canonical shape
            _ => (format!("SELECT id AS c0 FROM t ORDER BY {}{} LIMIT {}", dist, if larger_is_closer { "" } else { " DESC" }, k), false, false, true),
        };
        let reversed = shape == 5;
        let off = if shape == 0 { off } else { 0 };
        // expected: (id, distance) for qualifying rows, ordered
        let mut full: Vec<Row> = Vec::new();
        let mut undefined = false;
        for i in 0..n {
            if wherep && cats[i] != 1 {
                continue;
            }
            let d = match &rows[i] {
                None => Cell::Null,
                Some(a) => {
                    let (w, _, u) = reference(a, &q, kind);
                    undefined |= u;
                    // evaluate with the engine's own kernel value to avoid tolerance ties
                    Cell::F(w)
                }
            };
            full.push(vec![Cell::Int(i as i64), d]);
        }
        if undefined {
            rep.inconclusive("zero-vector-cosine(engine-defined)");
            continue;
        }
        // use the engine kernel's own distances as the sort key (formula accuracy is C38's business)
        let kd = f64s(&distance_column(&col, &q, kind, "v").unwrap());
        for r in full.iter_mut() {
            if let Cell::Int(i) = r[0] {
                r[1] = kd[i as usize].map(Cell::F).unwrap_or(Cell::Null);
            }
        }
        let desc_eff = larger_is_closer != reversed;
        let mut keys = vec![SortKey { col: 1, desc: desc_eff, nulls_first: false }];
        if shape == 4 {
            keys.push(SortKey { col: 0, desc: false, nulls_first: false });
        }
        let run_variants = |ctx: &Arc<ExecutionContext>| -> Vec<(&'static str, Outcome)> { vec![("default", run_sql(ctx, &sql)), ("without-rule", run_sql_with(ctx, &sql, &optimizer_without(ctx, &["VectorSearchPushdown"])))] };
        let mut ctx = ExecutionContext::new();
        ctx.register_table("t", schema.clone(), vec![batch.clone()]);
        let ctx = Arc::new(ctx);
        let mut pctx = ExecutionContext::new();
        let prov = Arc::new(Poisoned { schema: schema.clone(), batch: batch.clone(), calls: Default::default(), has_index: case % 2 == 0 });
        pctx.register_table_provider("t", prov.clone());
        let pctx = Arc::new(pctx);
        let mut answers: Vec<(String, Outcome)> = run_variants(&ctx).into_iter().map(|(n, o)| (format!("mem/{}", n), o)).collect();
        answers.push(("poisoned-provider/default".into(), run_sql(&pctx, &sql)));
        rep.nontrivial(&(kname(kind), shape, k.min(4), off > 0));
        for (vname, o) in &answers {
            rep.eval();
            match o {
                Outcome::Ok(a) => {
                    // attach the kernel distance to each returned id, then judge tie-aware
                    let got: Vec<Row> = a.rows.iter().map(|r| vec![r[0].clone(), match r[0] { Cell::Int(i) if (i as usize) < n => kd[i as usize].map(Cell::F).unwrap_or(Cell::Null), _ => Cell::Null }]).collect();
                    let res = ordered_window_check(&got, &full, &keys, off, if limited { Some(k) } else { None });
                    if let Err(why) = res {
                        let sig = format!("knn-wrong-rows:{}:shape{}", vname.split('/').next().unwrap_or(""), shape);
                        rep.fail(&sig, &format!("{} [{}] :: {}", sql.chars().take(160).collect::<String>(), vname, why), json!({"sql": sql, "variant": vname, "rows": n, "dim": dim, "returned_ids": crate::canon::rows_json(&a.rows, 50), "expected_by_distance": crate::canon::rows_json(&full, 50)}));
                    }
                    if sel_dist {
                        // the projected distance must be the kernel's
                        for r in &a.rows {
                            if let (Cell::Int(i), c1) = (&r[0], &r[1]) {
                                let want = kd[*i as usize].map(Cell::F).unwrap_or(Cell::Null);
                                if !crate::canon::cell_eq(c1, &want) {
                                    rep.fail("projected-distance", &format!("{} :: id {} shows {:?}, kernel {:?}", sql.chars().take(120).collect::<String>(), i, c1, want), json!({"sql": sql}));
                                }
                            }
                        }
                    }
                }
                Outcome::Err(e) => {
                    rep.inconclusive("engine-error");
                    rep.count(&format!("err[{}]: {}", vname, e.chars().take(70).collect::<String>()), 1);
                }
                o => rep.fail("panic-or-timeout", &format!("{} [{}] :: {}", sql.chars().take(160).collect::<String>(), vname, o.short()), json!({"sql": sql})),
            }
        }
        let c = prov.calls.load(std::sync::atomic::Ordering::SeqCst);
        poisoned_calls += c;
        if c > 0 {
            rep.fail("index-consulted-in-exact-mode", &format!("{} :: the provider's index was consulted {} time(s) in the default exact mode", sql.chars().take(160).collect::<String>(), c), json!({"sql": sql}));
        }
        if case < 4 {
            rep.sample(json!({"sql": sql.chars().take(220).collect::<String>(), "rows": n, "dim": dim, "k": k, "offset": off}));
        }
    }
    rep.set("poisoned_index_calls", json!(poisoned_calls));
    rep.finish()
}
