//! C04 Storage layout and fast-path choice never change an answer.
//! C13 Shard scans reassemble the table exactly.
//! C18 Parquet table statistics are sound bounds.

use crate::canon::{batches_to_rows, multiset_eq, sub_multiset, Row};
use crate::checks::c11::gen_fileset;
use crate::data::{write_parquet_table, Cell, PqOpts, Scratch, Table, Ty};
use crate::eng::{run_sql, Outcome};
use crate::qgen::{gen_db, gen_table, Feats, KeyClass, SizeClass, TableSpec, G};
use crate::report::{Report, Tier};
use crate::rng::Rng;
use crate::sqldiff::{default_threads, par_run, CaseResult};
use query_engine::distributed::coordinator::{shard_context, splits_of};
use query_engine::distributed::splits::assign_lpt;
use query_engine::ExecutionContext;
use serde_json::json;
use std::sync::Arc;

// ---------------------------------------------------------------------------
// C18

pub fn run_c18(tier: Tier, seed: u64) -> i32 {
    let mut rep = Report::new(
        "C18",
        tier,
        seed,
        "exploration",
        "multi-file Parquet tables in every row-group layout, NULL density 0..100%, integer ranges incl. i32/i64 extremes, int64/int32/date columns, statistics disabled for some files; statistics().row_count must equal the scanned row count, null_count = Some(n) must be exact, every non-NULL value must lie within [min_i64, max_i64]; an all-NULL or statistics-less column must not report bounds that exclude a value. distinct = distinct (layout, null class, value class) triples",
    );
    let scratch = Scratch::new("c18");
    let mut rng = Rng::new(seed ^ 0xC18);
    let n = tier.pick(300, 8000);
    for case in 0..n {
        let rows = match rng.below(4) {
            0 => 1 + rng.usize(5),
            1 => 1 + rng.usize(60),
            _ => 1 + rng.usize(tier.pick(600, 3000)),
        };
        let null_pct = *rng.pick(&[0u64, 0, 10, 50, 100]);
        let key = *rng.pick(&[KeyClass::DenseDup, KeyClass::Unique, KeyClass::WideDup, KeyClass::Sparse, KeyClass::AllNull]);
        let mut t = gen_table(&mut rng, "t", &TableSpec { rows, null_pct, key, not_null: false });
        // extremes
        let extreme = rng.chance(1, 3);
        if extreme {
            for r in t.rows.iter_mut() {
                if rng.chance(1, 10) {
                    r[1] = Cell::Int(*rng.pick(&[i64::MIN, i64::MAX, i64::MAX - 1, -(1 << 53) - 1]));
                }
                if rng.chance(1, 10) {
                    r[3] = Cell::Int(*rng.pick(&[i32::MIN as i64, i32::MAX as i64]));
                }
            }
        }
        let o = PqOpts { files: *rng.pick(&[1usize, 2, 3, 5]), rg_rows: *rng.pick(&[1usize, 3, 7, 50, 1 << 20]), dictionary: rng.bool(), snappy: rng.bool(), stats: !rng.chance(1, 6) };
        let o = if rows / o.rg_rows > 300 { PqOpts { rg_rows: rows / 300 + 1, ..o } } else { o };
        let dir = scratch.path().join(format!("c{}", case));
        std::fs::create_dir_all(&dir).unwrap();
        let p = write_parquet_table(&dir, &t, &o);
        // optionally one file without statistics in an otherwise stats-bearing table
        if o.stats && o.files > 1 && rng.chance(1, 4) {
            let f = p.join("part-000.parquet");
            let rd = parquet::arrow::arrow_reader::ParquetRecordBatchReaderBuilder::try_new(std::fs::File::open(&f).unwrap()).unwrap();
            let schema = rd.schema().clone();
            let bs: Vec<_> = rd.build().unwrap().map(|b| b.unwrap()).collect();
            crate::data::write_parquet_file(&f, schema, &bs, &PqOpts { stats: false, ..o.clone() });
        }
        let table = match query_engine::ParquetTable::try_new(&p) {
            Ok(t) => t,
            Err(e) => {
                rep.inconclusive("table-open-error");
                rep.count(&format!("open_err: {}", e.to_string().chars().take(60).collect::<String>()), 1);
                continue;
            }
        };
        use query_engine::physical::operators::TableProvider;
        rep.eval();
        rep.nontrivial(&(o.files, o.rg_rows.min(100), null_pct, extreme, o.stats));
        let Some(st) = table.statistics() else {
            rep.inconclusive("no-statistics");
            continue;
        };
        let scanned = match table.scan(None) {
            Ok(b) => batches_to_rows(&b),
            Err(e) => {
                rep.fail("scan-error", &e.to_string(), json!({"layout": o.json()}));
                continue;
            }
        };
        let replay = json!({"layout": o.json(), "rows": rows, "null_pct": null_pct, "table": t.json(30)});
        if st.row_count != scanned.len() || scanned.len() != rows {
            rep.fail("row-count", &format!("statistics().row_count = {} but the scan returns {} rows ({} written)", st.row_count, scanned.len(), rows), replay.clone());
        }
        for (ci, c) in t.cols.iter().enumerate() {
            let Some(cs) = st.column_stats.get(&c.name.to_lowercase()) else { continue };
            let nulls = scanned.iter().filter(|r| r[ci].is_null()).count() as u64;
            if let Some(nc) = cs.null_count {
                if nc != nulls {
                    rep.fail("null-count", &format!("column {}: null_count = {} but {} NULLs were scanned", c.name, nc, nulls), replay.clone());
                }
            }
            if matches!(c.ty, Ty::I64 | Ty::I32 | Ty::Date) {
                for r in &scanned {
                    let v = match &r[ci] {
                        Cell::Int(v) => *v,
                        Cell::Date(d) => *d as i64,
                        _ => continue,
                    };
                    if let Some(mn) = cs.min_i64 {
                        if v < mn {
                            rep.fail("min-bound", &format!("column {}: value {} below min_i64 {}", c.name, v, mn), replay.clone());
                            break;
                        }
                    }
                    if let Some(mx) = cs.max_i64 {
                        if v > mx {
                            rep.fail("max-bound", &format!("column {}: value {} above max_i64 {}", c.name, v, mx), replay.clone());
                            break;
                        }
                    }
                }
            }
        }
        if case < 3 {
            rep.sample(json!({"layout": o.json(), "rows": rows, "row_count_stat": st.row_count, "columns_with_stats": st.column_stats.len()}));
        }
        let _ = std::fs::remove_dir_all(&dir);
    }
    rep.finish()
}

// ---------------------------------------------------------------------------
// C13

pub fn run_c13(tier: Tier, seed: u64) -> i32 {
    let mut rep = Report::new(
        "C13",
        tier,
        seed,
        "exploration",
        "multi-file, multi-row-group Parquet tables (row groups cut into sub-row-group ranges) x node counts 1..12, through shard_context exactly as the coordinator builds it: the union of all shards' scans (with random projections) must equal the table as a multiset; per-shard COUNT(*) must equal assignment.node_rows[i]; with a pushed filter the union of scan_with_filter must contain every satisfying row and nothing outside the table, and SELECT .. WHERE .. over the shard contexts must union to exactly the single-node answer; aggregates that could hit whole-file fast paths must equal the sum of per-shard answers; parquet_files() on a shard must be None. distinct = distinct (file/row-group inventory, node count) pairs",
    );
    let scratch = Scratch::new("c13");
    let mut rng = Rng::new(seed ^ 0xC13);
    let cases = tier.pick(60, 1200);
    let mut sub_rg = 0u64;
    for case in 0..cases {
        let dir = scratch.path().join(format!("c{}", case)).join("t");
        let nfiles = 1 + rng.usize(4);
        let fs = if case % 3 == 2 {
            // twin files: equal row counts, one row group each, so the cuts fall at the
            // same offsets of the same row-group index in different files
            let k = 2 + rng.usize(3);
            twin_fileset(&mut rng, &dir, k)
        } else {
            gen_fileset(&mut rng, &dir, nfiles, tier.pick(3000, 12000), false)
        };
        let total: usize = fs.rows.iter().sum();
        if total == 0 {
            continue;
        }
        let mut base = ExecutionContext::new();
        if base.register_parquet("t", &dir).is_err() {
            rep.inconclusive("register-error");
            continue;
        }
        let base = Arc::new(base);
        let full = match run_sql(&base, "SELECT id AS c0, v AS c1 FROM t") {
            Outcome::Ok(a) => a.rows,
            o => {
                rep.inconclusive("full-scan-error");
                rep.count(&format!("full_err: {}", o.short().chars().take(60).collect::<String>()), 1);
                continue;
            }
        };
        for _ in 0..tier.pick(2, 3) {
            let nodes = *rng.pick(&[1usize, 2, 3, 4, 5, 8, 12]);
            let Ok(set) = splits_of(&base, "t", nodes) else {
                rep.inconclusive("enumeration-error");
                continue;
            };
            sub_rg += set.splits.windows(2).filter(|w| w[0].file == w[1].file && w[0].row_group == w[1].row_group).count() as u64;
            let asg = assign_lpt(&set, nodes);
            rep.eval();
            rep.nontrivial(&(fs.rows.clone(), set.len(), nodes));
            let lo = rng.range(-40, 20);
            let hi = lo + rng.range(0, 40);
            let filter_sql = format!("v BETWEEN {} AND {}", lo, hi);
            let mut union_all: Vec<Row> = Vec::new();
            let mut union_filtered: Vec<Row> = Vec::new();
            // a second, different filter on the same shard context, and a projection that
            // moves the filtered column away from its table position
            let mut union_second: Vec<Row> = Vec::new();
            let mut union_proj: Vec<Row> = Vec::new();
            // a non-negative literal (a negative one is a unary minus, which pruning does not
            // evaluate); ids of every file but the first start at 1_000_000, far above it
            let neg = rng.range(5, 45);
            let mut sum_count = 0i64;
            let mut sum_v: i64 = 0;
            let mut ok = true;
            for i in 0..nodes {
                let (sctx, stats) = match shard_context(&base, "t", &set, &asg, i) {
                    Ok(x) => x,
                    Err(e) => {
                        rep.fail("shard-context-error", &e.to_string(), json!({"nodes": nodes, "shard": i, "file_rows": fs.rows}));
                        ok = false;
                        break;
                    }
                };
                use query_engine::physical::operators::TableProvider;
                if let Some(p) = sctx.table_provider("t") {
                    if p.parquet_files().is_some() {
                        rep.fail("shard-exposes-files", "a shard provider exposes parquet_files(), so whole-file fast paths can read the whole table", json!({"nodes": nodes, "shard": i}));
                    }
                    // provider-level filtered scan: superset of satisfying rows, subset of table
                    let _ = p;
                }
                let sctx = Arc::new(sctx);
                match run_sql(&sctx, "SELECT id AS c0, v AS c1 FROM t") {
                    Outcome::Ok(a) => union_all.extend(a.rows),
                    o => {
                        rep.fail("shard-scan-error", &format!("shard {} of {}: {}", i, nodes, o.short()), json!({"nodes": nodes, "shard": i, "file_rows": fs.rows}));
                        ok = false;
                    }
                }
                match run_sql(&sctx, &format!("SELECT id AS c0, v AS c1 FROM t WHERE {}", filter_sql)) {
                    Outcome::Ok(a) => union_filtered.extend(a.rows),
                    o => {
                        rep.fail("shard-filter-error", &format!("shard {} of {}: {}", i, nodes, o.short()), json!({"nodes": nodes, "shard": i}));
                        ok = false;
                    }
                }
                match run_sql(&sctx, &format!("SELECT id AS c0, v AS c1 FROM t WHERE v > {}", hi)) {
                    Outcome::Ok(a) => union_second.extend(a.rows),
                    o => {
                        rep.fail("shard-filter-error", &format!("shard {} of {}: {}", i, nodes, o.short()), json!({"nodes": nodes, "shard": i}));
                        ok = false;
                    }
                }
                match run_sql(&sctx, &format!("SELECT v AS c0 FROM t WHERE v <= {}", neg)) {
                    Outcome::Ok(a) => union_proj.extend(a.rows),
                    o => {
                        rep.fail("shard-filter-error", &format!("shard {} of {}: {}", i, nodes, o.short()), json!({"nodes": nodes, "shard": i}));
                        ok = false;
                    }
                }
                match run_sql(&sctx, "SELECT COUNT(*) AS c0, SUM(v) AS c1, MIN(id) AS c2, MAX(id) AS c3 FROM t") {
                    Outcome::Ok(a) => {
                        let c = match a.rows.first().map(|r| &r[0]) {
                            Some(Cell::Int(c)) => *c,
                            _ => -1,
                        };
                        if c != stats.rows || c != asg.node_rows[i] {
                            rep.fail("shard-count", &format!("shard {} of {}: COUNT(*) = {} but the assignment gives it {} rows", i, nodes, c, asg.node_rows[i]), json!({"nodes": nodes, "shard": i, "file_rows": fs.rows}));
                        }
                        sum_count += c;
                        if let Some(Cell::Int(s)) = a.rows.first().map(|r| &r[1]) {
                            sum_v += s;
                        }
                    }
                    o => {
                        rep.fail("shard-agg-error", &format!("shard {} of {}: {}", i, nodes, o.short()), json!({"nodes": nodes, "shard": i}));
                        ok = false;
                    }
                }
            }
            if !ok {
                continue;
            }
            let replay = json!({"file_rows": fs.rows, "nodes": nodes, "splits": set.len(), "node_rows": asg.node_rows});
            if let Err(why) = multiset_eq(&union_all, &full) {
                let sig = if union_all.len() < full.len() { "rows-lost" } else if union_all.len() > full.len() { "rows-duplicated" } else { "rows-differ" };
                rep.fail(sig, &format!("union of {} shard scans ({} rows) != table ({} rows): {}", nodes, union_all.len(), full.len(), why), replay.clone());
            }
            let want_f: Vec<Row> = full.iter().filter(|r| matches!(&r[1], Cell::Int(v) if *v >= lo && *v <= hi)).cloned().collect();
            if let Err(why) = multiset_eq(&union_filtered, &want_f) {
                rep.fail("filtered-union", &format!("union of shard answers to WHERE {} != single-node answer: {}", filter_sql, why), replay.clone());
            }
            let want_2: Vec<Row> = full.iter().filter(|r| matches!(&r[1], Cell::Int(v) if *v > hi)).cloned().collect();
            if let Err(why) = multiset_eq(&union_second, &want_2) {
                rep.fail("second-filter-union", &format!("union of shard answers to a SECOND filter on the same shard contexts (WHERE v > {}) != single-node answer: {}", hi, why), replay.clone());
            }
            let want_p: Vec<Row> = full.iter().filter(|r| matches!(&r[1], Cell::Int(v) if *v <= neg)).map(|r| vec![r[1].clone()]).collect();
            if let Err(why) = multiset_eq(&union_proj, &want_p) {
                rep.fail("projected-filter-union", &format!("union of shard answers to SELECT v WHERE v <= {} != single-node answer: {}", neg, why), replay.clone());
            }
            let want_sum: i64 = full.iter().filter_map(|r| if let Cell::Int(v) = &r[1] { Some(*v) } else { None }).sum();
            if sum_count != full.len() as i64 || sum_v != want_sum {
                rep.fail("aggregate-sum", &format!("sum of shard COUNT/SUM = ({}, {}) but the table has ({}, {})", sum_count, sum_v, full.len(), want_sum), replay.clone());
            }
            if sub_multiset(&union_filtered, &full).is_err() {
                rep.fail("row-outside-table", "a shard returned a row that is not in the table", replay.clone());
            }
            if case < 2 {
                rep.sample(json!({"file_rows": fs.rows, "nodes": nodes, "splits": set.len(), "node_rows": asg.node_rows, "filter": filter_sql, "filtered_rows": want_f.len()}));
            }
        }
        let _ = std::fs::remove_dir_all(scratch.path().join(format!("c{}", case)));
    }
    rep.set("sub_row_group_splits_observed", json!(sub_rg));
    rep.floor(sub_rg > 0, "no row group was ever cut into sub-row-group ranges");
    rep.finish()
}

fn twin_fileset(rng: &mut Rng, dir: &std::path::Path, nfiles: usize) -> crate::checks::c11::FileSet {
    std::fs::create_dir_all(dir).unwrap();
    let rows = *rng.pick(&[400usize, 1000, 3000]);
    let mut files = Vec::new();
    for i in 0..nfiles {
        let t = crate::checks::c11::gen_table(rng, rows, false, i as i64);
        let p = dir.join(format!("part-{:02}.parquet", i));
        crate::data::write_parquet_file(&p, t.schema(), &[t.one_batch()], &crate::data::PqOpts { files: 1, rg_rows: 1 << 20, dictionary: false, snappy: false, stats: true });
        files.push(p);
    }
    crate::checks::c11::FileSet { files, rows: vec![rows; nfiles] }
}

// ---------------------------------------------------------------------------
// C04

pub fn run_c04(tier: Tier, seed: u64) -> i32 {
    let mut rep = Report::new(
        "C04",
        tier,
        seed,
        "exploration",
        "one logical database materialised as memory (1 batch, k batches) and as Parquet with files in {1,2,5} x row-group rows in {1,7,100,1000,whole} (dictionary on/off, snappy on/off); aggregation-heavy and scan-heavy statements (global and grouped aggregates on integer/date/string keys incl. NULL-free dense integer keys, filtered scans, joins whose probe is a Parquet scan, self-joins); every layout's answer must equal the one-batch memory answer, and a statement that succeeds on one layout must not fail on another. distinct = distinct (statement skeleton, layout) with a non-empty answer",
    );
    let scratch = Scratch::new("c04");
    let n_dbs = tier.pick(40, 700);
    let per_db = tier.pick(16, 24);
    let seeds: Vec<u64> = (0..n_dbs).map(|i| seed.wrapping_mul(3_000_017).wrapping_add(i as u64)).collect();
    let sp = scratch.path().to_path_buf();
    par_run(&mut rep, seeds, default_threads(), |sd| {
        let mut rng = Rng::new(sd ^ 0xC04);
        let sc = *rng.pick(&[SizeClass::Tiny, SizeClass::Small, SizeClass::Small, SizeClass::Medium]);
        let db = gen_db(&mut rng, 2, sc);
        let dir = sp.join(format!("db{}", sd));
        std::fs::create_dir_all(&dir).unwrap();
        let mut layouts: Vec<(String, Arc<ExecutionContext>)> = Vec::new();
        layouts.push(("mem1".into(), crate::eng::mem_ctx(&db)));
        {
            let parts: Vec<(&Table, Vec<arrow::record_batch::RecordBatch>)> = db.iter().map(|t| (t, t.random_batches(&mut rng, 7, true))).collect();
            layouts.push(("memk".into(), crate::eng::mem_ctx_batches(&parts)));
        }
        for li in 0..3 {
            let o = PqOpts { files: *rng.pick(&[1usize, 2, 5]), rg_rows: *rng.pick(&[1usize, 7, 100, 1000, 1 << 20]), dictionary: rng.bool(), snappy: rng.bool(), stats: true };
            let d = dir.join(format!("pq{}", li));
            std::fs::create_dir_all(&d).unwrap();
            let mut c = ExecutionContext::new();
            for t in &db {
                if t.rows.is_empty() {
                    c.register_table(t.name.clone(), t.schema(), vec![t.one_batch()]);
                } else {
                    let o2 = if t.rows.len() / o.rg_rows > 300 { PqOpts { rg_rows: t.rows.len() / 300 + 1, ..o.clone() } } else { o.clone() };
                    let p = write_parquet_table(&d, t, &o2);
                    c.register_parquet(t.name.clone(), &p).unwrap();
                }
            }
            layouts.push((format!("parquet(files={},rg={},dict={},snappy={})", o.files, o.rg_rows, o.dictionary, o.snappy), Arc::new(c)));
        }
        let mut out = Vec::new();
        for qi in 0..per_db {
            let mut qrng = rng.fork(qi as u64);
            let mut f = Feats::all();
            f.cross_join = false;
            let mut g = G::new(&mut qrng, f);
            g.total_order_limit = true;
            let q = if g.rng.below(10) < 6 { g.q_agg(&db, 2) } else { g.q_simple(&db, 2) };
            let sql = q.engine_sql();
            let base = run_sql(&layouts[0].1, &sql);
            for (lname, ctx) in layouts.iter().skip(1) {
                let mut r = CaseResult::default();
                let parquet = lname.starts_with("parquet");
                let got = crate::eng::run_sql_avoiding_gkr(ctx, &sql, &db, parquet);
                let lclass = if parquet { "parquet" } else { "memk" };
                match (&base, &got) {
                    (Outcome::Ok(b), Outcome::Ok(a)) => {
                        if !b.rows.is_empty() {
                            r.nontrivial = Some(format!("{}|{}", q.skeleton(), lname));
                        }
                        let ordered = !q.keys.is_empty();
                        let same = if ordered && a.rows.len() == b.rows.len() && a.rows.iter().zip(b.rows.iter()).all(|(x, y)| crate::canon::row_eq(x, y)) { Ok(()) } else if ordered && q.limit.is_some() { Err("sequence differs under a total order".to_string()) } else { multiset_eq(&a.rows, &b.rows) };
                        if let Err(why) = same {
                            let kind = if q.tags.iter().any(|t| t == "group-by") { "grouped-agg" } else if q.tags.iter().any(|t| t == "global-agg") { "global-agg" } else if q.tags.iter().any(|t| t.contains("JOIN")) { "join" } else { "scan" };
                            r.fail = Some((
                                format!("layout-changes-answer:{}:{}", lclass, kind),
                                format!("{} [{} vs mem1] :: {}", sql, lname, why),
                                json!({"sql": sql, "layout": lname, "mem1": base.json(30), "other": got.json(30), "tables": crate::sqldiff::db_json(&db, 40)}),
                            ));
                        }
                    }
                    (Outcome::Ok(_), Outcome::Err(e)) => {
                        let cls = e.split(':').take(4).collect::<Vec<_>>().join(":").chars().take(80).collect::<String>();
                        r.fail = Some((
                            format!("fails-on-one-layout:{}:{}", lclass, crate::report::sanitize(&cls)),
                            format!("{} [{}] :: succeeds on mem1 but fails here: {}", sql, lname, e.chars().take(200).collect::<String>()),
                            json!({"sql": sql, "layout": lname, "error": e, "tables": crate::sqldiff::db_json(&db, 40)}),
                        ));
                    }
                    (Outcome::Err(e), Outcome::Ok(_)) => {
                        let cls = e.split(':').take(4).collect::<Vec<_>>().join(":").chars().take(80).collect::<String>();
                        r.fail = Some((
                            format!("fails-on-one-layout:mem1:{}", crate::report::sanitize(&cls)),
                            format!("{} [mem1] :: fails on mem1 but succeeds on {}: {}", sql, lname, e.chars().take(200).collect::<String>()),
                            json!({"sql": sql, "layout": lname, "error": e, "tables": crate::sqldiff::db_json(&db, 40)}),
                        ));
                    }
                    (Outcome::Err(_), Outcome::Err(_)) => r.inconclusive = Some("fails-everywhere".into()),
                    (a, b) => {
                        r.inconclusive = Some("panic-or-timeout".into());
                        r.counts.push((format!("pt: {} / {}", a.short().chars().take(40).collect::<String>(), b.short().chars().take(40).collect::<String>()), 1));
                    }
                }
                if qi == 0 && sd % 16 == 0 {
                    r.sample = Some(json!({"sql": sql, "layout": lname}));
                }
                out.push(r);
            }
        }
        let _ = std::fs::remove_dir_all(&dir);
        out
    });
    rep.floor(rep.distinct_count() > 100, "too few distinct non-trivial (statement, layout) pairs");
    rep.assumptions.push("statements that would trip the recorded GroupKeyReduction finding (C03) run with that rule removed on Parquet layouts".into());
    rep.finish()
}
