//! One module per property monitor.

use crate::report::Tier;

pub mod c01;
pub mod c02;
pub mod c03;
pub mod c05;
pub mod c06;
pub mod c11;
pub mod c12;
pub mod c15;
pub mod c16;
pub mod c33;
pub mod c37;
pub mod c38;
pub mod c39;
pub mod c41;
pub mod c42;
pub mod cfgdiff;
pub mod cache;
pub mod cliout;
pub mod dist;
pub mod front;
pub mod fuzz;
pub mod iceberg;
pub mod meta;
pub mod scalar;
pub mod sem;
pub mod shapes;
pub mod storage;

type CheckFn = fn(Tier, u64) -> i32;

fn table() -> Vec<(&'static str, CheckFn)> {
    vec![
        ("C01", c01::run),
        ("C02", c02::run),
        ("C03", c03::run),
        ("C04", storage::run_c04),
        ("C05", c05::run),
        ("C06", c06::run),
        ("C07", cfgdiff::run_c07),
        ("C08", sem::run_c08),
        ("C09", dist::run_c09),
        ("C10", dist::run_c10),
        ("C11", c11::run_c11),
        ("C12", c12::run),
        ("C13", storage::run_c13),
        ("C14", c11::run_c14),
        ("C15", c15::run),
        ("C16", c16::run),
        ("C17", iceberg::run_c17),
        ("C18", storage::run_c18),
        ("C19", cache::run_c19),
        ("C20", cache::run_c20),
        ("C21", sem::run_c21),
        ("C22", sem::run_c22),
        ("C23", sem::run_c23),
        ("C24", sem::run_c24),
        ("C25", sem::run_c25),
        ("C26", sem::run_c26),
        ("C27", sem::run_c27),
        ("C28", sem::run_c28),
        ("C29", fuzz::run_c29),
        ("C30", meta::run_c30),
        ("C31", c03::run_c31),
        ("C32", meta::run_c32),
        ("C33", c33::run),
        ("C34", front::run_c34),
        ("C35", front::run_c35),
        ("C36", scalar::run_c36),
        ("C37", c37::run),
        ("C38", c38::run),
        ("C39", c39::run),
        ("C40", cliout::run_c40),
        ("C41", c41::run),
        ("C42", c42::run),
        ("C43", c38::run_c43),
        ("C44", sem::run_c44),
        ("C45", dist::run_c45),
    ]
}

pub fn ids() -> Vec<&'static str> {
    table().into_iter().map(|(i, _)| i).collect()
}

pub fn run(id: &str, tier: Tier, seed: u64) -> i32 {
    for (i, f) in table() {
        if i == id {
            return f(tier, seed);
        }
    }
    if id == "C29I" {
        return fuzz::print_input();
    }
    if id == "C21R" {
        return sem::c21_repro();
    }
    eprintln!("unknown check {}", id);
    2
}

/// `qe-verif worker <check> <tier> <seed> <shard> <nshards> [extra...]`
pub fn worker(args: &[String]) -> i32 {
    let check = args.first().map(|s| s.as_str()).unwrap_or("");
    let tier = if args.get(1).map(|s| s.as_str()) == Some("thorough") { Tier::Thorough } else { Tier::Quick };
    let seed: u64 = args.get(2).and_then(|s| s.parse().ok()).unwrap_or(1);
    let shard: usize = args.get(3).and_then(|s| s.parse().ok()).unwrap_or(0);
    let nshards: usize = args.get(4).and_then(|s| s.parse().ok()).unwrap_or(1);
    match check {
        "C06" | "C07" => cfgdiff::worker(check, tier, seed, shard, nshards),
        "C19" => cache::worker_c19(tier, seed, shard, nshards),
        "C20" => cache::worker_c20(tier, seed, shard, nshards, args.get(5..).unwrap_or(&[])),
        "C29" => fuzz::worker(tier, seed, shard, nshards, args.get(5..).unwrap_or(&[])),
        _ => {
            eprintln!("no worker for {}", check);
            2
        }
    }
}

pub fn replay(path: &str) -> i32 {
    // A replay file records the property and the check's own replay payload;
    // re-running the owning check at the recorded seed and tier reproduces it.
    let Ok(s) = std::fs::read_to_string(path) else {
        eprintln!("cannot read {}", path);
        return 2;
    };
    let Ok(v) = serde_json::from_str::<serde_json::Value>(&s) else { return 2 };
    let id = v["property"].as_str().unwrap_or("");
    let seed = v["seed"].as_u64().unwrap_or(1);
    let tier = if v["tier"].as_str() == Some("thorough") { Tier::Thorough } else { Tier::Quick };
    println!("replaying {} at seed {} tier {}", id, seed, tier.name());
    run(id, tier, seed)
}
