//! C03 Optimization never changes a query's answer.
//! C31 Every optimizer rule returns a well-formed plan.
//!
//! The engine against itself: the unoptimized bound plan, lowered by the
//! physical planner, versus (a) the production pipeline, (b) every rule alone,
//! (c) every prefix of the production order (thorough). Tables are Parquet
//! (statistics-driven rules are inert on memory tables) and memory.

use crate::canon::{multiset_eq, row_eq};
use crate::checks::c01::{engine_ctx, Layout};
use crate::data::{Cell, Scratch, Table, Ty};
use crate::eng::{optimizer_without, production_rules, run_logical, run_sql, stats_of, Outcome};
use crate::qgen::{gen_db, Feats, GenQuery, SizeClass, G};
use crate::report::{Report, Tier};
use crate::rng::Rng;
use crate::sqldiff::{default_threads, par_run, CaseResult};
use query_engine::optimizer::Optimizer;
use query_engine::ExecutionContext;
use serde_json::json;
use std::sync::Arc;

fn same(a: &Outcome, b: &Outcome, ordered: bool) -> Result<(), String> {
    match (a, b) {
        (Outcome::Ok(x), Outcome::Ok(y)) => {
            if ordered && x.rows.len() == y.rows.len() && x.rows.iter().zip(y.rows.iter()).all(|(p, q)| row_eq(p, q)) {
                return Ok(());
            }
            multiset_eq(&x.rows, &y.rows)
        }
        _ => Err(format!("{} vs {}", a.short(), b.short())),
    }
}

/// GROUP BY columns of a generated statement as (table, column), plain column keys only.
pub fn group_by_cols(sql: &str) -> Vec<(String, String)> {
    let Some(g) = sql.find(" GROUP BY ") else { return vec![] };
    let rest = &sql[g + 10..];
    let end = [" HAVING ", " ORDER BY ", " LIMIT "].iter().filter_map(|k| rest.find(k)).min().unwrap_or(rest.len());
    let keys = &rest[..end];
    let mut out = Vec::new();
    for k in keys.split(", ") {
        let k = k.trim();
        if let Some((alias, col)) = k.split_once('.') {
            if alias.chars().all(|c| c.is_ascii_alphanumeric()) && col.chars().all(|c| c.is_ascii_alphanumeric() || c == '_') {
                // alias -> table via "tX AS alias"
                let pat = format!(" AS {}", alias);
                if let Some(p) = sql.find(&pat) {
                    let before = &sql[..p];
                    if let Some(t) = before.rsplit(|c: char| c == ' ').next() {
                        out.push((t.to_string(), col.to_string()));
                    }
                }
            }
        }
    }
    out
}

/// Does the statement group by a NULL-free integer/date column that repeats a
/// value (the situation in which the footer NDV *estimate* can look unique)?
pub fn groups_by_nonunique_nullfree_key(sql: &str, db: &[Table]) -> bool {
    for (t, c) in group_by_cols(sql) {
        if let Some(tab) = db.iter().find(|x| x.name == t) {
            if let Some(ci) = tab.col_index(&c) {
                if !matches!(tab.cols[ci].ty, Ty::I64 | Ty::I32 | Ty::Date) {
                    continue;
                }
                let mut seen = std::collections::HashSet::new();
                let mut dup = false;
                let mut any_null = false;
                for r in &tab.rows {
                    match &r[ci] {
                        Cell::Null => any_null = true,
                        Cell::Int(i) => dup |= !seen.insert(*i),
                        Cell::Date(d) => dup |= !seen.insert(*d as i64),
                        _ => {}
                    }
                }
                if dup && !any_null {
                    return true;
                }
            }
        }
    }
    false
}

pub fn gen_stmt(rng: &mut Rng, db: &[Table]) -> GenQuery {
    // Q10-shaped Top-N over fact JOIN dimension on the dimension's unique key
    // (what GroupKeyReduction's deferred decoration and join pruning match)
    if db.len() >= 2 && rng.chance(1, 8) {
        let (f, d) = (&db[0], &db[1]);
        let n = *rng.pick(&[1usize, 2, 3, 5, 10]);
        let agg = *rng.pick(&["SUM(f.i1)", "COUNT(*)", "MAX(f.i1)", "SUM(f.f0)"]);
        let core = format!("SELECT d.id AS c0, d.s0 AS c1, {} AS c2 FROM {} AS f JOIN {} AS d ON f.i0 = d.id GROUP BY d.id, d.s0", agg, f.name, d.name);
        let mut q = GenQuery { sql: String::new(), full_sql: core.clone(), keys: vec![], limit: Some(n), offset: 0, tags: vec!["q10-topn".into(), "JOIN".into(), "group-by".into(), "order-by".into(), "limit".into()], ncols: 3 };
        q.sql = format!("{} ORDER BY c2 DESC NULLS LAST, c0 LIMIT {}", core, n);
        q.keys = vec![crate::canon::SortKey { col: 2, desc: true, nulls_first: false }, crate::canon::SortKey { col: 0, desc: false, nulls_first: false }];
        return q;
    }
    // the same shape over a customer/order pair with distinct column names
    // (unqualified references), dimension first
    if db.iter().any(|t| t.name == "cust") && rng.chance(1, 3) {
        let n = *rng.pick(&[1usize, 2, 3, 5]);
        let core = "SELECT c_id, c_name, SUM(o_amt) AS rev FROM cust JOIN ord ON c_id = o_cid GROUP BY c_id, c_name".to_string();
        let mut q = GenQuery { sql: String::new(), full_sql: core.clone(), keys: vec![], limit: Some(n), offset: 0, tags: vec!["q10-topn".into(), "JOIN".into(), "group-by".into(), "order-by".into(), "limit".into()], ncols: 3 };
        q.sql = format!("{} ORDER BY rev DESC, c_id LIMIT {}", core, n);
        q.keys = vec![crate::canon::SortKey { col: 2, desc: true, nulls_first: false }, crate::canon::SortKey { col: 0, desc: false, nulls_first: false }];
        return q;
    }
    // GROUP BY exactly two plain integer columns (what PackedGroupKeys matches)
    if rng.chance(1, 8) {
        let t = rng.pick(db);
        let pairs = [("i1", "j0"), ("j0", "i1"), ("i0", "i1"), ("id", "i1"), ("i1", "i0")];
        let (a, b) = *rng.pick(&pairs);
        let core = format!("SELECT r0.{} AS c0, r0.{} AS c1, COUNT(*) AS c2, SUM(r0.id) AS c3 FROM {} AS r0 GROUP BY r0.{}, r0.{}", a, b, t.name, a, b);
        return GenQuery { sql: core.clone(), full_sql: core, keys: vec![], limit: None, offset: 0, tags: vec!["two-int-keys".into(), "group-by".into()], ncols: 4 };
    }
    // the generic generators assume the standard column set (id, i0, ...)
    let std_tables: Vec<Table> = db.iter().filter(|t| t.name != "cust" && t.name != "ord").cloned().collect();
    let mut g = G::new(rng, Feats::all());
    g.total_order_limit = true;
    match g.rng.below(10) {
        0..=3 => g.q_simple(&std_tables, 3),
        _ => g.q_agg(&std_tables, 3),
    }
}

/// Does the statement's GROUP BY list contain a bare integer (an ordinal)?
fn has_ordinal_group_key(sql: &str) -> bool {
    let up = sql.to_uppercase();
    let Some(p) = up.find(" GROUP BY ") else { return false };
    let rest = &sql[p + 10..];
    let end = [" HAVING ", " ORDER BY ", " LIMIT "].iter().filter_map(|k| rest.to_uppercase().find(k)).min().unwrap_or(rest.len());
    let mut depth = 0i32;
    let mut item = String::new();
    let mut items = Vec::new();
    for ch in rest[..end].chars() {
        match ch {
            '(' => {
                depth += 1;
                item.push(ch);
            }
            ')' => {
                depth -= 1;
                item.push(ch);
            }
            ',' if depth == 0 => items.push(std::mem::take(&mut item)),
            _ => item.push(ch),
        }
    }
    items.push(item);
    items.iter().any(|i| !i.trim().is_empty() && i.trim().chars().all(|c| c.is_ascii_digit()))
}

/// A dimension with a unique, NULL-free but SPARSE key and a fact table whose
/// foreign keys lie inside the key's range, some of them in its holes, with the
/// dangling ones often the biggest spenders (so they rank inside a Top-N).
fn cust_ord(rng: &mut Rng) -> Vec<Table> {
    use crate::data::Col;
    let nc = 3 + rng.usize(30);
    let step = 2 + rng.usize(3) as i64;
    let cust = Table {
        name: "cust".into(),
        cols: vec![Col { name: "c_id".into(), ty: Ty::I64, nullable: false }, Col { name: "c_name".into(), ty: Ty::Str, nullable: false }],
        rows: (0..nc).map(|i| vec![Cell::Int(1 + i as i64 * step), Cell::S(format!("cust#{}", i))]).collect(),
    };
    let hi = 1 + (nc as i64 - 1) * step;
    let no = 5 + rng.usize(150);
    let ord = Table {
        name: "ord".into(),
        cols: vec![Col { name: "o_id".into(), ty: Ty::I64, nullable: false }, Col { name: "o_cid".into(), ty: Ty::I64, nullable: false }, Col { name: "o_amt".into(), ty: Ty::I64, nullable: false }],
        rows: (0..no)
            .map(|i| {
                let cid = rng.range(1, hi + 1);
                let dangling = (cid - 1) % step != 0;
                vec![Cell::Int(i as i64 + 1), Cell::Int(cid), Cell::Int(if dangling && rng.bool() { 500 + rng.range(0, 500) } else { rng.range(0, 100) })]
            })
            .collect(),
    };
    vec![cust, ord]
}

/// Data the statistics-driven rules react to, which the standard tables rarely
/// have: NULL-free non-negative integer columns whose footer maximum is exactly
/// a power of two (packing width boundaries), a unique key with holes, and
/// foreign keys that fall into those holes.
fn bait(rng: &mut Rng, db: &mut [Table]) {
    for t in db.iter_mut() {
        if rng.chance(1, 2) && !t.rows.is_empty() {
            for (col, _) in [(2usize, "i1"), (3, "j0")] {
                let k: i64 = 1 << rng.usize(5);
                let n = t.rows.len();
                for (ri, r) in t.rows.iter_mut().enumerate() {
                    r[col] = Cell::Int(if ri == n / 2 { k } else { rng.range(0, k + 1) });
                }
            }
        }
        if rng.chance(1, 3) {
            for r in t.rows.iter_mut() {
                if let Cell::Int(i) = r[0] {
                    r[0] = Cell::Int(i * 3);
                }
            }
        }
    }
    if db.len() >= 2 && rng.chance(1, 2) {
        let ids: Vec<i64> = db[1].rows.iter().filter_map(|r| if let Cell::Int(i) = r[0] { Some(i) } else { None }).collect();
        if let (Some(lo), Some(hi)) = (ids.iter().min().copied(), ids.iter().max().copied()) {
            for r in db[0].rows.iter_mut() {
                r[1] = Cell::Int(rng.range(lo, hi + 1));
            }
        }
    }
}

pub fn run(tier: Tier, seed: u64) -> i32 {
    run_both(tier, seed, false)
}
pub fn run_c31(tier: Tier, seed: u64) -> i32 {
    run_both(tier, seed, true)
}

fn schema_sig(p: &query_engine::planner::LogicalPlan) -> Vec<(String, String)> {
    p.schema().fields().iter().map(|f| (f.name.clone(), format!("{:?}", f.data_type))).collect()
}

fn run_both(tier: Tier, seed: u64, c31: bool) -> i32 {
    let mut rep = if c31 {
        Report::new(
            "C31",
            tier,
            seed,
            "exploration",
            "every bound plan of a seeded statement corpus (joins, aggregates, subquery-free mixed shapes) over Parquet tables (with statistics) and memory tables (without) x each of the 15 production rules alone + the production pipeline: the rule must not fail, the output schema's column names and types must be unchanged, and the rewritten plan must lower and execute when the original does. distinct = distinct (statement skeleton, rule) whose rule actually changed the plan",
        )
    } else {
        Report::new(
            "C03",
            tier,
            seed,
            "exploration",
            "seeded statements biased to what the rules match (multi-key GROUP BY, joins feeding aggregates, dual integer keys, OR of conjunctions, HAVING, 2-3-way joins) over Parquet tables drawn from key-distribution classes (dense dup, unique, range > rows but not unique, sparse, NULL-bearing) and over the same rows in memory; rows(unoptimized bound plan) must equal rows(production pipeline), rows(each rule alone) and, in thorough, rows(each prefix of the production order). distinct = distinct (statement skeleton, layout, plan variant) where the variant's plan differs from the bound plan",
        )
    };
    let scratch = Scratch::new(if c31 { "c31" } else { "c03" });
    let n_dbs = tier.pick(90, 2500);
    let per_db = tier.pick(12, 20);
    let seeds: Vec<u64> = (0..n_dbs).map(|i| seed.wrapping_mul(2_000_003).wrapping_add(i as u64)).collect();
    let sp = scratch.path().to_path_buf();
    let thorough = tier == Tier::Thorough;
    par_run(&mut rep, seeds, default_threads(), |s| {
        let mut rng = Rng::new(s ^ 0xC03);
        let sc = if rng.chance(1, 5) { SizeClass::Tiny } else { SizeClass::Small };
        let nt = 1 + rng.usize(3);
        let mut db = gen_db(&mut rng, nt, sc);
        bait(&mut rng, &mut db);
        if rng.chance(1, 3) {
            db.extend(cust_ord(&mut rng));
        }
        let layout = if rng.chance(3, 4) { Layout::Parquet } else { Layout::MemSplit };
        let lname = if layout == Layout::Parquet { "parquet" } else { "memk" };
        let dir = sp.join(format!("db{}", s));
        std::fs::create_dir_all(&dir).unwrap();
        let ctx = engine_ctx(&db, layout, &mut rng, Some(&dir));
        let mut out = Vec::new();
        for qi in 0..per_db {
            let mut qrng = rng.fork(qi as u64);
            let q = gen_stmt(&mut qrng, &db);
            let sql = q.engine_sql();
            if has_ordinal_group_key(&sql) {
                // `GROUP BY 3` names the third select item (possibly an aggregate): not a statement this monitor means to generate
                let mut r = CaseResult::default();
                r.inconclusive = Some("generator-emitted-ordinal-group-key(skipped)".into());
                out.push(r);
                continue;
            }
            let ordered = !q.keys.is_empty();
            let Ok(bound) = ctx.logical_plan(&sql) else {
                let mut r = CaseResult::default();
                r.inconclusive = Some("bind-error".into());
                out.push(r);
                continue;
            };
            let base = run_logical(&ctx, &bound);
            if !matches!(base, Outcome::Ok(_)) {
                let mut r = CaseResult::default();
                r.inconclusive = Some("unoptimized-plan-does-not-execute".into());
                r.counts.push((format!("base_err: {}", base.short().chars().take(70).collect::<String>()), 1));
                out.push(r);
                continue;
            }
            let base_schema = schema_sig(&bound);
            let stats = stats_of(&ctx);
            // variants: production pipeline, each rule alone, prefixes
            let rules = production_rules();
            let mut variants: Vec<(String, Optimizer)> = Vec::new();
            variants.push(("pipeline".into(), crate::eng::production_optimizer(&ctx)));
            for (ri, r) in rules.iter().enumerate() {
                if ri == 7 {
                    continue; // second PredicatePushdown is the same rule
                }
                let o = Optimizer::with_rules(vec![r.clone()]);
                variants.push((format!("rule:{}", r.name()), if stats.is_empty() { o } else { o.with_table_statistics(stats.clone()) }));
            }
            if thorough && !c31 {
                for k in 2..rules.len() {
                    let o = Optimizer::with_rules(rules[..k].to_vec());
                    variants.push((format!("prefix:{}", k), if stats.is_empty() { o } else { o.with_table_statistics(stats.clone()) }));
                }
            }
            for (vname, opt) in variants {
                let mut r = CaseResult::default();
                let optimized = match std::panic::catch_unwind(std::panic::AssertUnwindSafe(|| opt.optimize(bound.clone()))) {
                    Ok(Ok(p)) => p,
                    Ok(Err(e)) => {
                        // a rule failing on a valid plan
                        r.fail = Some((format!("optimizer-error:{}", vname), format!("{} :: {} failed: {}", sql, vname, e), json!({"sql": sql, "variant": vname, "tables": crate::sqldiff::db_json(&db, 40), "layout": lname})));
                        out.push(r);
                        continue;
                    }
                    Err(_) => {
                        r.fail = Some((format!("optimizer-panic:{}", vname), format!("{} :: {} panicked", sql, vname), json!({"sql": sql, "variant": vname, "tables": crate::sqldiff::db_json(&db, 40), "layout": lname})));
                        out.push(r);
                        continue;
                    }
                };
                let changed = optimized.to_string() != bound.to_string();
                if changed {
                    r.nontrivial = Some(format!("{}|{}|{}", q.skeleton(), lname, vname));
                }
                if c31 {
                    let s2 = schema_sig(&optimized);
                    if s2 != base_schema {
                        r.fail = Some((
                            format!("schema-changed:{}", vname),
                            format!("{} :: {} changed the output schema {:?} -> {:?}", sql, vname, base_schema, s2),
                            json!({"sql": sql, "variant": vname, "before": base_schema, "after": s2, "plan_after": optimized.to_string()}),
                        ));
                        out.push(r);
                        continue;
                    }
                }
                if !changed {
                    out.push(r);
                    continue;
                }
                let got = run_logical(&ctx, &optimized);
                if c31 {
                    if let Outcome::Err(e) = &got {
                        let le = e.to_lowercase();
                        let resolution = le.contains("not found") || le.contains("internal") || le.contains("out of bounds") || le.contains("schema") || le.contains("expression not supported") || le.contains("plan error") || le.contains("bind");
                        if !resolution {
                            // an execution-path error (e.g. a scan that cannot
                            // serve this plan shape) is not a malformed plan
                            r.inconclusive = Some("rewritten-plan-execution-error(C04)".into());
                            r.counts.push((format!("exec_err[{}]: {}", vname, e.chars().take(80).collect::<String>()), 1));
                            out.push(r);
                            continue;
                        }
                        r.fail = Some((
                            format!("rewritten-plan-fails:{}", vname),
                            format!("{} :: plan rewritten by {} does not execute: {}", sql, vname, e.chars().take(200).collect::<String>()),
                            json!({"sql": sql, "variant": vname, "error": e, "plan_after": optimized.to_string(), "tables": crate::sqldiff::db_json(&db, 40), "layout": lname}),
                        ));
                    } else if let Outcome::Panic(e) = &got {
                        r.fail = Some((format!("rewritten-plan-panics:{}", vname), format!("{} :: {}", sql, e), json!({"sql": sql, "variant": vname, "plan_after": optimized.to_string()})));
                    }
                    out.push(r);
                    continue;
                }
                if !matches!(got, Outcome::Ok(_)) {
                    // an optimized plan that FAILS is C31's (and C04's) business;
                    // C03 judges answers
                    r.inconclusive = Some("optimized-plan-errors(see C31)".into());
                    r.counts.push((format!("optimized_err[{}]: {}", vname, got.short().chars().take(80).collect::<String>()), 1));
                    out.push(r);
                    continue;
                }
                if let Err(why) = same(&base, &got, ordered) {
                    // explanation predicate for the recorded GroupKeyReduction finding
                    let mut sig = format!("answer-changed:{}", vname);
                    if matches!(got, Outcome::Ok(_)) && lname == "parquet" && groups_by_nonunique_nullfree_key(&sql, &db) {
                        let gkr_alone = Optimizer::with_rules(vec![Arc::new(query_engine::optimizer::GroupKeyReduction::new())]).with_table_statistics(stats.clone());
                        let alone_breaks = gkr_alone.optimize(bound.clone()).map(|p| same(&base, &run_logical(&ctx, &p), ordered).is_err()).unwrap_or(false);
                        let without_ok = match (vname.as_str(), optimizer_without(&ctx, &["GroupKeyReduction"]).optimize(bound.clone())) {
                            ("pipeline", Ok(p)) => same(&base, &run_logical(&ctx, &p), ordered).is_ok(),
                            (v, _) if v == "rule:GroupKeyReduction" => true,
                            (v, _) if v.starts_with("prefix:") => true,
                            _ => false,
                        };
                        if alone_breaks && without_ok {
                            sig = "gkr-nonunique-key-estimated-unique".into();
                        }
                    }
                    r.fail = Some((
                        sig,
                        format!("{} [{} / {}] :: {}", sql, lname, vname, why),
                        json!({"sql": sql, "layout": lname, "variant": vname, "unoptimized": base.json(40), "optimized": got.json(40), "plan_after": optimized.to_string(), "tables": crate::sqldiff::db_json(&db, 60)}),
                    ));
                }
                if qi == 0 && s % 8 == 0 && vname == "pipeline" {
                    r.sample = Some(json!({"sql": sql, "layout": lname, "variant": vname, "plan_changed": changed}));
                }
                out.push(r);
            }
        }
        let _ = std::fs::remove_dir_all(&dir);
        out
    });
    let changed = rep.distinct_count();
    rep.floor(changed > 50, "too few plan variants actually differed from the bound plan");
    rep.assumptions.push("the unoptimized bound plan, lowered by the same physical planner, is the engine's own definition of the statement's answer; semantic correctness of that answer is C01's business".into());
    rep.finish()
}

#[allow(dead_code)]
fn _unused(_: &ExecutionContext) {}
