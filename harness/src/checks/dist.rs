//! C09 A distributed answer equals the single-node answer.
//! C10 A failing fragment fails the whole query.
//! C45 Gathered tables carry every column the statement reads.

use crate::canon::{batches_to_rows, multiset_eq, row_eq, Row};
use crate::data::{write_parquet_table, PqOpts, Scratch, Table};
use crate::eng::{rt, run_sql, Outcome};
use crate::qgen::{gen_db, Feats, GenQuery, SizeClass, G};
use crate::report::{Report, Tier};
use crate::rng::Rng;
use crate::sqldiff::{default_threads, par_run, CaseResult};
use query_engine::distributed::coordinator::{encode_ipc, execute_any_distributed, execute_fragment, FragmentRequest, FragmentTransport, Participant};
use query_engine::distributed::gather::plan_gather;
use query_engine::distributed::plan::plan_distributed;
use query_engine::{ExecutionContext, QueryError};
use serde_json::json;
use std::sync::atomic::{AtomicU64, Ordering};
use std::sync::{Arc, Mutex};

/// What the in-process transport does to the fragment of one remote shard.
#[derive(Clone, Debug, PartialEq)]
pub enum Fault {
    None,
    TransportErr,
    HttpErr,
    Truncate(usize),
    Empty,
    FlipByte(usize),
    /// the peer computes over a table copy that differs (digest mismatch)
    WrongCopy,
}

pub struct Transport {
    pub peer: Arc<ExecutionContext>,
    pub wrong_peer: Option<Arc<ExecutionContext>>,
    /// fault per shard index
    pub faults: Mutex<std::collections::BTreeMap<usize, Fault>>,
    pub sent: AtomicU64,
    /// payload sizes observed per shard (fault-free run), for offset enumeration
    pub payload_len: Mutex<std::collections::BTreeMap<usize, usize>>,
    /// IPC message boundaries of the last fault-free payload per shard
    pub payloads: Mutex<std::collections::BTreeMap<usize, Vec<u8>>>,
    /// fault-free answers by serialized request
    pub answers: Mutex<std::collections::HashMap<String, (Vec<u8>, usize)>>,
}

impl Transport {
    pub fn new(peer: Arc<ExecutionContext>) -> Self {
        Transport { peer, wrong_peer: None, faults: Mutex::new(Default::default()), sent: AtomicU64::new(0), payload_len: Mutex::new(Default::default()), payloads: Mutex::new(Default::default()), answers: Mutex::new(Default::default()) }
    }
}

#[async_trait::async_trait]
impl FragmentTransport for Transport {
    async fn send(&self, address: &str, req: &FragmentRequest) -> query_engine::Result<(Vec<u8>, usize, f64)> {
        self.sent.fetch_add(1, Ordering::SeqCst);
        let fault = self.faults.lock().unwrap().get(&req.shard_index).cloned().unwrap_or(Fault::None);
        let peer = match (&fault, &self.wrong_peer) {
            (Fault::WrongCopy, Some(w)) => w.clone(),
            _ => self.peer.clone(),
        };
        match fault {
            Fault::TransportErr => return Err(QueryError::Execution(format!("connection reset by {}", address))),
            Fault::HttpErr => return Err(QueryError::Execution(format!("HTTP 500 from {}: internal error", address))),
            _ => {}
        }
        // A payload-level fault only changes the bytes the peer's (deterministic)
        // answer is delivered as: reuse the fault-free answer to the identical
        // request instead of executing the fragment again.
        let key = serde_json::to_string(req).unwrap_or_default();
        let cached = if matches!(fault, Fault::Truncate(_) | Fault::FlipByte(_) | Fault::Empty) { self.answers.lock().unwrap().get(&key).cloned() } else { None };
        let (mut bytes, row_count) = match cached {
            Some(c) => c,
            None => {
                let (r, _) = execute_fragment(&peer, req).await?;
                (encode_ipc(&r.schema, &r.batches)?, r.row_count)
            }
        };
        self.payload_len.lock().unwrap().insert(req.shard_index, bytes.len());
        if fault == Fault::None {
            self.payloads.lock().unwrap().insert(req.shard_index, bytes.clone());
            self.answers.lock().unwrap().insert(key, (bytes.clone(), row_count));
        }
        match fault {
            Fault::Truncate(n) => bytes.truncate(n.min(bytes.len())),
            Fault::Empty => bytes.clear(),
            Fault::FlipByte(i) => {
                if !bytes.is_empty() {
                    let j = i % bytes.len();
                    bytes[j] ^= 0xFF;
                }
            }
            _ => {}
        }
        Ok((bytes, row_count, 0.0))
    }
}

pub fn participants(n: usize, self_at: usize) -> Vec<Participant> {
    (0..n).map(|i| Participant { node_id: 100 + i as u64, address: format!("10.0.0.{}:7777", i + 1), is_self: i == self_at }).collect()
}

/// Parquet-backed context over a database; `variant` perturbs nothing (same
/// files under another directory) so the peer is a separate context.
pub fn pq_ctx(dir: &std::path::Path, db: &[Table], o: &PqOpts) -> Option<Arc<ExecutionContext>> {
    let mut c = ExecutionContext::new();
    for t in db {
        if t.rows.is_empty() {
            return None;
        }
        let p = write_parquet_table(dir, t, o);
        c.register_parquet(t.name.clone(), &p).ok()?;
    }
    Some(Arc::new(c))
}

fn copy_ctx(from: &std::path::Path, to: &std::path::Path, db: &[Table]) -> Option<Arc<ExecutionContext>> {
    let mut c = ExecutionContext::new();
    for t in db {
        let (s, d) = (from.join(&t.name), to.join(&t.name));
        std::fs::create_dir_all(&d).ok()?;
        for e in std::fs::read_dir(&s).ok()? {
            let e = e.ok()?;
            std::fs::copy(e.path(), d.join(e.file_name())).ok()?;
        }
        c.register_parquet(t.name.clone(), &d).ok()?;
    }
    Some(Arc::new(c))
}

pub fn run_dist(base: &Arc<ExecutionContext>, sql: &str, parts: &[Participant], tr: &Transport) -> Result<(Vec<Row>, String), String> {
    let base = base.clone();
    let sql = sql.to_string();
    // a panic inside the coordinator (e.g. arrow's IPC reader on a corrupt
    // payload) must not take the harness thread down: it is reported as a
    // failed query, with the panic text
    let res = std::panic::catch_unwind(std::panic::AssertUnwindSafe(|| rt().block_on(async { tokio::time::timeout(std::time::Duration::from_secs(120), execute_any_distributed(&base, &sql, parts, tr)).await })));
    match res {
        Err(p) => Err(format!("PANIC: {}", p.downcast_ref::<String>().cloned().or_else(|| p.downcast_ref::<&str>().map(|s| s.to_string())).unwrap_or_default())),
        Ok(Err(_)) => Err("timeout".into()),
        Ok(Ok(Err(e))) => Err(e.to_string()),
        Ok(Ok(Ok(r))) => Ok((batches_to_rows(&r.result.batches), format!("{:?}", r.distribution.shape))),
    }
}

/// Statements in all four distributed shapes.
pub fn dist_stmt(rng: &mut Rng, db: &[Table]) -> GenQuery {
    // two shapes the generic generator rarely lands on exactly:
    // a paged Top-N whose page lies beyond one shard's first LIMIT rows ...
    if rng.chance(1, 12) {
        let t = rng.pick(db);
        let (n, m) = (*rng.pick(&[1usize, 3, 5]), *rng.pick(&[1usize, 4, 10, 25]));
        let desc = rng.bool();
        let core = format!("SELECT r0.id AS c0, r0.i1 AS c1 FROM {} AS r0", t.name);
        let mut q = GenQuery { sql: String::new(), full_sql: core.clone(), keys: vec![], limit: Some(n), offset: m, tags: vec!["order-by".into(), "limit".into(), "offset".into(), "paged-topn".into()], ncols: 2 };
        q.sql = format!("{} ORDER BY c1{} NULLS LAST, c0 LIMIT {} OFFSET {}", core, if desc { " DESC" } else { "" }, n, m);
        q.keys = vec![crate::canon::SortKey { col: 1, desc, nulls_first: false }, crate::canon::SortKey { col: 0, desc: false, nulls_first: false }];
        return q;
    }
    // ... and an outer join whose null-supplying side is itself a join
    if db.len() >= 2 && rng.chance(1, 12) {
        // the preserved side is the smaller table, the inner join's right input the larger one
        let (a, b) = if db[0].rows.len() <= db[1].rows.len() { (&db[0], &db[1]) } else { (&db[1], &db[0]) };
        let jt = *rng.pick(&["LEFT", "LEFT", "FULL"]);
        let core = format!(
            "SELECT d.id AS c0, x.k AS c1, x.w AS c2 FROM {a} AS d {jt} JOIN (SELECT l.i0 AS k, f.i1 AS w FROM {a} AS l JOIN {b} AS f ON l.id = f.id) AS x ON d.id = x.k",
            a = a.name,
            b = b.name,
            jt = jt
        );
        return GenQuery { sql: core.clone(), full_sql: core, keys: vec![], limit: None, offset: 0, tags: vec![format!("{} JOIN", jt), "derived-join".into()], ncols: 3 };
    }
    let mut f = Feats::all();
    f.cross_join = false;
    let mut g = G::new(rng, f);
    g.total_order_limit = true;
    match g.rng.below(10) {
        0..=2 => g.q_simple(db, 1),                                   // Concat / TopN
        3..=6 => g.q_agg(db, 1),                                      // TwoPhase
        7 => g.q_agg(db, 2),                                          // join + aggregate
        8 => crate::checks::shapes::q_subquery(&mut g, db),           // Gather
        _ => g.q_simple(db, 2),                                       // join (Gather or pushdown)
    }
}

fn same_rows(a: &[Row], b: &[Row], q: &GenQuery) -> Result<(), String> {
    if !q.keys.is_empty() && q.limit.is_some() {
        if a.len() == b.len() && a.iter().zip(b.iter()).all(|(x, y)| row_eq(x, y)) {
            return Ok(());
        }
        return Err(format!("sequence differs under a total order ({} vs {} rows)", a.len(), b.len()));
    }
    if !q.keys.is_empty() {
        multiset_eq(a, b)?;
        return crate::canon::ordered_window_check(a, b, &q.keys, 0, None);
    }
    multiset_eq(a, b)
}

pub fn run_c09(tier: Tier, seed: u64) -> i32 {
    let mut rep = Report::new(
        "C09",
        tier,
        seed,
        "exploration",
        "execute_any_distributed over an in-process transport that runs execute_fragment on a SEPARATE context over a copy of the same Parquet files; participants 1..8 with self at a random index, tables whose split count is below the node count (idle nodes); statements in all shapes: Concat (scan/filter/project), TwoPhase (COUNT/SUM/MIN/MAX/AVG, GROUP BY, HAVING, ORDER BY/LIMIT over aggregates), TopN (ORDER BY/LIMIT/OFFSET with ties), Gather (joins, DISTINCT, COUNT DISTINCT, subqueries); the distributed answer must equal ctx.sql on the initiator (multiset; sequence under a total ORDER BY with LIMIT); a refusal (error) is allowed. distinct = distinct (statement skeleton, merge shape, node count class) with a non-empty answer",
    );
    let scratch = Scratch::new("c09");
    let n_dbs = tier.pick(36, 600);
    let per_db = tier.pick(16, 24);
    let seeds: Vec<u64> = (0..n_dbs).map(|i| seed.wrapping_mul(3_000_017).wrapping_add(i as u64)).collect();
    let sp = scratch.path().to_path_buf();
    par_run(&mut rep, seeds, default_threads().min(8), |sd| {
        let mut rng = Rng::new(sd ^ 0xC09);
        let sc = if tier == Tier::Quick { *rng.pick(&[SizeClass::Tiny, SizeClass::Small, SizeClass::Small]) } else { *rng.pick(&[SizeClass::Tiny, SizeClass::Small, SizeClass::Small, SizeClass::Medium]) };
        let mut db = gen_db(&mut rng, 2, sc);
        for t in db.iter_mut() {
            if t.rows.is_empty() {
                let spec = crate::qgen::TableSpec { rows: 3, null_pct: 30, key: crate::qgen::KeyClass::DenseDup, not_null: false };
                *t = crate::qgen::gen_table(&mut rng, &t.name.clone(), &spec);
            }
        }
        let dir = sp.join(format!("db{}", sd));
        let o = PqOpts { files: *rng.pick(&[1usize, 2, 3]), rg_rows: *rng.pick(&[5usize, 50, 500, 1 << 20]), dictionary: rng.bool(), snappy: rng.bool(), stats: true };
        let Some(base) = pq_ctx(&dir.join("init"), &db, &o) else { return vec![] };
        let Some(peer) = copy_ctx(&dir.join("init"), &dir.join("peer").join("mnt"), &db) else { return vec![] };
        let mut out = Vec::new();
        for qi in 0..per_db {
            let mut qrng = rng.fork(qi as u64);
            let q = dist_stmt(&mut qrng, &db);
            let sql = q.engine_sql();
            let n = *qrng.pick(&[1usize, 2, 3, 3, 5, 8]);
            let parts = participants(n, qrng.usize(n));
            let tr = Transport::new(peer.clone());
            let local = crate::eng::run_sql_avoiding_gkr(&base, &sql, &db, true);
            let dist = run_dist(&base, &sql, &parts, &tr);
            let mut r = CaseResult::default();
            match (&local, &dist) {
                (Outcome::Ok(l), Ok((d, shape))) => {
                    if !l.rows.is_empty() {
                        r.nontrivial = Some(format!("{}|{}|{}", q.skeleton(), shape, n.min(4)));
                    }
                    r.counts.push((format!("shape_{}", shape), 1));
                    r.counts.push((format!("remote_fragments_sent"), tr.sent.load(Ordering::SeqCst)));
                    if let Err(why) = same_rows(d, &l.rows, &q) {
                        r.fail = Some((
                            format!("distributed-differs:{}", shape),
                            format!("{} [{} nodes, {}] :: {}", sql, n, shape, why),
                            json!({"sql": sql, "nodes": n, "shape": shape, "single_node": local.json(30), "distributed": crate::canon::rows_json(d, 30), "tables": crate::sqldiff::db_json(&db, 30), "parquet": o.json()}),
                        ));
                    }
                }
                (Outcome::Ok(_), Err(e)) => {
                    r.inconclusive = Some("distributed-refused-or-failed(allowed)".into());
                    r.counts.push((format!("dist_err: {}", e.chars().take(70).collect::<String>()), 1));
                }
                (_, Ok((d, shape))) => {
                    // local fails but distributed answers: not a wrong answer per se; record
                    r.inconclusive = Some("local-fails-distributed-answers".into());
                    r.counts.push((format!("local_err_dist_ok[{}]: {} rows", shape, d.len()), 1));
                }
                _ => r.inconclusive = Some("both-fail".into()),
            }
            if qi == 0 && sd % 12 == 0 {
                r.sample = Some(json!({"sql": sql, "nodes": n, "distributed": dist.as_ref().map(|x| x.1.clone()).unwrap_or_else(|e| e.chars().take(80).collect())}));
            }
            out.push(r);
        }
        let _ = std::fs::remove_dir_all(&dir);
        out
    });
    rep.floor(rep.distinct_count() > 60, "too few distinct non-trivial distributed statements");
    rep.finish()
}

pub fn run_c10(tier: Tier, seed: u64) -> i32 {
    let mut rep = Report::new(
        "C10",
        tier,
        seed,
        "fault_enumeration",
        "for distributed statements (scatter and gather shapes, 2..5 participants) the fault-free distributed answer is recorded, then every remote shard in turn gets each fault: transport error, HTTP-style error, empty payload, a worker whose table copy differs (digest mismatch), a flipped byte at sampled offsets, and the real IPC payload TRUNCATED AT EVERY BYTE OFFSET (payloads <= 4 KiB; otherwise 256 sampled offsets incl. the last 64 bytes); the query must fail, or return exactly the fault-free answer (a masked fault); anything else is a partial answer. distinct = distinct (statement shape, fault kind, shard) triples",
    );
    let scratch = Scratch::new("c10");
    let n_dbs = tier.pick(6, 120);
    let per_db = tier.pick(3, 8);
    let seeds: Vec<u64> = (0..n_dbs).map(|i| seed.wrapping_mul(3_000_017).wrapping_add(i as u64)).collect();
    let sp = scratch.path().to_path_buf();
    let quick = tier == Tier::Quick;
    par_run(&mut rep, seeds, default_threads().min(8), |sd| {
        let mut rng = Rng::new(sd ^ 0xC10);
        let sc = *rng.pick(&[SizeClass::Small, SizeClass::Small, SizeClass::Tiny]);
        let mut db = gen_db(&mut rng, 2, sc);
        for t in db.iter_mut() {
            if t.rows.len() < 4 {
                let spec = crate::qgen::TableSpec { rows: 30, null_pct: 20, key: crate::qgen::KeyClass::DenseDup, not_null: false };
                *t = crate::qgen::gen_table(&mut rng, &t.name.clone(), &spec);
            }
        }
        let dir = sp.join(format!("db{}", sd));
        let o = PqOpts { files: 2, rg_rows: *rng.pick(&[10usize, 40]), dictionary: false, snappy: false, stats: true };
        let Some(base) = pq_ctx(&dir.join("init"), &db, &o) else { return vec![] };
        let Some(peer) = copy_ctx(&dir.join("init"), &dir.join("peer"), &db) else { return vec![] };
        // a differing copy: one more row in t0
        let mut db2 = db.clone();
        let extra = db2[0].rows[0].clone();
        db2[0].rows.push(extra);
        let wrong = pq_ctx(&dir.join("wrong"), &db2, &o);
        let mut out = Vec::new();
        for qi in 0..per_db {
            let mut qrng = rng.fork(qi as u64);
            let q = dist_stmt(&mut qrng, &db);
            let sql = q.engine_sql();
            let n = 2 + qrng.usize(4);
            let parts = participants(n, qrng.usize(n));
            let mut tr = Transport::new(peer.clone());
            tr.wrong_peer = wrong.clone();
            let Ok((clean, shape)) = run_dist(&base, &sql, &parts, &tr) else {
                let mut r = CaseResult::default();
                r.inconclusive = Some("fault-free-run-refused".into());
                out.push(r);
                continue;
            };
            let payloads = tr.payloads.lock().unwrap().clone();
            if payloads.is_empty() {
                let mut r = CaseResult::default();
                r.inconclusive = Some("no-remote-fragment(single active shard)".into());
                out.push(r);
                continue;
            }
            for (&shard, payload) in &payloads {
                let mut faults: Vec<Fault> = vec![Fault::TransportErr, Fault::HttpErr, Fault::Empty, Fault::WrongCopy];
                let len = payload.len();
                let offs: Vec<usize> = if len <= 4096 && !quick {
                    (0..len).collect()
                } else if len <= tier.pick(240, 600) {
                    (0..len).collect()
                } else {
                    let mut v: Vec<usize> = (0..tier.pick(32, 256)).map(|_| qrng.usize(len)).collect();
                    // every IPC message boundary of the real payload
                    v.extend(ipc_boundaries(payload));
                    v.extend(len.saturating_sub(64)..len);
                    v.extend(0..16.min(len));
                    v.sort();
                    v.dedup();
                    v
                };
                for off in &offs {
                    faults.push(Fault::Truncate(*off));
                }
                for _ in 0..tier.pick(6, 24) {
                    faults.push(Fault::FlipByte(qrng.usize(len)));
                }
                for fault in faults {
                    tr.faults.lock().unwrap().clear();
                    tr.faults.lock().unwrap().insert(shard, fault.clone());
                    let got = run_dist(&base, &sql, &parts, &tr);
                    let mut r = CaseResult::default();
                    let kind = match &fault {
                        Fault::Truncate(_) => "truncate".to_string(),
                        Fault::FlipByte(_) => "flip-byte".to_string(),
                        f => format!("{:?}", f),
                    };
                    r.nontrivial = Some(format!("{}|{}|{}", shape, kind, shard));
                    match got {
                        Err(e) => {
                            r.counts.push((format!("failed_as_required[{}]", kind), 1));
                            if e.starts_with("PANIC") {
                                r.counts.push((format!("failed_by_panic_not_error[{}]", kind), 1));
                            }
                        }
                        Ok((rows, _)) => {
                            if same_rows(&rows, &clean, &q).is_ok() {
                                r.counts.push((format!("masked_fault_complete_answer[{}]", kind), 1));
                            } else {
                                let at_boundary = match &fault {
                                    Fault::Truncate(n) => format!(" at byte {} of {}", n, len),
                                    Fault::FlipByte(n) => format!(" at byte {} of {}", n % len.max(1), len),
                                    _ => String::new(),
                                };
                                // a flipped byte inside a VALUE buffer yields different but complete data: corrupt payloads
                                // without integrity protection are still a wrong answer, reported under their own signature
                                r.fail = Some((
                                    format!("partial-answer:{}:{}", kind, shape),
                                    format!("{} [{} nodes, shard {} fault {}{}] :: returned Ok with {} rows instead of failing (fault-free answer has {})", sql, n, shard, kind, at_boundary, rows.len(), clean.len()),
                                    json!({"sql": sql, "nodes": n, "shard": shard, "fault": format!("{:?}", fault), "payload_len": len, "fault_free": crate::canon::rows_json(&clean, 20), "with_fault": crate::canon::rows_json(&rows, 20)}),
                                ));
                            }
                        }
                    }
                    out.push(r);
                }
            }
            tr.faults.lock().unwrap().clear();
            if qi == 0 {
                let mut r = CaseResult::default();
                r.sample = Some(json!({"sql": sql, "nodes": n, "shape": shape, "remote_payload_bytes": payloads.values().map(|p| p.len()).collect::<Vec<_>>()}));
                out.push(r);
            }
        }
        let _ = std::fs::remove_dir_all(&dir);
        out
    });
    rep.floor(rep.distinct_count() > 30, "too few distinct (shape, fault, shard) triples");
    rep.finish()
}

pub fn run_c45(tier: Tier, seed: u64) -> i32 {
    let mut rep = Report::new(
        "C45",
        tier,
        seed,
        "exploration",
        "statements that take the gather path (joins, [un]correlated subqueries whose columns appear only inside the subquery expression, CTEs, set operations, windows, filters on columns that are not projected, SELECT *, one table under two aliases with different projections) over multi-table Parquet catalogs: (a) a context holding ONLY the columns plan_gather lists for each table must bind and answer the statement exactly like the full context; (b) execute_any_distributed over 2..5 participants must equal ctx.sql. distinct = distinct (statement skeleton, check kind) with a non-empty answer",
    );
    let scratch = Scratch::new("c45");
    let n_dbs = tier.pick(36, 600);
    let per_db = tier.pick(16, 24);
    let seeds: Vec<u64> = (0..n_dbs).map(|i| seed.wrapping_mul(3_000_017).wrapping_add(i as u64)).collect();
    let sp = scratch.path().to_path_buf();
    par_run(&mut rep, seeds, default_threads().min(8), |sd| {
        let mut rng = Rng::new(sd ^ 0xC45);
        let sc = *rng.pick(&[SizeClass::Tiny, SizeClass::Small]);
        let mut db = gen_db(&mut rng, 2, sc);
        for t in db.iter_mut() {
            if t.rows.is_empty() {
                let spec = crate::qgen::TableSpec { rows: 5, null_pct: 30, key: crate::qgen::KeyClass::DenseDup, not_null: false };
                *t = crate::qgen::gen_table(&mut rng, &t.name.clone(), &spec);
            }
        }
        let dir = sp.join(format!("db{}", sd));
        let o = PqOpts { files: 2, rg_rows: 20, dictionary: true, snappy: false, stats: true };
        let Some(base) = pq_ctx(&dir.join("init"), &db, &o) else { return vec![] };
        let Some(peer) = copy_ctx(&dir.join("init"), &dir.join("peer"), &db) else { return vec![] };
        let mut out = Vec::new();
        for qi in 0..per_db {
            let mut qrng = rng.fork(qi as u64);
            let mut f = Feats::all();
            f.cross_join = false;
            let mut g = G::new(&mut qrng, f);
            g.total_order_limit = true;
            let q = match g.rng.below(8) {
                0 | 1 => crate::checks::shapes::q_subquery(&mut g, &db),
                2 => crate::checks::shapes::q_cte(&mut g, &db).0,
                3 => crate::checks::shapes::q_setop(&mut g, &db, true),
                4 => crate::checks::shapes::q_window(&mut g, &db),
                5 => {
                    let mut q = GenQuery::default();
                    let core = format!("SELECT * FROM t0 AS a JOIN t1 AS b ON a.i0 = b.i0 WHERE a.i1 > {}", g.rng.range(-2, 4));
                    q.sql = core.clone();
                    q.full_sql = core;
                    q.tags = vec!["select-star".into()];
                    q
                }
                6 => {
                    let mut q = GenQuery::default();
                    let core = format!("SELECT a.id AS c0, b.s0 AS c1 FROM t0 AS a JOIN t0 AS b ON a.i0 = b.i1 WHERE b.d0 IS NOT NULL AND a.f0 < {}", g.rng.range(-2, 4));
                    q.sql = core.clone();
                    q.full_sql = core;
                    q.tags = vec!["two-aliases".into()];
                    q
                }
                _ => g.q_simple(&db, 2),
            };
            let sql = q.engine_sql();
            // is it a gather statement?
            let gather = match plan_distributed(&base, &sql) {
                Err(QueryError::NotImplemented(_)) => true,
                _ => false,
            };
            if !gather {
                let mut r = CaseResult::default();
                r.inconclusive = Some("not-a-gather-statement".into());
                out.push(r);
                continue;
            }
            let local = run_sql(&base, &sql);
            let Outcome::Ok(l) = &local else {
                let mut r = CaseResult::default();
                r.inconclusive = Some("single-node-error".into());
                out.push(r);
                continue;
            };
            // (a) only the planned columns
            let mut r = CaseResult::default();
            match plan_gather(&base, &sql) {
                Err(e) => {
                    r.inconclusive = Some("gather-refused(allowed)".into());
                    r.counts.push((format!("gather_refused: {}", e.to_string().chars().take(70).collect::<String>()), 1));
                }
                Ok(plan) => {
                    let mut narrow = ExecutionContext::new();
                    let mut listed = Vec::new();
                    for gt in &plan.tables {
                        let t = db.iter().find(|t| t.name == gt.name).expect("table");
                        let cols: Vec<usize> = match &gt.columns {
                            Some(cs) => cs.iter().filter_map(|c| t.col_index(c)).collect(),
                            None => (0..t.cols.len()).collect(),
                        };
                        listed.push((gt.name.clone(), gt.columns.clone()));
                        let full = t.one_batch();
                        let b = full.project(&cols).expect("project");
                        narrow.register_table(t.name.clone(), b.schema(), vec![b]);
                    }
                    let narrow = Arc::new(narrow);
                    match run_sql(&narrow, &sql) {
                        Outcome::Ok(nr) => {
                            if !l.rows.is_empty() {
                                r.nontrivial = Some(format!("{}|narrow", q.skeleton()));
                            }
                            if let Err(why) = same_rows(&nr.rows, &l.rows, &q) {
                                r.fail = Some((format!("narrow-context-differs:{}", q.tags.first().cloned().unwrap_or_default()), format!("{} :: over only the planned columns {:?}: {}", sql, listed, why), json!({"sql": sql, "planned_columns": listed, "tables": crate::sqldiff::db_json(&db, 20)})));
                            }
                        }
                        Outcome::Err(e) => {
                            r.fail = Some((
                                format!("missing-column:{}", q.tags.iter().find(|t| ["subquery", "cte", "setop", "window", "select-star", "two-aliases"].contains(&t.as_str())).cloned().unwrap_or_else(|| "join".into())),
                                format!("{} :: does not bind/run over only the planned columns {:?}: {}", sql, listed, e.chars().take(200).collect::<String>()),
                                json!({"sql": sql, "planned_columns": listed, "error": e}),
                            ));
                        }
                        o => r.inconclusive = Some(format!("narrow-{}", o.short().chars().take(20).collect::<String>())),
                    }
                }
            }
            out.push(r);
            // (b) end to end
            let n = 2 + qrng.usize(4);
            let parts = participants(n, qrng.usize(n));
            let tr = Transport::new(peer.clone());
            let mut r = CaseResult::default();
            match run_dist(&base, &sql, &parts, &tr) {
                Ok((d, shape)) => {
                    if !l.rows.is_empty() {
                        r.nontrivial = Some(format!("{}|gathered", q.skeleton()));
                    }
                    if let Err(why) = same_rows(&d, &l.rows, &q) {
                        r.fail = Some((format!("gathered-differs:{}", shape), format!("{} [{} nodes] :: {}", sql, n, why), json!({"sql": sql, "nodes": n, "single_node": local.json(20), "gathered": crate::canon::rows_json(&d, 20), "tables": crate::sqldiff::db_json(&db, 20)})));
                    }
                }
                Err(e) => {
                    let le = e.to_lowercase();
                    if le.contains("column") && le.contains("not found") || le.contains("bind") {
                        r.fail = Some((format!("gathered-does-not-bind"), format!("{} [{} nodes] :: {}", sql, n, e.chars().take(200).collect::<String>()), json!({"sql": sql, "nodes": n, "error": e})));
                    } else {
                        r.inconclusive = Some("gather-refused-or-failed(allowed)".into());
                        r.counts.push((format!("gather_err: {}", e.chars().take(70).collect::<String>()), 1));
                    }
                }
            }
            if qi == 0 && sd % 12 == 0 {
                r.sample = Some(json!({"sql": sql, "nodes": n}));
            }
            out.push(r);
        }
        let _ = std::fs::remove_dir_all(&dir);
        out
    });
    rep.floor(rep.distinct_count() > 40, "too few distinct non-trivial gather statements");
    rep.finish()
}

/// Offsets at which each IPC message of a payload starts/ends (harness-side
/// walk of the stream framing).
fn ipc_boundaries(b: &[u8]) -> Vec<usize> {
    let mut out = Vec::new();
    let mut pos = 0usize;
    while pos + 8 <= b.len() {
        out.push(pos);
        let mut w = [0u8; 4];
        w.copy_from_slice(&b[pos..pos + 4]);
        pos += 4;
        if w == [0xFF; 4] {
            w.copy_from_slice(&b[pos..pos + 4]);
            pos += 4;
        }
        let meta = i32::from_le_bytes(w);
        if meta <= 0 || pos + meta as usize > b.len() {
            break;
        }
        let body = match arrow::ipc::root_as_message(&b[pos..pos + meta as usize]) {
            Ok(m) => m.bodyLength().max(0) as usize,
            Err(_) => break,
        };
        out.push(pos + meta as usize);
        pos += meta as usize + body;
    }
    out.push(pos.min(b.len()));
    out
}
