//! C16 Peer HTTP responses are framed or rejected.
//!
//! A scripted loopback peer sends an exact byte stream (whole, byte-by-byte, or
//! cut at an offset), then closes / resets / stalls. The client's answer is
//! judged against an independent parse of the bytes that were actually sent.

use crate::eng::rt;
use crate::report::{Report, Tier};
use crate::rng::Rng;
use query_engine::distributed::http_client;
use serde_json::json;
use std::io::{Read, Write};
use std::net::TcpListener;
use std::os::fd::AsRawFd;
use std::sync::mpsc;
use std::time::{Duration, Instant};

#[derive(Clone, Debug)]
enum End {
    Close,
    Reset,
    Stall,
    /// after the scripted bytes: one more byte every 60 ms for 12 s, never closing
    Drip,
}

#[derive(Clone, Debug)]
struct Script {
    bytes: Vec<u8>,
    one_byte_writes: bool,
    end: End,
}

fn serve(listener: TcpListener, rx: mpsc::Receiver<Script>, done: mpsc::Sender<()>) {
    while let Ok(script) = rx.recv() {
        let Ok((mut s, _)) = listener.accept() else { break };
        let _ = s.set_nodelay(true);
        // read the request head (until CRLFCRLF) so the client is past its write
        let mut buf = [0u8; 4096];
        let mut seen = Vec::new();
        let _ = s.set_read_timeout(Some(Duration::from_secs(2)));
        loop {
            match s.read(&mut buf) {
                Ok(0) => break,
                Ok(n) => {
                    seen.extend_from_slice(&buf[..n]);
                    if seen.windows(4).any(|w| w == b"\r\n\r\n") {
                        break;
                    }
                }
                Err(_) => break,
            }
        }
        if script.one_byte_writes {
            for b in &script.bytes {
                if s.write_all(&[*b]).is_err() {
                    break;
                }
            }
        } else {
            let _ = s.write_all(&script.bytes);
        }
        let _ = s.flush();
        match script.end {
            End::Close => {
                let _ = s.shutdown(std::net::Shutdown::Write);
                // drain so the close is a FIN, not a RST
                let _ = s.set_read_timeout(Some(Duration::from_millis(200)));
                let mut sink = [0u8; 256];
                while let Ok(n) = s.read(&mut sink) {
                    if n == 0 {
                        break;
                    }
                }
            }
            End::Reset => {
                let lg = libc::linger { l_onoff: 1, l_linger: 0 };
                unsafe {
                    libc::setsockopt(s.as_raw_fd(), libc::SOL_SOCKET, libc::SO_LINGER, &lg as *const _ as *const libc::c_void, std::mem::size_of::<libc::linger>() as u32);
                }
                drop(s);
            }
            End::Drip => {
                // a peer that keeps the connection "alive" without ever finishing:
                // the client's deadline bounds the WHOLE exchange, not each read
                let t0 = Instant::now();
                while t0.elapsed() < Duration::from_secs(12) {
                    if s.write_all(b" ").is_err() || s.flush().is_err() {
                        break;
                    }
                    std::thread::sleep(Duration::from_millis(60));
                }
            }
            End::Stall => {
                // keep the socket open until the client gives up
                let _ = s.set_read_timeout(Some(Duration::from_secs(8)));
                let mut sink = [0u8; 256];
                while let Ok(n) = s.read(&mut sink) {
                    if n == 0 {
                        break;
                    }
                }
            }
        }
        let _ = done.send(());
    }
}

struct Sent {
    status: Option<u32>,
    headers: Vec<(String, String)>,
    body: Vec<u8>,
    content_length: Option<u64>,
}

/// Independent reading of the bytes that were sent.
fn read_sent(b: &[u8]) -> Option<Sent> {
    let split = b.windows(4).position(|w| w == b"\r\n\r\n")?;
    let head = &b[..split];
    let body = b[split + 4..].to_vec();
    let mut lines = head.split(|c| *c == b'\n');
    let sl = String::from_utf8_lossy(lines.next().unwrap_or(&[])).to_string();
    let status = sl.split_whitespace().nth(1).and_then(|s| s.parse::<u32>().ok());
    let mut headers = Vec::new();
    for l in lines {
        let l = String::from_utf8_lossy(l).to_string();
        if let Some((k, v)) = l.split_once(':') {
            headers.push((k.trim().to_ascii_lowercase(), v.trim().to_string()));
        }
    }
    let content_length = headers.iter().find(|(k, _)| k == "content-length").and_then(|(_, v)| v.parse::<u64>().ok());
    Some(Sent { status, headers, body, content_length })
}

struct Gen {
    text: Vec<u8>,
    well_formed: bool,
    desc: String,
}

fn gen_response(rng: &mut Rng, tier: Tier) -> Gen {
    let mut well_formed = true;
    let status_line: String = match rng.below(10) {
        0 => "HTTP/1.1  200   OK".into(),
        1 => "HTTP/1.1 204".into(),
        2 => {
            well_formed = false;
            "HTTP/1.1 abc OK".into()
        }
        3 => {
            well_formed = false;
            "HTTP/1.1 99999 Big".into()
        }
        4 => {
            well_formed = false;
            "garbage".into()
        }
        _ => format!("HTTP/1.1 {} {}", rng.pick(&[200u32, 200, 200, 404, 500, 503, 100, 999]), rng.pick(&["OK", "Not Found", "x y z", ""])),
    };
    let body_len = match rng.below(6) {
        0 => 0,
        1 => rng.usize(8),
        2 => rng.usize(200),
        3 => rng.usize(4000),
        _ => rng.usize(tier.pick(20_000, 65_536)),
    };
    let binary = rng.bool();
    let body: Vec<u8> = (0..body_len).map(|_| if binary { rng.below(256) as u8 } else { *rng.pick(b"abc {}\":,\r\n0123") }).collect();
    let mut head = status_line.clone();
    head.push_str("\r\n");
    let cl_kind = rng.below(8);
    let mut desc = format!("{} body={} ", status_line, body_len);
    let mut hdrs: Vec<String> = Vec::new();
    match cl_kind {
        0 => desc.push_str("cl=absent"),
        1 | 2 | 3 => {
            hdrs.push(format!("{}: {}", rng.pick(&["Content-Length", "content-length", "CONTENT-LENGTH"]), body_len));
            desc.push_str("cl=exact");
        }
        4 => {
            hdrs.push(format!("Content-Length: {}", body_len + 1 + rng.usize(1000)));
            desc.push_str("cl=larger");
            well_formed = false;
        }
        5 => {
            hdrs.push(format!("Content-Length: {}", body_len / 2));
            desc.push_str("cl=smaller");
            if body_len / 2 != body_len {
                well_formed = false;
            }
        }
        6 => {
            hdrs.push("Content-Length: twelve".into());
            desc.push_str("cl=nonnumeric");
            well_formed = false;
        }
        _ => {
            hdrs.push("Content-Length: 18446744073709551615".into());
            desc.push_str("cl=huge");
            well_formed = false;
        }
    }
    for _ in 0..rng.usize(5) {
        hdrs.push(match rng.below(7) {
            0 => "X-QE-Rows: 42".into(),
            1 => "x-qe-rows: 43".into(),
            2 => "X-Dup: a".into(),
            3 => "X-Dup: b".into(),
            4 => "NoColonHere".into(),
            5 => format!("X-Big: {}", "v".repeat(rng.usize(tier.pick(3000, 60_000)))),
            _ => "X-Spaces:    padded value   ".into(),
        });
    }
    rng.shuffle(&mut hdrs);
    for h in &hdrs {
        head.push_str(h);
        head.push_str("\r\n");
    }
    head.push_str("\r\n");
    let mut text = head.into_bytes();
    text.extend_from_slice(&body);
    Gen { text, well_formed, desc }
}

pub fn run(tier: Tier, seed: u64) -> i32 {
    let mut rep = Report::new(
        "C16",
        tier,
        seed,
        "fault_enumeration",
        "scripted loopback peers: status lines (valid, odd spacing, missing reason, non-numeric, overflow), header sets (duplicates, mixed case, no colon, huge), Content-Length in {absent, exact, larger, smaller, non-numeric, huge}, bodies 0..64KiB; delivered whole, in 1-byte writes, and cut at byte offsets (every offset for responses <= 400 bytes, sampled incl. header/body boundary otherwise); then close, RST, stall, or a slow drip of one byte every 60 ms for 12 s (the timeout bounds the whole exchange). distinct = distinct (response shape, cut class, ending) triples",
    );
    let mut rng = Rng::new(seed ^ 0xC16);
    let listener = TcpListener::bind("127.0.0.1:0").expect("bind");
    let addr = listener.local_addr().unwrap().to_string();
    let (tx, rx) = mpsc::channel::<Script>();
    let (dtx, drx) = mpsc::channel::<()>();
    std::thread::spawn(move || serve(listener, rx, dtx));

    let timeout = Duration::from_millis(250);
    let slack = Duration::from_secs(5);
    let budget = tier.pick(3_000u64, 80_000);
    let mut exchanges = 0u64;
    let mut by_class: std::collections::BTreeMap<String, u64> = Default::default();
    let mut stalls = 0u64;
    let max_stalls = tier.pick(12, 120);

    let mut exchange = |rep: &mut Report, rng: &mut Rng, g: &Gen, cut: Option<usize>, end: End, one_byte: bool| {
        let sent_bytes: Vec<u8> = match cut {
            Some(c) => g.text[..c.min(g.text.len())].to_vec(),
            None => g.text.clone(),
        };
        let script = Script { bytes: sent_bytes.clone(), one_byte_writes: one_byte, end: end.clone() };
        tx.send(script).unwrap();
        let a = addr.clone();
        let t0 = Instant::now();
        let h = rt().spawn(async move { http_client::request(&a, "GET", "/fragment", None, None, timeout).await });
        let res = rt().block_on(async { tokio::time::timeout(timeout + slack + Duration::from_secs(5), h).await });
        let elapsed = t0.elapsed();
        // wait for the peer thread to finish this connection
        let _ = drx.recv_timeout(Duration::from_secs(16));
        rep.eval();
        let cut_class = match cut {
            None => "whole".to_string(),
            Some(c) => {
                let hdr_end = g.text.windows(4).position(|w| w == b"\r\n\r\n").map(|p| p + 4).unwrap_or(g.text.len());
                if c < hdr_end {
                    "cut-in-head".into()
                } else if c == hdr_end {
                    "cut-at-boundary".into()
                } else if c >= g.text.len() {
                    "whole".into()
                } else {
                    "cut-in-body".into()
                }
            }
        };
        let class = format!("{} | {} | {:?}{}", g.desc, cut_class, end, if one_byte { " | 1-byte" } else { "" });
        rep.nontrivial(&class);
        *by_class.entry(format!("{} {:?}", cut_class, end)).or_insert(0) += 1;
        let replay = json!({"response_prefix": String::from_utf8_lossy(&sent_bytes[..sent_bytes.len().min(600)]), "sent_len": sent_bytes.len(), "full_len": g.text.len(), "end": format!("{:?}", end), "one_byte_writes": one_byte});
        let _ = rng;
        match res {
            Err(_) => {
                // the harness's own generous watchdog fired: confirmed hang
                rep.fail("hang", &format!("request did not return within timeout {:?} + slack {:?}", timeout, slack), replay);
            }
            Ok(Err(join)) => {
                rep.fail("panic", &format!("client panicked: {}", join), replay);
            }
            Ok(Ok(outcome)) => {
                if elapsed > timeout + slack {
                    rep.fail("hang", &format!("request returned after {:?} (timeout {:?})", elapsed, timeout), replay.clone());
                }
                let sent = read_sent(&sent_bytes);
                match outcome {
                    Err(_e) => {
                        // An error is always permitted — except that a complete,
                        // well-formed response must be usable (positive control).
                        if g.well_formed && cut_class == "whole" && matches!(end, End::Close) {
                            rep.fail("valid-rejected", &format!("complete well-formed response rejected: {}", _e), replay);
                        }
                    }
                    Ok(resp) => {
                        let Some(sent) = sent else {
                            rep.fail("unframed-accepted", "Ok returned although no header terminator was ever sent", replay);
                            return;
                        };
                        if matches!(end, End::Stall | End::Drip) {
                            rep.fail("stall-accepted", "Ok returned although the peer never closed", replay.clone());
                        }
                        match sent.status {
                            Some(s) if s <= u16::MAX as u32 => {
                                if resp.status as u32 != s {
                                    rep.fail("status", &format!("status {} returned, {} sent", resp.status, s), replay.clone());
                                }
                            }
                            _ => rep.fail("bad-status-accepted", &format!("Ok({}) for an unparseable status line", resp.status), replay.clone()),
                        }
                        if resp.headers != sent.headers {
                            rep.fail("headers", &format!("headers {:?} != sent {:?}", trunc(&resp.headers), trunc(&sent.headers)), replay.clone());
                        }
                        if let Some(cl) = sent.content_length {
                            if (resp.body.len() as u64) < cl {
                                let sig = if matches!(end, End::Reset) { "short-body-after-reset" } else { "short-body" };
                                rep.fail(sig, &format!("Ok with body of {} bytes, Content-Length {} declared", resp.body.len(), cl), replay.clone());
                            }
                        }
                        // what was returned must be bytes that were sent
                        if !sent.body.starts_with(&resp.body) && resp.body != sent.body {
                            rep.fail("body-bytes", "returned body is not a prefix of the sent body", replay.clone());
                        } else if resp.body.len() < sent.body.len() && sent.content_length.map(|cl| (resp.body.len() as u64) < cl).unwrap_or(true) && !matches!(end, End::Reset) {
                            rep.fail("body-dropped", &format!("returned {} of {} body bytes that were delivered before a clean close", resp.body.len(), sent.body.len()), replay.clone());
                        }
                    }
                }
            }
        }
    };

    let mut sample_n = 0;
    while exchanges < budget {
        let g = gen_response(&mut rng, tier);
        if sample_n < 3 {
            rep.sample(json!({"response": g.desc, "bytes": g.text.len()}));
            sample_n += 1;
        }
        // whole, clean close
        exchange(&mut rep, &mut rng, &g, None, End::Close, false);
        exchanges += 1;
        if g.text.len() <= 300 && rng.chance(1, 4) {
            exchange(&mut rep, &mut rng, &g, None, End::Close, true);
            exchanges += 1;
        }
        // cuts
        let hdr_end = g.text.windows(4).position(|w| w == b"\r\n\r\n").map(|p| p + 4).unwrap_or(g.text.len());
        let cuts: Vec<usize> = if g.text.len() <= 400 && rng.chance(1, 3) {
            (0..g.text.len()).collect()
        } else {
            let mut v = vec![0, 1, hdr_end.saturating_sub(1), hdr_end, (hdr_end + 1).min(g.text.len()), g.text.len().saturating_sub(1)];
            for _ in 0..6 {
                v.push(rng.usize(g.text.len() + 1));
            }
            v.sort();
            v.dedup();
            v
        };
        for c in cuts {
            let end = if rng.chance(1, 6) { End::Reset } else { End::Close };
            exchange(&mut rep, &mut rng, &g, Some(c), end, false);
            exchanges += 1;
            if exchanges >= budget {
                break;
            }
        }
        if stalls < max_stalls && rng.chance(1, 10) {
            stalls += 1;
            let c = *rng.pick(&[0usize, hdr_end / 2, hdr_end, g.text.len()]);
            exchange(&mut rep, &mut rng, &g, Some(c), End::Stall, false);
            exchanges += 1;
        }
    }
    // slow-drip peers: bytes keep arriving, the exchange never ends
    for k in 0..tier.pick(4, 30) {
        let g = gen_response(&mut rng, tier);
        let hdr_end = g.text.windows(4).position(|w| w == b"\r\n\r\n").map(|p| p + 4).unwrap_or(g.text.len());
        let c = [0usize, hdr_end / 2, hdr_end, g.text.len().saturating_sub(1)][k % 4];
        exchange(&mut rep, &mut rng, &g, Some(c), End::Drip, false);
        exchanges += 1;
    }
    drop(tx);
    rep.set("exchanges_by_class", json!(by_class));
    rep.set("stalling_peers", json!(stalls));
    rep.assumptions.push("without Content-Length the body is EOF-delimited, so truncation there is undetectable and not demanded".into());
    rep.assumptions.push("an error is always an acceptable answer except for a complete well-formed response after a clean close (positive control)".into());
    crate::eng::take_panics();
    rep.finish()
}

fn trunc(h: &[(String, String)]) -> Vec<(String, String)> {
    h.iter().map(|(k, v)| (k.clone(), v.chars().take(40).collect())).collect()
}
