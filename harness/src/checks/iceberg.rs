//! C17 An Iceberg snapshot reads exactly its live data files.
//!
//! A model writer builds Iceberg tables on disk from random histories
//! (appends, file removals, manifest rewrites, metadata rewrites) in both
//! metadata-discovery styles and every accepted URI form, keeping for every
//! snapshot the set of live data files; the monitor opens the table (current
//! and at every listed snapshot) through ExecutionContext::register_iceberg
//! and compares `SELECT id` with the ids of the model's live files. Histories
//! that end in something the reader must refuse (delete files, non-Parquet
//! data, remote URIs, unknown or empty snapshots) must produce an error.

use crate::canon::multiset_eq;
use crate::data::{write_parquet_file, Cell, Col, PqOpts, Table, Ty};
use crate::eng::{run_sql, Outcome};
use crate::report::{Report, Tier};
use crate::rng::Rng;
use crate::sqldiff::{default_threads, par_run, CaseResult};
use apache_avro::types::Value as AV;
use apache_avro::{Codec, Schema, Writer};
use query_engine::ExecutionContext;
use serde_json::json;
use std::collections::{BTreeMap, BTreeSet};
use std::path::{Path, PathBuf};
use std::sync::Arc;

const MANIFEST_LIST_SCHEMA: &str = r#"{"type":"record","name":"manifest_file","fields":[
 {"name":"manifest_path","type":"string","field-id":500},
 {"name":"manifest_length","type":"long","field-id":501},
 {"name":"partition_spec_id","type":"int","field-id":502},
 {"name":"content","type":"int","field-id":517,"default":0},
 {"name":"sequence_number","type":"long","field-id":515,"default":0},
 {"name":"added_snapshot_id","type":"long","field-id":503},
 {"name":"added_files_count","type":["null","int"],"field-id":504,"default":null}
]}"#;

fn manifest_schema(v2: bool) -> String {
    let content = if v2 { r#"{"name":"content","type":"int","field-id":134,"default":0},"# } else { "" };
    format!(
        r#"{{"type":"record","name":"manifest_entry","fields":[
 {{"name":"status","type":"int","field-id":0}},
 {{"name":"snapshot_id","type":["null","long"],"field-id":1,"default":null}},
 {{"name":"data_file","type":{{"type":"record","name":"r2","fields":[
   {content}
   {{"name":"file_path","type":"string","field-id":100}},
   {{"name":"file_format","type":"string","field-id":101}},
   {{"name":"record_count","type":"long","field-id":103}},
   {{"name":"file_size_in_bytes","type":"long","field-id":104}}
 ]}},"field-id":2}}
]}}"#
    )
}

#[derive(Clone, Debug)]
struct DataFile {
    /// path relative to the table directory
    rel: String,
    ids: Vec<i64>,
    /// 0 data, 1 position deletes, 2 equality deletes
    content: i32,
    format: &'static str,
    remote: bool,
}

#[derive(Clone, Debug)]
struct Entry {
    status: i32, // 0 existing 1 added 2 deleted
    file: DataFile,
}

#[derive(Clone, Debug)]
struct Manifest {
    rel: String,
    entries: Vec<Entry>,
}

#[derive(Clone, Debug)]
struct Snap {
    id: i64,
    ts: i64,
    list_rel: String,
    manifests: Vec<Manifest>,
}

impl Snap {
    fn live(&self) -> Vec<&DataFile> {
        self.manifests.iter().flat_map(|m| m.entries.iter()).filter(|e| e.status != 2).map(|e| &e.file).collect()
    }
}

fn uri(rng: &mut Rng, table_dir: &Path, rel: &str) -> String {
    let abs = table_dir.join(rel);
    let a = abs.to_string_lossy().to_string();
    match rng.usize(4) {
        0 => format!("file://{}", a),
        1 => format!("file:{}", a),
        2 => a,
        _ => rel.to_string(),
    }
}

struct Writer0<'a> {
    dir: &'a Path,
    rng: &'a mut Rng,
    v2: bool,
    next_id: i64,
    file_no: usize,
    manifest_no: usize,
}

impl<'a> Writer0<'a> {
    fn new_data_file(&mut self) -> DataFile {
        let n = 1 + self.rng.usize(6);
        let ids: Vec<i64> = (0..n as i64).map(|k| self.next_id + k).collect();
        self.next_id += n as i64;
        let rel = format!("data/{:05}-{}.parquet", self.file_no, self.rng.below(1 << 30));
        self.file_no += 1;
        let t = Table {
            name: "t".into(),
            cols: vec![Col { name: "id".into(), ty: Ty::I64, nullable: false }, Col { name: "v".into(), ty: Ty::Str, nullable: true }],
            rows: ids.iter().map(|i| vec![Cell::Int(*i), if i % 5 == 0 { Cell::Null } else { Cell::S(format!("r{}", i)) }]).collect(),
        };
        let p = self.dir.join(&rel);
        std::fs::create_dir_all(p.parent().unwrap()).unwrap();
        write_parquet_file(&p, t.schema(), &[t.one_batch()], &PqOpts { files: 1, rg_rows: *self.rng.pick(&[2usize, 100]), dictionary: self.rng.bool(), snappy: false, stats: true });
        DataFile { rel, ids, content: 0, format: *self.rng.pick(&["PARQUET", "PARQUET", "parquet", "Parquet"]), remote: false }
    }

    fn write_manifest(&mut self, entries: Vec<Entry>, snap: i64) -> Manifest {
        let rel = format!("metadata/{:08x}-m{}.avro", self.rng.below(1 << 32), self.manifest_no);
        self.manifest_no += 1;
        let schema = Schema::parse_str(&manifest_schema(self.v2)).expect("manifest schema");
        let path = self.dir.join(&rel);
        std::fs::create_dir_all(path.parent().unwrap()).unwrap();
        let codec = if self.rng.bool() { Codec::Deflate(Default::default()) } else { Codec::Null };
        let mut w = Writer::with_codec(&schema, std::fs::File::create(&path).unwrap(), codec).expect("avro writer");
        for e in &entries {
            let fp = if e.file.remote { format!("s3://bucket/warehouse/{}", e.file.rel) } else { uri(self.rng, self.dir, &e.file.rel) };
            let mut df = Vec::new();
            if self.v2 {
                df.push(("content".to_string(), AV::Int(e.file.content)));
            }
            df.push(("file_path".to_string(), AV::String(fp)));
            df.push(("file_format".to_string(), AV::String(e.file.format.to_string())));
            df.push(("record_count".to_string(), AV::Long(e.file.ids.len() as i64)));
            df.push(("file_size_in_bytes".to_string(), AV::Long(1000)));
            let rec = AV::Record(vec![
                ("status".to_string(), AV::Int(e.status)),
                ("snapshot_id".to_string(), AV::Union(1, Box::new(AV::Long(snap)))),
                ("data_file".to_string(), AV::Record(df)),
            ]);
            w.append(rec).expect("append manifest entry");
        }
        w.flush().expect("flush manifest");
        Manifest { rel, entries }
    }

    fn write_manifest_list(&mut self, manifests: &[Manifest], snap: i64, remote_manifest: bool) -> String {
        self.write_manifest_list_tagged(manifests, snap, remote_manifest, false)
    }

    /// `tag_deletes`: manifests that hold delete files are marked content = 1 in
    /// the list, as a v2 writer does.
    fn write_manifest_list_tagged(&mut self, manifests: &[Manifest], snap: i64, remote_manifest: bool, tag_deletes: bool) -> String {
        let rel = format!("metadata/snap-{}-{}.avro", snap, self.rng.below(1 << 20));
        let schema = Schema::parse_str(MANIFEST_LIST_SCHEMA).expect("list schema");
        let codec = if self.rng.bool() { Codec::Deflate(Default::default()) } else { Codec::Null };
        let mut w = Writer::with_codec(&schema, std::fs::File::create(self.dir.join(&rel)).unwrap(), codec).expect("avro writer");
        for (i, m) in manifests.iter().enumerate() {
            let mp = if remote_manifest && i == 0 { format!("hdfs://nn/warehouse/{}", m.rel) } else { uri(self.rng, self.dir, &m.rel) };
            w.append(AV::Record(vec![
                ("manifest_path".to_string(), AV::String(mp)),
                ("manifest_length".to_string(), AV::Long(1)),
                ("partition_spec_id".to_string(), AV::Int(0)),
                ("content".to_string(), AV::Int(if tag_deletes && m.entries.iter().any(|e| e.file.content != 0) { 1 } else { 0 })),
                ("sequence_number".to_string(), AV::Long(snap)),
                ("added_snapshot_id".to_string(), AV::Long(snap)),
                ("added_files_count".to_string(), AV::Union(1, Box::new(AV::Int(m.entries.len() as i32)))),
            ]))
            .expect("append manifest_file");
        }
        w.flush().expect("flush list");
        rel
    }
}

struct Built {
    snaps: Vec<Snap>,
    current: Option<i64>,
    expect_refusal: Option<&'static str>,
    ops: Vec<String>,
    style: &'static str,
}

fn build_history(rng: &mut Rng, dir: &Path) -> Built {
    let v2 = rng.chance(2, 3);
    let style = *rng.pick(&["version-hint", "version-hint-v", "newest-update", "newest-update-misleading-names"]);
    let mut snaps: Vec<Snap> = Vec::new();
    let mut ops = Vec::new();
    let mut ts = 1_700_000_000_000i64;
    let mut metas: Vec<(i64, Vec<Snap>, Option<i64>)> = Vec::new(); // (last-updated, snapshots, current)
    let n_ops = 1 + rng.usize(7);
    let ending = if rng.chance(1, 3) { Some(*rng.pick(&["delete-files", "non-parquet", "remote-data-uri", "remote-manifest-uri", "empty-snapshot"])) } else { None };
    // a v1 table cannot carry delete files
    let ending = if ending == Some("delete-files") && !v2 { Some("empty-snapshot") } else { ending };
    let mut snap_id = 1000 + rng.range(0, 1_000_000);
    {
        let mut w = Writer0 { dir, rng, v2, next_id: 0, file_no: 0, manifest_no: 0 };
        std::fs::create_dir_all(dir.join("metadata")).unwrap();
        std::fs::create_dir_all(dir.join("data")).unwrap();
        // an orphan data file nobody references
        let _orphan = w.new_data_file();
        for opi in 0..n_ops {
            let prev: Vec<Manifest> = snaps.last().map(|s| s.manifests.clone()).unwrap_or_default();
            let live_prev: usize = prev.iter().flat_map(|m| m.entries.iter()).filter(|e| e.status != 2).count();
            let op = if opi == 0 || live_prev == 0 { "append" } else { *w.rng.pick(&["append", "append", "remove", "rewrite-manifests", "metadata-only", "rollback"]) };
            if op == "rollback" && snaps.len() >= 2 {
                // the current snapshot is an OLDER one while the newer ones stay listed
                let to = snaps[w.rng.usize(snaps.len() - 1)].id;
                ops.push("rollback".into());
                ts += 10;
                metas.push((ts, snaps.clone(), Some(to)));
                continue;
            }
            let op = if op == "rollback" { "append" } else { op };
            snap_id += 1 + w.rng.range(0, 1000);
            ts += 1 + w.rng.range(0, 5000);
            let mut manifests: Vec<Manifest>;
            match op {
                "append" => {
                    // carried manifests drop their DELETED entries' history as real writers do not: they are carried verbatim
                    manifests = prev.clone();
                    let k = 1 + w.rng.usize(3);
                    let files: Vec<Entry> = (0..k).map(|_| Entry { status: 1, file: w.new_data_file() }).collect();
                    let m = w.write_manifest(files, snap_id);
                    manifests.push(m);
                }
                "remove" => {
                    // rewrite one manifest that has live entries: victims DELETED, the others EXISTING
                    manifests = Vec::new();
                    let idx: Vec<usize> = prev.iter().enumerate().filter(|(_, m)| m.entries.iter().any(|e| e.status != 2)).map(|(i, _)| i).collect();
                    let victim_m = *w.rng.pick(&idx);
                    for (i, m) in prev.iter().enumerate() {
                        if i != victim_m {
                            // a manifest whose entries are all DELETED is dropped by real writers
                            if m.entries.iter().any(|e| e.status != 2) {
                                manifests.push(m.clone());
                            }
                            continue;
                        }
                        let live: Vec<&Entry> = m.entries.iter().filter(|e| e.status != 2).collect();
                        let nv = 1 + w.rng.usize(live.len());
                        let mut es = Vec::new();
                        for (k, e) in live.iter().enumerate() {
                            es.push(Entry { status: if k < nv { 2 } else { 0 }, file: e.file.clone() });
                        }
                        w.rng.shuffle(&mut es);
                        let nm = w.write_manifest(es, snap_id);
                        manifests.push(nm);
                    }
                }
                "rewrite-manifests" => {
                    let live: Vec<Entry> = prev.iter().flat_map(|m| m.entries.iter()).filter(|e| e.status != 2).map(|e| Entry { status: 0, file: e.file.clone() }).collect();
                    // into one or two manifests
                    if live.len() >= 2 && w.rng.bool() {
                        let cut = 1 + w.rng.usize(live.len() - 1);
                        let a = w.write_manifest(live[..cut].to_vec(), snap_id);
                        let b = w.write_manifest(live[cut..].to_vec(), snap_id);
                        manifests = vec![a, b];
                    } else {
                        manifests = vec![w.write_manifest(live, snap_id)];
                    }
                }
                _ => {
                    // metadata rewrite without a new snapshot
                    ops.push("metadata-only".into());
                    ts += 10;
                    metas.push((ts, snaps.clone(), snaps.last().map(|s| s.id)));
                    continue;
                }
            }
            let list_rel = w.write_manifest_list(&manifests, snap_id, false);
            snaps.push(Snap { id: snap_id, ts, list_rel, manifests });
            ops.push(op.to_string());
            // not every snapshot gets its own metadata file
            if w.rng.chance(2, 3) || opi + 1 == n_ops {
                metas.push((ts + 1, snaps.clone(), Some(snap_id)));
            }
        }
        // the ending the reader must refuse
        if let Some(kind) = ending {
            let prev: Vec<Manifest> = snaps.last().map(|s| s.manifests.clone()).unwrap_or_default();
            snap_id += 7;
            ts += 100;
            let mut manifests = prev.clone();
            let mut remote_manifest = false;
            match kind {
                "delete-files" => {
                    let mut f = w.new_data_file();
                    f.content = 1 + w.rng.usize(2) as i32;
                    manifests.push(w.write_manifest(vec![Entry { status: 1, file: f }], snap_id));
                }
                "non-parquet" => {
                    let mut f = w.new_data_file();
                    f.format = *w.rng.pick(&["AVRO", "ORC", "avro"]);
                    manifests.push(w.write_manifest(vec![Entry { status: 1, file: f }], snap_id));
                }
                "remote-data-uri" => {
                    let mut f = w.new_data_file();
                    f.remote = true;
                    manifests.push(w.write_manifest(vec![Entry { status: 1, file: f }], snap_id));
                }
                "remote-manifest-uri" => {
                    remote_manifest = true;
                }
                _ => {
                    // every live file deleted
                    let live: Vec<Entry> = prev.iter().flat_map(|m| m.entries.iter()).filter(|e| e.status != 2).map(|e| Entry { status: 2, file: e.file.clone() }).collect();
                    manifests = vec![w.write_manifest(live, snap_id)];
                }
            }
            let tag = w.rng.bool();
            let list_rel = w.write_manifest_list_tagged(&manifests, snap_id, remote_manifest, tag);
            snaps.push(Snap { id: snap_id, ts, list_rel, manifests });
            ops.push(format!("ending:{}{}", kind, if tag && kind == "delete-files" { "(tagged-in-list)" } else { "" }));
            metas.push((ts + 1, snaps.clone(), Some(snap_id)));
        }
    }
    let expect_refusal = ending;
    // metadata files
    let mdir = dir.join("metadata");
    let n = metas.len();
    // two metadata files written in the same millisecond: with sequence-prefixed
    // names the later-written (greater) name is the newer one
    let tie = style == "newest-update" && metas.len() >= 2 && rng.chance(1, 3);
    if tie {
        let n = metas.len();
        metas[n - 1].0 = metas[n - 2].0;
        ops.push("metadata-tie".into());
    }
    for (i, (updated, ss, cur)) in metas.iter().enumerate() {
        let body = json!({
            "format-version": if v2 { 2 } else { 1 },
            "table-uuid": "9c12d441-03fe-4693-9a96-a0705ddf69c1",
            "location": dir.to_string_lossy(),
            "last-updated-ms": updated,
            "last-column-id": 2,
            "current-snapshot-id": cur,
            "snapshots": ss.iter().map(|s| json!({"snapshot-id": s.id, "timestamp-ms": s.ts, "manifest-list": uri(rng, dir, &s.list_rel), "summary": {"operation": "append"}})).collect::<Vec<_>>(),
        });
        let name = match style {
            "version-hint" | "version-hint-v" => format!("v{}.metadata.json", i + 1),
            "newest-update" => format!("{:05}-{:08x}.metadata.json", i, rng.below(1 << 32)),
            // file names sorted the other way round: only last-updated-ms may decide
            _ => format!("{:05}-{:08x}.metadata.json", n - i, rng.below(1 << 32)),
        };
        std::fs::write(mdir.join(name), serde_json::to_vec_pretty(&body).unwrap()).unwrap();
    }
    match style {
        "version-hint" => std::fs::write(mdir.join("version-hint.text"), format!("{}", n)).unwrap(),
        "version-hint-v" => std::fs::write(mdir.join("version-hint.text"), format!("v{}\n", n)).unwrap(),
        _ => {}
    }
    let current = metas.last().and_then(|m| m.2);
    Built { snaps, current, expect_refusal, ops, style }
}

fn ids_of(ctx: &Arc<ExecutionContext>) -> Result<Vec<i64>, String> {
    match run_sql(ctx, "SELECT id FROM t") {
        Outcome::Ok(a) => Ok(a.rows.iter().filter_map(|r| if let Cell::Int(i) = r[0] { Some(i) } else { None }).collect()),
        other => Err(other.short()),
    }
}

pub fn run_c17(tier: Tier, seed: u64) -> i32 {
    let mut rep = Report::new(
        "C17",
        tier,
        seed,
        "exploration",
        "Iceberg tables written by a model writer from random histories of 1-8 operations (append 1-3 files, remove files by rewriting a manifest with DELETED/EXISTING entries, manifest rewrites into 1-2 manifests, metadata-only rewrites, rollbacks of the current snapshot to an older one, two metadata files with one timestamp), format v1 and v2, Avro deflate and uncompressed, metadata found by version-hint.text (`N` and `vN`) or by newest last-updated-ms (also with file names sorted the other way), manifest-list / manifest / data-file URIs as file:///abs, file:/abs, absolute and table-relative paths, with stale metadata files and an orphan data file left behind. The table is opened at the current snapshot and at every listed snapshot; `SELECT id` must return exactly the ids of the files the model holds live in that snapshot. A third of the histories end in a snapshot with delete files, a non-Parquet data file, a remote data or manifest URI or no live file, which must be refused (the earlier snapshots must still read); an unknown snapshot id must be refused. distinct = distinct (discovery style, version, operation sequence, which snapshot was opened)",
    );
    let scratch = crate::data::Scratch::new("c17");
    let n = tier.pick(400usize, 12_000);
    let seeds: Vec<u64> = (0..n).map(|i| seed.wrapping_mul(6_000_011).wrapping_add(i as u64)).collect();
    let sp = scratch.path().to_path_buf();
    par_run(&mut rep, seeds, default_threads(), |sd| {
        let mut rng = Rng::new(sd ^ 0xC17);
        let dir = sp.join(format!("tbl{}", sd));
        let _ = std::fs::remove_dir_all(&dir);
        std::fs::create_dir_all(&dir).unwrap();
        let b = build_history(&mut rng, &dir);
        let mut out = Vec::new();
        let hist = b.ops.join(",");
        let replay = |what: &str, snap: Option<i64>, got: &str, want: &str| json!({"history": b.ops, "style": b.style, "open_at": snap, "what": what, "got": got, "want": want, "snapshots": b.snaps.iter().map(|s| json!({"id": s.id, "live_files": s.live().iter().map(|f| f.rel.clone()).collect::<Vec<_>>(), "manifests": s.manifests.iter().map(|m| m.entries.iter().map(|e| format!("{}:{}", e.status, e.file.rel)).collect::<Vec<_>>()).collect::<Vec<_>>()})).collect::<Vec<_>>()});
        // every listed snapshot, then the current one (None), then an unknown id
        let mut targets: Vec<Option<i64>> = b.snaps.iter().map(|s| Some(s.id)).collect();
        targets.push(None);
        for tgt in targets {
            let mut r = CaseResult::default();
            let snap = match tgt {
                Some(id) => b.snaps.iter().find(|s| s.id == id),
                None => b.current.and_then(|c| b.snaps.iter().find(|s| s.id == c)),
            };
            let Some(snap) = snap else {
                out.push(r);
                continue;
            };
            let is_last = b.snaps.last().map(|l| l.id == snap.id).unwrap_or(false);
            let must_refuse = if is_last { b.expect_refusal } else { None };
            let must_refuse = must_refuse.or(if snap.live().is_empty() { Some("empty-snapshot") } else { None });
            let mut ctx = ExecutionContext::new();
            let reg = std::panic::catch_unwind(std::panic::AssertUnwindSafe(|| ctx.register_iceberg("t", &dir, tgt)));
            let which = if tgt.is_none() { "current" } else if is_last { "latest-by-id" } else { "older-by-id" };
            let answer: Result<Vec<i64>, String> = match reg {
                Err(_) => Err("PANIC in register_iceberg".into()),
                Ok(Err(e)) => Err(e.to_string()),
                Ok(Ok(())) => ids_of(&Arc::new(ctx)),
            };
            match (must_refuse, &answer) {
                (Some(kind), Ok(ids)) => {
                    r.fail = Some((format!("not-refused:{}:{}", kind, which), format!("[{} {}] a snapshot ending in {} was served: {} rows", b.style, hist, kind, ids.len()), replay("must be refused", tgt, &format!("{} rows", ids.len()), "an error")));
                }
                (Some(kind), Err(e)) => {
                    if e.starts_with("PANIC") {
                        r.fail = Some((format!("panic:{}", kind), format!("[{} {}] {}", b.style, hist, e), replay("panic", tgt, e, "an error")));
                    }
                    r.count("refusals_observed");
                    r.nontrivial = Some(format!("{}|{}|refusal:{}|{}", b.style, hist, kind, which));
                }
                (None, Err(e)) => {
                    r.fail = Some((format!("readable-snapshot-refused:{}:{}", which, b.style), format!("[{} {}] snapshot {} should read {} files but: {}", b.style, hist, snap.id, snap.live().len(), e), replay("must be readable", tgt, e, "rows")));
                }
                (None, Ok(ids)) => {
                    let mut want: Vec<i64> = snap.live().iter().flat_map(|f| f.ids.iter().copied()).collect();
                    let mut got = ids.clone();
                    want.sort();
                    got.sort();
                    r.count("snapshots_read");
                    r.nontrivial = Some(format!("{}|{}|{}", b.style, hist, which));
                    if got != want {
                        let (gs, ws): (BTreeSet<i64>, BTreeSet<i64>) = (got.iter().copied().collect(), want.iter().copied().collect());
                        let extra: Vec<i64> = gs.difference(&ws).copied().take(8).collect();
                        let missing: Vec<i64> = ws.difference(&gs).copied().take(8).collect();
                        let kind = if !extra.is_empty() && !missing.is_empty() { "wrong-files" } else if !extra.is_empty() { "dead-or-foreign-rows-served" } else if !missing.is_empty() { "live-rows-missing" } else { "row-multiplicity" };
                        r.fail = Some((format!("{}:{}:{}", kind, which, b.style), format!("[{} {}] snapshot {} ({}) returned {} rows, live files hold {} (extra ids {:?}, missing ids {:?})", b.style, hist, snap.id, which, got.len(), want.len(), extra, missing), replay(kind, tgt, &format!("{:?}", got.iter().take(40).collect::<Vec<_>>()), &format!("{:?}", want.iter().take(40).collect::<Vec<_>>()))));
                    }
                }
            }
            out.push(r);
        }
        // unknown snapshot id
        {
            let mut r = CaseResult::default();
            let unknown = 7;
            let mut ctx = ExecutionContext::new();
            match std::panic::catch_unwind(std::panic::AssertUnwindSafe(|| ctx.register_iceberg("t", &dir, Some(unknown)))) {
                Ok(Err(_)) => r.count("refusals_observed"),
                Ok(Ok(())) => r.fail = Some(("not-refused:unknown-snapshot".into(), format!("[{} {}] snapshot id {} does not exist but the table opened", b.style, hist, unknown), replay("unknown snapshot", Some(unknown), "opened", "an error"))),
                Err(_) => r.fail = Some(("panic:unknown-snapshot".into(), "register_iceberg panicked".into(), replay("panic", Some(unknown), "panic", "an error"))),
            }
            out.push(r);
        }
        if sd % 97 == 0 {
            if let Some(first) = out.first_mut() {
                first.sample = Some(json!({"style": b.style, "history": b.ops, "snapshots": b.snaps.len(), "live_files_per_snapshot": b.snaps.iter().map(|s| s.live().len()).collect::<Vec<_>>()}));
            }
        }
        let _ = std::fs::remove_dir_all(&dir);
        let _: BTreeMap<(), ()> = BTreeMap::new();
        out
    });
    let read = rep.extra.get("snapshots_read").and_then(|v| v.as_u64()).unwrap_or(0);
    let refused = rep.extra.get("refusals_observed").and_then(|v| v.as_u64()).unwrap_or(0);
    rep.floor(read > 0 && refused > 0, "both readable snapshots and refusals must be observed");
    rep.assumptions.push("histories are spec-shaped: in one snapshot every data file is tracked by exactly one manifest".into());
    rep.finish()
}

#[allow(dead_code)]
fn _unused(_: PathBuf, _: fn(&[crate::canon::Row], &[crate::canon::Row]) -> bool) {
    let _ = multiset_eq;
}
