//! C01 SQL answers agree with standard SQL semantics (mixed stratum).
//! Also hosts the shared "generate, run on both, judge" loop used by the
//! other reference-differential properties.

use crate::data::{write_parquet_table, PqOpts, Scratch, Table};
use crate::eng::{df_ctx, mem_ctx_batches, run_df, run_sql, Outcome};
use crate::qgen::{gen_db, Feats, GenQuery, SizeClass, G};
use crate::report::{Report, Tier};
use crate::rng::Rng;
use crate::sqldiff::{default_threads, judge, par_run, replay_json, shrink_rows, CaseResult};
use query_engine::ExecutionContext;
use serde_json::json;
use std::sync::Arc;

#[derive(Clone, Copy, PartialEq, Debug)]
pub enum Layout {
    MemOne,
    MemSplit,
    Parquet,
}

pub fn engine_ctx(db: &[Table], layout: Layout, rng: &mut Rng, scratch: Option<&std::path::Path>) -> Arc<ExecutionContext> {
    match layout {
        Layout::MemOne => crate::eng::mem_ctx(db),
        Layout::MemSplit => {
            let parts: Vec<(&Table, Vec<arrow::record_batch::RecordBatch>)> = db
                .iter()
                .map(|t| {
                    let k = 1 + rng.usize(5);
                    (t, t.random_batches(rng, k, true))
                })
                .collect();
            mem_ctx_batches(&parts)
        }
        Layout::Parquet => {
            let dir = scratch.expect("scratch dir");
            let mut ctx = ExecutionContext::new();
            for t in db {
                if t.rows.is_empty() {
                    // an empty parquet file set is its own topic (C04); keep it in memory here
                    ctx.register_table(t.name.clone(), t.schema(), vec![t.one_batch()]);
                    continue;
                }
                let o = PqOpts::random(rng, t.rows.len());
                let d = write_parquet_table(dir, t, &o);
                ctx.register_parquet(t.name.clone(), &d).expect("register parquet");
            }
            Arc::new(ctx)
        }
    }
}

/// Compare one generated statement. `classify` maps a confirmed mismatch to a
/// failure signature (used for known-finding matching).
pub fn diff_case(
    db: &[Table],
    ctx: &Arc<ExecutionContext>,
    dfc: &datafusion::prelude::SessionContext,
    q: &GenQuery,
    layout_name: &str,
    classify: &dyn Fn(&GenQuery, &[Table], &str) -> String,
    rebuild: &dyn Fn(&[Table]) -> Arc<ExecutionContext>,
) -> CaseResult {
    let mut r = CaseResult::default();
    let reference = run_df(dfc, &q.ref_full_sql());
    let Ok(ref_ans) = &reference else {
        r.inconclusive = Some("reference-rejected".into());
        r.counts.push((format!("ref_err: {}", reference.as_ref().err().unwrap().chars().take(70).collect::<String>()), 1));
        return r;
    };
    let out = crate::eng::run_sql_avoiding_gkr(ctx, &q.engine_sql(), db, layout_name == "parquet");
    match &out {
        Outcome::Err(e) => {
            r.inconclusive = Some("engine-error-permitted".into());
            r.counts.push((format!("engine_err: {}", e.chars().take(70).collect::<String>()), 1));
        }
        Outcome::Panic(e) => {
            r.inconclusive = Some("engine-panic".into());
            r.counts.push((format!("engine_panic: {}", e.chars().take(70).collect::<String>()), 1));
        }
        Outcome::Timeout => r.inconclusive = Some("engine-timeout".into()),
        Outcome::Ok(a) => {
            if !ref_ans.rows.is_empty() || q.tags.iter().any(|t| t == "global-agg") {
                r.nontrivial = Some(format!("{}|{}", q.skeleton(), layout_name));
            }
            if let Err(why) = judge(&a.rows, &ref_ans.rows, q) {
                // confirm on a rebuilt context of the same layout, then shrink
                let fails = |d: &[Table]| -> bool {
                    let c = rebuild(d);
                    let dc = df_ctx(d);
                    match (run_sql(&c, &q.engine_sql()), run_df(&dc, &q.ref_full_sql())) {
                        (Outcome::Ok(a2), Ok(r2)) => judge(&a2.rows, &r2.rows, q).is_err(),
                        _ => false,
                    }
                };
                let run_sql = |c: &Arc<ExecutionContext>, s: &str| crate::eng::run_sql_avoiding_gkr(c, s, db, layout_name == "parquet");
                let reproducible = fails(db);
                let small = if reproducible && db.iter().map(|t| t.rows.len()).sum::<usize>() <= 3000 { shrink_rows(db, fails, std::time::Duration::from_secs(20)) } else { db.to_vec() };
                let (out2, ref2) = if reproducible {
                    (run_sql(&rebuild(&small), &q.engine_sql()), run_df(&df_ctx(&small), &q.ref_full_sql()))
                } else {
                    // not reproducible on a rebuilt context (schedule- or cache-dependent):
                    // the recorded first observation is the witness
                    (out.clone(), reference.clone())
                };
                let why2 = match (&out2, &ref2) {
                    (Outcome::Ok(a2), Ok(r2)) => judge(&a2.rows, &r2.rows, q).err().unwrap_or(why.clone()),
                    _ => why.clone(),
                };
                // --- arbitration: DataFusion is not infallible. SQLite decides
                // whether the disagreement is the engine's or the reference's.
                let arb = crate::arbiter::run_sqlite(&small, &q.ref_full_sql());
                let verdict = match (&arb, &out2, &ref2) {
                    (Ok(s), Outcome::Ok(a2), Ok(r2)) => {
                        if judge(&a2.rows, s, q).is_ok() {
                            "reference-disagreement"
                        } else if crate::canon::multiset_eq(&r2.rows, s).is_ok() {
                            "violated"
                        } else {
                            "unarbitrated"
                        }
                    }
                    (Err(_), _, _) => "unarbitrated",
                    _ => "unarbitrated",
                };
                match verdict {
                    "reference-disagreement" => {
                        r.inconclusive = Some("reference-disagreement(sqlite sides with the engine)".into());
                        r.counts.push((format!("ref_disagreement: {}", q.engine_sql().chars().take(150).collect::<String>()), 1));
                    }
                    "unarbitrated" => {
                        r.inconclusive = Some("unarbitrated-disagreement".into());
                        r.counts.push((format!("unarbitrated: {} [{}]", q.engine_sql().chars().take(150).collect::<String>(), arb.as_ref().err().cloned().unwrap_or_else(|| "sqlite differs from both".into()).chars().take(60).collect::<String>()), 1));
                    }
                    _ => {
                        let sig = classify(q, &small, &why2);
                        r.fail = Some((sig, format!("{} :: {}", q.engine_sql(), why2), replay_json(&small, q, &out2, &ref2, json!({"layout": layout_name, "tags": q.tags, "sqlite": arb.as_ref().map(|s| crate::canon::rows_json(s, 40)).unwrap_or(json!("n/a"))}))));
                    }
                }
            }
        }
    }
    r
}

pub fn default_classify(q: &GenQuery, _db: &[Table], _why: &str) -> String {
    let _ = q;
    "mismatch".to_string()
}

pub fn run(tier: Tier, seed: u64) -> i32 {
    let mut rep = Report::new(
        "C01",
        tier,
        seed,
        "exploration",
        "seeded mixed-stratum SELECT statements (projection expressions, WHERE with 3VL predicates, inner/outer/cross joins with residual ON, GROUP BY/HAVING, DISTINCT, ORDER BY with every null ordering, LIMIT/OFFSET, set operations, subqueries, CTEs, windows) over generated databases (4 NULL densities, key-distribution classes) registered as memory (one or several batches) or Parquet; DataFusion 54 is the reference; ordered results judged tie-aware against the reference's full answer. distinct = distinct (statement skeleton with literals abstracted, layout) whose reference answer is non-empty (or global aggregate)",
    );
    let scratch = Scratch::new("c01");
    let n_dbs = tier.pick(60, 1200);
    let per_db = tier.pick(40, 50);
    let seeds: Vec<u64> = (0..n_dbs).map(|i| seed.wrapping_mul(1_000_003).wrapping_add(i as u64)).collect();
    let sp = scratch.path().to_path_buf();
    par_run(&mut rep, seeds, default_threads(), |s| {
        let mut rng = Rng::new(s ^ 0xC01);
        let sc = if tier == Tier::Thorough && rng.chance(1, 10) { SizeClass::Medium } else if rng.bool() { SizeClass::Tiny } else { SizeClass::Small };
        let n_tables = 1 + rng.usize(3);
        let db = gen_db(&mut rng, n_tables, sc);
        let layout = match rng.below(4) {
            0 => Layout::Parquet,
            1 => Layout::MemOne,
            _ => Layout::MemSplit,
        };
        let lname = match layout {
            Layout::Parquet => "parquet",
            Layout::MemOne => "mem1",
            Layout::MemSplit => "memk",
        };
        let dir = sp.join(format!("db{}", s));
        std::fs::create_dir_all(&dir).unwrap();
        let ctx = engine_ctx(&db, layout, &mut rng, Some(&dir));
        let dfc = df_ctx(&db);
        let mut out = Vec::new();
        for qi in 0..per_db {
            let mut qrng = rng.fork(qi as u64);
            let q = crate::checks::shapes::mixed_query(&mut qrng, &db, Feats::all());
            let rdir = dir.join(format!("rebuild{}", qi));
            let lseed = s ^ 0x5EED;
            let rebuild = |d: &[Table]| {
                let _ = std::fs::remove_dir_all(&rdir);
                std::fs::create_dir_all(&rdir).unwrap();
                // same layout kind, layout parameters re-drawn from a fixed seed
                engine_ctx(d, layout, &mut Rng::new(lseed), Some(&rdir))
            };
            let mut r = diff_case(&db, &ctx, &dfc, &q, lname, &crate::checks::shapes::classify, &rebuild);
            if qi == 0 && s % 16 == 0 {
                r.sample = Some(json!({"engine_sql": q.engine_sql(), "layout": lname, "table_rows": db.iter().map(|t| t.rows.len()).collect::<Vec<_>>()}));
            }
            out.push(r);
        }
        let _ = std::fs::remove_dir_all(&dir);
        out
    });
    let answered = rep.evaluations - rep.inconclusive_count("engine-error-permitted") - rep.inconclusive_count("reference-rejected") - rep.inconclusive_count("engine-panic");
    rep.set("statements_answered_by_both", json!(answered));
    rep.floor(answered * 2 >= rep.evaluations, "fewer than half of the generated statements were answered by both engines");
    rep.assumptions.push("DataFusion 54.1 implements standard SQL on the generated fragment (no integer division, no overflow, dyadic floats)".into());
    rep.finish()
}
