//! C39 The TPC-H generator is deterministic and self-consistent.

use crate::canon::batches_to_rows;
use crate::data::{Cell, Scratch};
use crate::report::{Report, Tier};
use query_engine::physical::operators::TableProvider;
use query_engine::tpch::TpchGenerator;
use query_engine::ExecutionContext;
use serde_json::json;
use std::collections::{BTreeMap, HashSet};

const TABLES: [&str; 8] = ["nation", "region", "part", "supplier", "partsupp", "customer", "orders", "lineitem"];

fn generate(sf: f64, seed: u64) -> BTreeMap<String, Vec<Vec<Cell>>> {
    let mut ctx = ExecutionContext::new();
    TpchGenerator::with_seed(sf, seed).generate_all(&mut ctx);
    let mut out = BTreeMap::new();
    for t in TABLES {
        let p = ctx.table_provider(t).expect("tpch table");
        out.insert(t.to_string(), batches_to_rows(&p.scan(None).expect("scan")));
    }
    out
}

fn col(ctx_schema: &arrow::datatypes::SchemaRef, name: &str) -> usize {
    ctx_schema.index_of(name).unwrap_or(usize::MAX)
}

fn first_diff(a: &BTreeMap<String, Vec<Vec<Cell>>>, b: &BTreeMap<String, Vec<Vec<Cell>>>) -> Option<String> {
    for t in TABLES {
        let (x, y) = (&a[t], &b[t]);
        if x.len() != y.len() {
            return Some(format!("{}: {} vs {} rows", t, x.len(), y.len()));
        }
        for (i, (r, s)) in x.iter().zip(y.iter()).enumerate() {
            for (j, (c, d)) in r.iter().zip(s.iter()).enumerate() {
                let same = match (c, d) {
                    (Cell::F(p), Cell::F(q)) => p.to_bits() == q.to_bits(),
                    _ => crate::canon::cell_eq(c, d),
                };
                if !same {
                    return Some(format!("{} row {} column {}: {:?} vs {:?}", t, i, j, c, d));
                }
            }
        }
    }
    None
}

pub fn run(tier: Tier, seed: u64) -> i32 {
    let mut rep = Report::new(
        "C39",
        tier,
        seed,
        "exploration",
        "TPC-H generation at SF in {0.001,0.002,0.005,0.01,(0.02,0.05)} x several generator seeds: two sequential generations and 4 concurrent generations must be identical in every cell (floats bit-for-bit); Parquet written by generate_to_parquet must read back identical; row counts must follow the ratios (|count - base*SF| < 1, nation 25, region 5, partsupp = 4 x part up to rounding); every foreign key (nation->region, supplier/customer->nation, partsupp->part/supplier, orders->customer, lineitem->orders/part/supplier and the (partkey,suppkey) pair into partsupp) must refer to an existing row. distinct = distinct (scale factor, generator seed, check kind) triples",
    );
    let scratch = Scratch::new("c39");
    let sfs: Vec<f64> = tier.pick(vec![0.001, 0.002, 0.005, 0.01], vec![0.001, 0.002, 0.005, 0.01, 0.02, 0.05]);
    let nseeds = tier.pick(2u64, 12);
    for &sf in &sfs {
        for k in 0..nseeds {
            let gseed = seed.wrapping_mul(31).wrapping_add(k * 7 + 42);
            let a = generate(sf, gseed);
            let b = generate(sf, gseed);
            rep.eval();
            rep.nontrivial(&(format!("{}", sf), gseed, "sequential"));
            if let Some(d) = first_diff(&a, &b) {
                rep.fail("nondeterministic-sequential", &format!("SF {} seed {}: two generations differ: {}", sf, gseed, d), json!({"sf": sf, "seed": gseed}));
            }
            // concurrent generations
            let hs: Vec<_> = (0..4).map(|_| std::thread::spawn(move || generate(sf, gseed))).collect();
            for h in hs {
                rep.eval();
                match h.join() {
                    Ok(c) => {
                        if let Some(d) = first_diff(&a, &c) {
                            rep.fail("nondeterministic-concurrent", &format!("SF {} seed {}: a concurrently generated copy differs: {}", sf, gseed, d), json!({"sf": sf, "seed": gseed}));
                        }
                    }
                    Err(_) => rep.fail("generator-panic", "concurrent generation panicked", json!({"sf": sf, "seed": gseed})),
                }
            }
            rep.nontrivial(&(format!("{}", sf), gseed, "concurrent"));
            // a different seed must (almost surely) give different data
            if k == 0 {
                let other = generate(sf, gseed + 1);
                if first_diff(&a, &other).is_none() {
                    rep.fail("seed-ignored", &format!("SF {}: seeds {} and {} generate identical data", sf, gseed, gseed + 1), json!({"sf": sf}));
                }
            }
            // parquet round trip
            let dir = scratch.path().join(format!("sf{}-{}", sf, gseed));
            rep.eval();
            rep.nontrivial(&(format!("{}", sf), gseed, "parquet"));
            match TpchGenerator::with_seed(sf, gseed).generate_to_parquet(&dir) {
                Ok(()) => {
                    let mut back = BTreeMap::new();
                    let mut ok = true;
                    for t in TABLES {
                        let f = dir.join(format!("{}.parquet", t));
                        match query_engine::ParquetTable::try_new(&f).and_then(|p| p.scan(None)) {
                            Ok(bs) => {
                                back.insert(t.to_string(), batches_to_rows(&bs));
                            }
                            Err(e) => {
                                ok = false;
                                rep.fail("parquet-readback-error", &format!("{}: {}", t, e), json!({"sf": sf, "seed": gseed}));
                            }
                        }
                    }
                    if ok {
                        if let Some(d) = first_diff(&a, &back) {
                            rep.fail("parquet-differs", &format!("SF {} seed {}: Parquet read back differs from the in-memory generation: {}", sf, gseed, d), json!({"sf": sf, "seed": gseed}));
                        }
                    }
                }
                Err(e) => rep.fail("parquet-write-error", &e.to_string(), json!({"sf": sf})),
            }
            let _ = std::fs::remove_dir_all(&dir);
            // ---- row counts
            rep.eval();
            let base: [(&str, f64); 6] = [("part", 200_000.0), ("supplier", 10_000.0), ("partsupp", 800_000.0), ("customer", 150_000.0), ("orders", 1_500_000.0), ("lineitem", 6_000_000.0)];
            for (t, bsz) in base {
                let n = a[t].len() as f64;
                if (n - bsz * sf).abs() >= 1.0 {
                    rep.fail(&format!("row-count:{}", t), &format!("SF {}: {} has {} rows, ratio demands {}", sf, t, n, bsz * sf), json!({"sf": sf, "table": t, "rows": n}));
                }
            }
            if a["nation"].len() != 25 || a["region"].len() != 5 {
                rep.fail("row-count:fixed", &format!("nation {} region {}", a["nation"].len(), a["region"].len()), json!({"sf": sf}));
            }
            let (ps, p) = (a["partsupp"].len() as i64, a["part"].len() as i64);
            if (ps - 4 * p).abs() > 4 {
                rep.fail("row-count:partsupp-vs-part", &format!("partsupp {} vs 4 x part {}", ps, 4 * p), json!({"sf": sf}));
            }
            // ---- keys
            rep.eval();
            rep.nontrivial(&(format!("{}", sf), gseed, "keys"));
            let mut ctx = ExecutionContext::new();
            TpchGenerator::with_seed(sf, gseed).generate_all(&mut ctx);
            let keyset = |t: &str, c: &str| -> (HashSet<i64>, usize) {
                let s = ctx.table_schema(t).unwrap();
                let i = col(&s, c);
                let mut h = HashSet::new();
                let mut n = 0;
                for r in &a[t] {
                    if let Cell::Int(v) = r[i] {
                        h.insert(v);
                        n += 1;
                    }
                }
                (h, n)
            };
            let pks = [("region", "r_regionkey"), ("nation", "n_nationkey"), ("part", "p_partkey"), ("supplier", "s_suppkey"), ("customer", "c_custkey"), ("orders", "o_orderkey")];
            let mut sets: BTreeMap<&str, HashSet<i64>> = BTreeMap::new();
            for (t, c) in pks {
                let (h, n) = keyset(t, c);
                if h.len() != n || n != a[t].len() {
                    // key uniqueness is not part of the property's text: observed, not judged
                    rep.count(&format!("observation_primary_key_not_unique_{}", t), 1);
                }
                sets.insert(t, h);
            }
            let fks = [
                ("nation", "n_regionkey", "region"),
                ("supplier", "s_nationkey", "nation"),
                ("customer", "c_nationkey", "nation"),
                ("partsupp", "ps_partkey", "part"),
                ("partsupp", "ps_suppkey", "supplier"),
                ("orders", "o_custkey", "customer"),
                ("lineitem", "l_orderkey", "orders"),
                ("lineitem", "l_partkey", "part"),
                ("lineitem", "l_suppkey", "supplier"),
            ];
            for (t, c, parent) in fks {
                let s = ctx.table_schema(t).unwrap();
                let i = col(&s, c);
                if i == usize::MAX {
                    rep.inconclusive("column-missing");
                    continue;
                }
                let dangling = a[t].iter().filter(|r| !matches!(r[i], Cell::Int(v) if sets[parent].contains(&v))).count();
                if dangling > 0 {
                    rep.fail(&format!("dangling-foreign-key:{}.{}", t, c), &format!("SF {} seed {}: {} of {} rows of {}.{} refer to no {} row", sf, gseed, dangling, a[t].len(), t, c, parent), json!({"sf": sf, "seed": gseed}));
                }
            }
            // (l_partkey, l_suppkey) must exist in partsupp
            {
                let ps = ctx.table_schema("partsupp").unwrap();
                let (pi, si) = (col(&ps, "ps_partkey"), col(&ps, "ps_suppkey"));
                let pairs: HashSet<(i64, i64)> = a["partsupp"].iter().filter_map(|r| if let (Cell::Int(p), Cell::Int(s)) = (&r[pi], &r[si]) { Some((*p, *s)) } else { None }).collect();
                if pairs.len() != a["partsupp"].len() {
                    rep.count("observation_partsupp_pairs_repeat", 1);
                }
                let ls = ctx.table_schema("lineitem").unwrap();
                let (lp, lsu) = (col(&ls, "l_partkey"), col(&ls, "l_suppkey"));
                let dangling = a["lineitem"].iter().filter(|r| !matches!((&r[lp], &r[lsu]), (Cell::Int(p), Cell::Int(s)) if pairs.contains(&(*p, *s)))).count();
                if dangling > 0 {
                    rep.fail("dangling-foreign-key:lineitem.(l_partkey,l_suppkey)", &format!("SF {} seed {}: {} of {} lineitem rows name a (part, supplier) pair that is not in partsupp", sf, gseed, dangling, a["lineitem"].len()), json!({"sf": sf, "seed": gseed}));
                }
            }
            if k == 0 {
                rep.sample(json!({"sf": sf, "seed": gseed, "rows": TABLES.iter().map(|t| (t.to_string(), a[*t].len())).collect::<BTreeMap<_, _>>()}));
            }
        }
    }
    rep.finish()
}
