//! C30 The reported result schema describes the returned rows.
//!
//! For every successfully executed statement of the mixed corpus the monitor
//! compares three descriptions of the result: QueryResult.schema, the schema
//! carried by EVERY returned batch, and ExecutionContext::physical_plan(sql)
//! .schema() (which is also what Flight GetFlightInfo/GetSchema reports for a
//! statement: flight.rs builds its answer from exactly that call). Column
//! count, names and data types must agree; nullability is ignored, also inside
//! nested types.

use crate::checks::c01::{engine_ctx, Layout};
use crate::checks::shapes;
use crate::data::Scratch;
use crate::eng::run_sql_batches;
use crate::qgen::{gen_db, Feats, SizeClass};
use crate::report::{Report, Tier};
use crate::rng::Rng;
use crate::sqldiff::{default_threads, par_run, CaseResult};
use arrow::datatypes::{DataType, SchemaRef};
use serde_json::json;

/// Data type with nullability (and field metadata) erased.
pub fn erase(dt: &DataType) -> String {
    match dt {
        DataType::List(f) => format!("List<{}>", erase(f.data_type())),
        DataType::LargeList(f) => format!("LargeList<{}>", erase(f.data_type())),
        DataType::FixedSizeList(f, n) => format!("FixedSizeList<{};{}>", erase(f.data_type()), n),
        DataType::Struct(fs) => format!("Struct<{}>", fs.iter().map(|f| format!("{}:{}", f.name(), erase(f.data_type()))).collect::<Vec<_>>().join(",")),
        DataType::Map(f, s) => format!("Map<{};{}>", erase(f.data_type()), s),
        DataType::Dictionary(k, v) => format!("Dictionary<{},{}>", erase(k), erase(v)),
        other => format!("{:?}", other),
    }
}

/// First difference between two schemas as (kind, detail), or None.
pub fn schema_diff(a: &SchemaRef, b: &SchemaRef) -> Option<(String, String)> {
    if a.fields().len() != b.fields().len() {
        return Some(("column-count".into(), format!("{} vs {} columns ({:?} vs {:?})", a.fields().len(), b.fields().len(), names(a), names(b))));
    }
    for (i, (x, y)) in a.fields().iter().zip(b.fields().iter()).enumerate() {
        if x.name() != y.name() {
            return Some(("column-name".into(), format!("column {}: `{}` vs `{}`", i, x.name(), y.name())));
        }
        let (tx, ty) = (erase(x.data_type()), erase(y.data_type()));
        if tx != ty {
            return Some((format!("column-type:{}-vs-{}", tx, ty), format!("column {} `{}`: {} vs {}", i, x.name(), tx, ty)));
        }
    }
    None
}

fn names(s: &SchemaRef) -> Vec<String> {
    s.fields().iter().map(|f| f.name().clone()).collect()
}

pub fn run_c30(tier: Tier, seed: u64) -> i32 {
    let mut rep = Report::new(
        "C30",
        tier,
        seed,
        "exploration",
        "for every successfully executed statement of the mixed corpus (projections, expressions of every type, aggregates, joins, set operations, subqueries, CTEs, windows, grouping sets, ORDER BY/LIMIT) over memory and Parquet layouts: QueryResult.schema, the schema of every returned batch and physical_plan(sql).schema() (the source of Flight's schema answers) agree in column count, names and types up to nullability. distinct = distinct (statement skeleton, result type vector) with at least one returned batch",
    );
    let scratch = Scratch::new("c30");
    let n_dbs = tier.pick(60usize, 600);
    let per_db = tier.pick(40usize, 60);
    let seeds: Vec<u64> = (0..n_dbs).map(|i| seed.wrapping_mul(4_000_037).wrapping_add(i as u64)).collect();
    let sp = scratch.path().to_path_buf();
    par_run(&mut rep, seeds, default_threads(), |sd| {
        let mut rng = Rng::new(sd ^ 0xC30);
        let sc = *rng.pick(&[SizeClass::Tiny, SizeClass::Small]);
        let db = gen_db(&mut rng, 2, sc);
        let layout = *rng.pick(&[Layout::MemOne, Layout::MemSplit, Layout::Parquet]);
        let dir = sp.join(format!("db{}", sd));
        std::fs::create_dir_all(&dir).unwrap();
        let ctx = engine_ctx(&db, layout, &mut rng, Some(&dir));
        let mut out = Vec::new();
        for qi in 0..per_db {
            let mut qrng = rng.fork(qi as u64);
            let q = shapes::mixed_query(&mut qrng, &db, Feats::all());
            let sql = q.engine_sql();
            let mut r = CaseResult::default();
            let (schema, batches) = match run_sql_batches(&ctx, &sql) {
                Ok(x) => x,
                Err(_) => {
                    r.inconclusive = Some("statement-did-not-execute".into());
                    out.push(r);
                    continue;
                }
            };
            let shape = shapes::classify(&q, &db, "");
            let replay = |what: &str| json!({"sql": sql, "layout": format!("{:?}", layout), "db": crate::sqldiff::db_json(&db, 200), "what": what});
            let mut failed = false;
            for (bi, b) in batches.iter().enumerate() {
                if let Some((kind, detail)) = schema_diff(&schema, &b.schema()) {
                    r.fail = Some((format!("result-vs-batch:{}:{}", kind, shape), format!("{} :: QueryResult.schema vs batch {}: {}", sql, bi, detail), replay(&detail)));
                    failed = true;
                    break;
                }
            }
            if !failed {
                let c2 = ctx.clone();
                let s2 = sql.clone();
                match std::panic::catch_unwind(std::panic::AssertUnwindSafe(|| c2.physical_plan(&s2))) {
                    Ok(Ok(p)) => {
                        let ps = p.schema();
                        if let Some((kind, detail)) = schema_diff(&ps, &schema) {
                            r.fail = Some((format!("plan-vs-result:{}:{}", kind, shape), format!("{} :: physical_plan().schema() vs QueryResult.schema: {}", sql, detail), replay(&detail)));
                        } else if let Some(b) = batches.first() {
                            if let Some((kind, detail)) = schema_diff(&ps, &b.schema()) {
                                r.fail = Some((format!("plan-vs-batch:{}:{}", kind, shape), format!("{} :: physical_plan().schema() vs batch: {}", sql, detail), replay(&detail)));
                            }
                        }
                        r.count("plan_schemas_compared");
                    }
                    Ok(Err(e)) => {
                        // the statement executed, so planning it again must work
                        r.fail = Some((format!("plan-fails-but-sql-runs:{}", shape), format!("{} :: ctx.sql answered but physical_plan() fails: {}", sql, e), replay("plan error")));
                    }
                    Err(_) => {
                        r.fail = Some((format!("plan-panics:{}", shape), format!("{} :: physical_plan() panicked", sql), replay("plan panic")));
                    }
                }
            }
            r.count("statements_executed");
            if !batches.is_empty() {
                r.count("statements_with_batches");
                let tv: Vec<String> = schema.fields().iter().map(|f| erase(f.data_type())).collect();
                r.nontrivial = Some(format!("{}|{}", q.skeleton(), tv.join(",")));
                let nb = batches.len() as u64;
                r.counts.push(("batches_compared".into(), nb));
            }
            if qi == 0 && sd % 16 == 0 {
                r.sample = Some(json!({"sql": sql, "layout": format!("{:?}", layout), "result_schema": schema.fields().iter().map(|f| format!("{}:{}", f.name(), erase(f.data_type()))).collect::<Vec<_>>(), "batches": batches.len()}));
            }
            out.push(r);
        }
        let _ = std::fs::remove_dir_all(&dir);
        out
    });
    let executed = rep.extra.get("statements_executed").and_then(|v| v.as_u64()).unwrap_or(0);
    rep.floor(executed * 3 >= rep.evaluations, "fewer than a third of the generated statements executed");
    rep.assumptions.push("Flight GetFlightInfo/GetSchema for a statement report physical_plan(sql).schema() (flight.rs); the Flight wire encoding itself is not exercised here".into());
    rep.finish()
}

// ---------------------------------------------------------------------------
// C32 Join reordering never introduces a cross product

use crate::canon::multiset_eq;
use crate::data::{Cell, Col, Table, Ty};
use crate::eng::{df_ctx, run_df, run_logical, run_sql, stats_of, Outcome};
use query_engine::optimizer::{JoinReorder, Optimizer, OptimizerRule};
use query_engine::planner::{BinaryOp, Expr, JoinType, LogicalPlan};
use std::collections::{BTreeMap, BTreeSet};
use std::sync::Arc;

struct JoinCase {
    db: Vec<Table>,
    sql: String,
    topology: &'static str,
    form: &'static str,
    n: usize,
    /// (alias, table) of every relation
    rels: Vec<(String, String)>,
    /// every equality as (alias.col, alias.col)
    eqs: Vec<(String, String)>,
}

fn join_table(rng: &mut Rng, name: &str, rows: usize) -> Table {
    let cols = ["id", "k0", "k1", "k2", "v"].iter().map(|c| Col { name: c.to_string(), ty: Ty::I64, nullable: *c != "id" }).collect();
    // key domains scale with the table so that join outputs stay small
    let d0 = (rows as i64).max(2);
    let d1 = (rows as i64 / 2).max(2);
    let d2 = if rows <= 8 { 3 } else { (rows as i64 / 3).max(3) };
    let mut out = Vec::new();
    for i in 0..rows {
        let k = |rng: &mut Rng, d: i64| if rng.chance(1, 9) { Cell::Null } else { Cell::Int(rng.range(0, d)) };
        out.push(vec![Cell::Int(i as i64), k(rng, d0), k(rng, d1), k(rng, d2), if rng.chance(1, 8) { Cell::Null } else { Cell::Int(rng.range(0, 10)) }]);
    }
    Table { name: name.to_string(), cols, rows: out }
}

fn gen_join_case(rng: &mut Rng) -> JoinCase {
    let n = 2 + rng.usize(6);
    let n_tables = 1 + rng.usize(n); // fewer tables than relations => self-joins
    let skew = rng.chance(1, 2);
    let db: Vec<Table> = (0..n_tables)
        .map(|i| {
            let rows = if skew { *rng.pick(&[1usize, 2, 6, 30, 120]) } else { 2 + rng.usize(7) };
            join_table(rng, &format!("r{}", i), rows)
        })
        .collect();
    let rels: Vec<(String, String)> = (0..n).map(|i| (format!("a{}", i), if i < n_tables { format!("r{}", i) } else { format!("r{}", rng.usize(n_tables)) })).collect();
    // spanning structure
    let topology = *rng.pick(&["chain", "star", "tree", "cycle", "dense"]);
    let mut edges: Vec<(usize, usize)> = Vec::new();
    for i in 1..n {
        let p = match topology {
            "chain" => i - 1,
            "star" => 0,
            _ => rng.usize(i),
        };
        edges.push((p, i));
    }
    if n >= 3 && (topology == "cycle" || topology == "dense") {
        let extra = if topology == "cycle" { 1 } else { 1 + rng.usize(n) };
        for _ in 0..extra {
            let a = rng.usize(n);
            let b = rng.usize(n);
            if a != b && !edges.contains(&(a.min(b), a.max(b))) {
                edges.push((a.min(b), a.max(b)));
            }
        }
    }
    let keys = ["k0", "k1", "k2", "id"];
    // per edge: one or two equalities (composite key)
    let mut edge_eqs: Vec<Vec<(String, String)>> = Vec::new();
    for &(a, b) in &edges {
        let mut v = Vec::new();
        let m = if rng.chance(1, 4) { 2 } else { 1 };
        let mut used: Vec<(usize, usize)> = Vec::new();
        for _ in 0..m {
            let (ka, kb) = (rng.usize(keys.len()), rng.usize(keys.len()));
            if used.contains(&(ka, kb)) {
                continue;
            }
            used.push((ka, kb));
            let (l, r) = (format!("a{}.{}", a, keys[ka]), format!("a{}.{}", b, keys[kb]));
            v.push(if rng.bool() { (l, r) } else { (r, l) });
        }
        edge_eqs.push(v);
    }
    let eqs: Vec<(String, String)> = edge_eqs.iter().flatten().cloned().collect();
    // extra predicates: single-table filters and a non-equi cross-table one
    let mut extras: Vec<String> = Vec::new();
    for i in 0..n {
        if rng.chance(1, 4) {
            extras.push(format!("a{}.v {} {}", i, rng.pick(&["<", ">=", "<>"]), rng.range(0, 10)));
        }
    }
    if n >= 2 && rng.chance(1, 4) {
        let (a, b) = (rng.usize(n), rng.usize(n));
        if a != b {
            extras.push(format!("a{}.v <= a{}.v", a, b));
        }
    }
    let select = if rng.chance(1, 4) { "COUNT(*) AS c".to_string() } else { (0..n).map(|i| format!("a{}.id AS i{}", i, i)).collect::<Vec<_>>().join(", ") };
    let form = *rng.pick(&["comma", "comma", "join-on", "join-on", "cross-join-where", "mixed"]);
    let eq_sql = |e: &(String, String)| format!("{} = {}", e.0, e.1);
    let sql = match form {
        "comma" | "cross-join-where" => {
            let sep = if form == "comma" { ", " } else { " CROSS JOIN " };
            // relations in a random order: connectivity must come from the predicates
            let mut order: Vec<usize> = (0..n).collect();
            rng.shuffle(&mut order);
            let from = order.iter().map(|&i| format!("{} AS {}", rels[i].1, rels[i].0)).collect::<Vec<_>>().join(sep);
            let mut conj: Vec<String> = eqs.iter().map(eq_sql).collect();
            conj.extend(extras.iter().cloned());
            rng.shuffle(&mut conj);
            format!("SELECT {} FROM {} WHERE {}", select, from, conj.join(" AND "))
        }
        _ => {
            // explicit joins along the spanning tree (tree edges are (parent < child) in index order);
            // non-tree edges go to WHERE (join-on) or onto the ON of the later relation (mixed)
            let mut from = format!("{} AS {}", rels[0].1, rels[0].0);
            let mut where_: Vec<String> = extras.clone();
            let mut on_of: BTreeMap<usize, Vec<String>> = BTreeMap::new();
            for (ei, &(a, b)) in edges.iter().enumerate() {
                let later = a.max(b);
                let tree_edge = ei < n - 1;
                let sqls: Vec<String> = edge_eqs[ei].iter().map(eq_sql).collect();
                if tree_edge || form == "mixed" {
                    on_of.entry(later).or_default().extend(sqls);
                } else {
                    where_.extend(sqls);
                }
            }
            for i in 1..n {
                let on = on_of.get(&i).cloned().unwrap_or_default();
                from.push_str(&format!(" JOIN {} AS {} ON {}", rels[i].1, rels[i].0, on.join(" AND ")));
            }
            if where_.is_empty() {
                format!("SELECT {} FROM {}", select, from)
            } else {
                format!("SELECT {} FROM {} WHERE {}", select, from, where_.join(" AND "))
            }
        }
    };
    JoinCase { db, sql, topology, form, n, rels, eqs }
}

#[derive(Default)]
struct PlanFacts {
    scans: Vec<String>,
    cross_joins: usize,
    keyless_inner_joins: usize,
    joins: usize,
    conjuncts: BTreeSet<String>,
}

fn flatten_and(e: &Expr, out: &mut Vec<Expr>) {
    if let Expr::BinaryExpr { left, op: BinaryOp::And, right } = e {
        flatten_and(left, out);
        flatten_and(right, out);
    } else {
        out.push(e.clone());
    }
}

fn norm_conjunct(e: &Expr) -> String {
    if let Expr::BinaryExpr { left, op: BinaryOp::Eq, right } = e {
        let (l, r) = (format!("{}", left), format!("{}", right));
        return if l <= r { format!("{} = {}", l, r) } else { format!("{} = {}", r, l) };
    }
    format!("{}", e)
}

fn walk(p: &LogicalPlan, f: &mut PlanFacts) {
    match p {
        LogicalPlan::Scan(s) => {
            f.scans.push(s.table_name.clone());
            if let Some(e) = &s.filter {
                let mut v = Vec::new();
                flatten_and(e, &mut v);
                f.conjuncts.extend(v.iter().map(norm_conjunct));
            }
        }
        LogicalPlan::Filter(n) => {
            let mut v = Vec::new();
            flatten_and(&n.predicate, &mut v);
            f.conjuncts.extend(v.iter().map(norm_conjunct));
        }
        LogicalPlan::Join(j) => {
            f.joins += 1;
            match j.join_type {
                JoinType::Cross => f.cross_joins += 1,
                JoinType::Inner if j.on.is_empty() => f.keyless_inner_joins += 1,
                _ => {}
            }
            for (l, r) in &j.on {
                let (a, b) = (format!("{}", l), format!("{}", r));
                f.conjuncts.insert(if a <= b { format!("{} = {}", a, b) } else { format!("{} = {}", b, a) });
            }
            if let Some(e) = &j.filter {
                let mut v = Vec::new();
                flatten_and(e, &mut v);
                f.conjuncts.extend(v.iter().map(norm_conjunct));
            }
        }
        _ => {}
    }
    for c in p.children() {
        walk(c, f);
    }
}

fn facts(p: &LogicalPlan) -> PlanFacts {
    let mut f = PlanFacts::default();
    walk(p, &mut f);
    f.scans.sort();
    f
}

pub fn run_c32(tier: Tier, seed: u64) -> i32 {
    let mut rep = Report::new(
        "C32",
        tier,
        seed,
        "exploration",
        "generated connected inner-join graphs of 2-7 relations (chains, stars, random trees, cycles, dense graphs; composite keys; self-joins; single-table and non-equi extra predicates) written as comma joins, CROSS JOIN + WHERE, JOIN ... ON and mixed forms, over memory tables and Parquet tables (statistics) with equal and strongly skewed row counts. Observed on the optimized LogicalPlan of the production pipeline and of JoinReorder alone (with and without statistics): no Cross join, no inner join without an equality key, the multiset of scanned tables unchanged; for JoinReorder alone every conjunct of the bound plan is found again (equalities modulo side swap) — a conjunct not found is a violation only when the reordered plan's answer also differs; every answer (pipeline, rule alone) is compared with DataFusion's. distinct = distinct (topology, form, relation count, layout, join shape of the optimized plan)",
    );
    let scratch = Scratch::new("c32");
    let n_cases = tier.pick(1500usize, 40_000);
    let seeds: Vec<u64> = (0..n_cases).map(|i| seed.wrapping_mul(5_000_011).wrapping_add(i as u64)).collect();
    let sp = scratch.path().to_path_buf();
    par_run(&mut rep, seeds, default_threads(), |sd| {
        let mut rng = Rng::new(sd ^ 0xC32);
        let case = gen_join_case(&mut rng);
        let layout = *rng.pick(&[Layout::MemOne, Layout::Parquet]);
        let dir = sp.join(format!("c{}", sd));
        std::fs::create_dir_all(&dir).unwrap();
        let ctx = engine_ctx(&case.db, layout, &mut rng, Some(&dir));
        let mut r = CaseResult::default();
        let tag = format!("{}:{}:n{}", case.topology, case.form, case.n);
        let replay = |what: &str, plan: &str| json!({"sql": case.sql, "layout": format!("{:?}", layout), "what": what, "plan": plan, "db": crate::sqldiff::db_json(&case.db, 130), "relations": case.rels, "equalities": case.eqs});
        let done = |r: CaseResult| {
            let _ = std::fs::remove_dir_all(&dir);
            vec![r]
        };
        let bound = match ctx.logical_plan(&case.sql) {
            Ok(p) => p,
            Err(e) => {
                r.inconclusive = Some(format!("bind-error:{}", e.to_string().chars().take(40).collect::<String>()));
                return done(r);
            }
        };
        let fb = facts(&bound);
        // variants: production pipeline; JoinReorder alone without and with statistics
        let stats = stats_of(&ctx);
        let mut variants: Vec<(&str, Optimizer)> = vec![("pipeline", crate::eng::production_optimizer(&ctx)), ("reorder-alone", Optimizer::with_rules(vec![Arc::new(JoinReorder::new()) as Arc<dyn OptimizerRule>]))];
        if !stats.is_empty() {
            variants.push(("reorder-alone-stats", Optimizer::with_rules(vec![Arc::new(JoinReorder::new()) as Arc<dyn OptimizerRule>]).with_table_statistics(stats.clone())));
        }
        let reference = run_df(&df_ctx(&case.db), &case.sql);
        let mut shape_sig = String::new();
        for (vname, opt) in variants {
            let plan = match std::panic::catch_unwind(std::panic::AssertUnwindSafe(|| opt.optimize(bound.clone()))) {
                Ok(Ok(p)) => p,
                Ok(Err(e)) => {
                    r.fail = Some((format!("{}:optimizer-error:{}", vname, tag), format!("{} :: {} failed: {}", case.sql, vname, e), replay("optimizer error", "")));
                    break;
                }
                Err(_) => {
                    r.fail = Some((format!("{}:optimizer-panic:{}", vname, tag), format!("{} :: {} panicked", case.sql, vname), replay("optimizer panic", "")));
                    break;
                }
            };
            let fo = facts(&plan);
            let plan_text = format!("{}", plan);
            r.count("plans_walked");
            if fo.cross_joins > 0 || fo.keyless_inner_joins > 0 {
                r.fail = Some((
                    format!("{}:cross-product:{}", vname, tag),
                    format!("{} :: {} plan has {} Cross join(s) and {} inner join(s) without an equality key although the join graph is connected", case.sql, vname, fo.cross_joins, fo.keyless_inner_joins),
                    replay("cross product", &plan_text),
                ));
                break;
            }
            if fo.scans != fb.scans {
                r.fail = Some((format!("{}:relations-changed:{}", vname, tag), format!("{} :: {} scans {:?}, the bound plan scans {:?}", case.sql, vname, fo.scans, fb.scans), replay("relations changed", &plan_text)));
                break;
            }
            // the answer
            let got = run_logical(&ctx, &plan);
            let mut answer_differs = false;
            match (&got, &reference) {
                (Outcome::Ok(a), Ok(b)) => {
                    r.count("answers_compared");
                    if multiset_eq(&a.rows, &b.rows).is_err() {
                        answer_differs = true;
                    }
                }
                (Outcome::Panic(m), _) => {
                    r.fail = Some((format!("{}:panic:{}", vname, tag), format!("{} :: {} plan panicked: {}", case.sql, vname, m), replay("panic", &plan_text)));
                    break;
                }
                _ => {
                    r.count("answers_not_comparable");
                }
            }
            let missing: Vec<&String> = if vname == "pipeline" { Vec::new() } else { fb.conjuncts.iter().filter(|c| !fo.conjuncts.contains(*c)).collect() };
            if !missing.is_empty() {
                r.count("conjuncts_not_found_structurally");
            }
            if answer_differs {
                let kind = if missing.is_empty() { "wrong-answer" } else { "predicate-dropped" };
                r.fail = Some((
                    format!("{}:{}:{}", vname, kind, tag),
                    format!("{} :: {} answer differs from the reference ({} vs {} rows); conjuncts of the bound plan not found in the plan: {:?}", case.sql, vname, got.rows().map(|x| x.len()).unwrap_or(0), reference.as_ref().map(|a| a.rows.len()).unwrap_or(0), missing),
                    replay(kind, &plan_text),
                ));
                break;
            }
            if vname == "pipeline" {
                shape_sig = join_shape(&plan);
            }
        }
        let _ = run_sql; // (ctx.sql itself is covered by the pipeline variant through run_logical)
        if fb.joins + fb.scans.len() > 1 {
            r.nontrivial = Some(format!("{}|{:?}|{}", tag, layout, shape_sig));
        }
        if sd % 256 == 0 {
            r.sample = Some(json!({"sql": case.sql, "topology": case.topology, "form": case.form, "relations": case.n, "tables_rows": case.db.iter().map(|t| t.rows.len()).collect::<Vec<_>>(), "optimized_join_shape": shape_sig}));
        }
        done(r)
    });
    let walked = rep.extra.get("plans_walked").and_then(|v| v.as_u64()).unwrap_or(0);
    let compared = rep.extra.get("answers_compared").and_then(|v| v.as_u64()).unwrap_or(0);
    rep.floor(walked >= rep.evaluations, "fewer optimized plans walked than cases generated");
    rep.floor(compared * 2 >= walked, "fewer than half of the optimized plans' answers could be compared with the reference");
    rep.assumptions.push("a conjunct that cannot be found textually in the reordered plan counts as dropped only if the answer changes too (textual matching of expressions is not complete)".into());
    rep.finish()
}

/// Join tree shape: parenthesised scan names in plan order.
fn join_shape(p: &LogicalPlan) -> String {
    match p {
        LogicalPlan::Scan(s) => s.table_name.clone(),
        LogicalPlan::Join(j) => format!("({} {} {})", join_shape(&j.left), j.on.len(), join_shape(&j.right)),
        other => {
            let c = other.children();
            if c.len() == 1 {
                join_shape(c[0])
            } else {
                format!("[{}]", c.iter().map(|x| join_shape(x)).collect::<Vec<_>>().join(" "))
            }
        }
    }
}
