//! C15 Membership view stays consistent under any discovery and probe history.
//!
//! A small state-machine model is advanced in lock step with the real
//! `Membership`; invariants are asserted on the real object after every step.
//! A concurrent phase samples the snapshot invariants while 4 threads mutate.

use crate::report::{Report, Tier};
use crate::rng::Rng;
use query_engine::distributed::membership::{Discovery, Membership, PeerStatus};
use serde_json::json;
use std::collections::BTreeMap;
use std::net::ToSocketAddrs;
use std::sync::atomic::{AtomicBool, AtomicU64, Ordering};
use std::sync::Arc;

#[derive(Clone, Debug, PartialEq)]
struct MPeer {
    status: u8, // 0 unknown 1 up 2 down
    failures: u32,
    node_id: Option<u64>,
    has_error: bool,
}

fn st(s: PeerStatus) -> u8 {
    match s {
        PeerStatus::Unknown => 0,
        PeerStatus::Up => 1,
        PeerStatus::Down => 2,
    }
}

struct Universe {
    self_addr: String,
    addrs: Vec<String>,
    is_self: Vec<bool>,
}

fn universe() -> Universe {
    let self_addr = "127.0.0.1:7001".to_string();
    // `localhost` is resolved here, by the harness, never by the code under test.
    let localhost_is_loopback = "localhost:7001"
        .to_socket_addrs()
        .map(|it| it.into_iter().any(|a| a.to_string() == "127.0.0.1:7001"))
        .unwrap_or(false);
    let mut addrs = vec![
        self_addr.clone(),
        "127.0.0.1:7002".to_string(), // port-only variant: a peer
        "192.0.2.1:7001".to_string(), // TEST-NET-1, same port: cannot be a local interface
        "192.0.2.7:9".to_string(),
        "198.51.100.2:7001".to_string(),
    ];
    let mut is_self = vec![true, false, false, false, false];
    if localhost_is_loopback {
        addrs.push("localhost:7001".to_string());
        is_self.push(true);
    }
    Universe { self_addr, addrs, is_self }
}

fn check_view(m: &Membership, u: &Universe, model: &BTreeMap<String, MPeer>) -> Result<(), String> {
    let members = m.members();
    let selfs: Vec<_> = members.iter().filter(|x| x.is_self).collect();
    if selfs.len() != 1 {
        return Err(format!("view lists self {} times", selfs.len()));
    }
    if selfs[0].address != u.self_addr {
        return Err(format!("self listed as {}", selfs[0].address));
    }
    for w in members.windows(2) {
        if w[0].address >= w[1].address {
            return Err(format!("addresses not sorted/unique: {} then {}", w[0].address, w[1].address));
        }
    }
    let peers: Vec<_> = members.iter().filter(|x| !x.is_self).collect();
    for p in &peers {
        if let Some(i) = u.addrs.iter().position(|a| *a == p.address) {
            if u.is_self[i] {
                return Err(format!("self address {} listed as a peer", p.address));
            }
        }
    }
    let got: Vec<&String> = peers.iter().map(|p| &p.address).collect();
    let want: Vec<&String> = model.keys().collect();
    if got != want {
        return Err(format!("peer set {:?} != model {:?}", got, want));
    }
    if m.peer_addresses().iter().collect::<Vec<_>>() != want {
        return Err("peer_addresses() disagrees with members()".into());
    }
    for p in peers {
        let mp = &model[&p.address];
        if st(p.status) != mp.status || p.consecutive_failures != mp.failures || p.node_id != mp.node_id || p.last_error.is_some() != mp.has_error {
            return Err(format!(
                "peer {} state (status {:?}, failures {}, node_id {:?}, err {}) != model {:?}",
                p.address,
                p.status,
                p.consecutive_failures,
                p.node_id,
                p.last_error.is_some(),
                mp
            ));
        }
    }
    Ok(())
}

pub fn run(tier: Tier, seed: u64) -> i32 {
    let mut rep = Report::new(
        "C15",
        tier,
        seed,
        "exploration",
        "random histories of set_members / record_up / record_down / record_resolve_error over a 5-6 address universe (self verbatim, self via localhost when the harness's own resolver says so, port-only variant, TEST-NET addresses), a lock-step model checked after every step; plus a concurrent phase with a sampling monitor. distinct = distinct (operation-kind sequence) histories of length >= 3",
    );
    let u = universe();
    rep.set("universe", json!({"addresses": u.addrs, "is_self": u.is_self}));
    let mut rng = Rng::new(seed ^ 0xC15);
    let histories = tier.pick(6_000, 150_000);
    let max_len = tier.pick(30, 60);
    let mut steps_total = 0u64;
    for h in 0..histories {
        let m = Membership::new(42, u.self_addr.clone(), Discovery::Static(vec![]));
        let mut model: BTreeMap<String, MPeer> = BTreeMap::new();
        let mut gen = m.generation();
        let len = 1 + rng.usize(max_len);
        let mut trace: Vec<String> = Vec::new();
        let mut kinds: Vec<u8> = Vec::new();
        let mut failed = false;
        for _ in 0..len {
            let op = rng.below(10);
            let before_keys: Vec<String> = model.keys().cloned().collect();
            let mut must_advance = false;
            match op {
                0..=3 => {
                    // set_members with a random subset (with duplicates, any order)
                    let mut list: Vec<String> = Vec::new();
                    for a in &u.addrs {
                        if rng.bool() {
                            list.push(a.clone());
                            if rng.chance(1, 5) {
                                list.push(a.clone());
                            }
                        }
                    }
                    if rng.chance(1, 6) {
                        // re-resolve exactly the same set
                        list = before_keys.clone();
                        if rng.bool() {
                            list.push(u.self_addr.clone());
                        }
                    }
                    rng.shuffle(&mut list);
                    trace.push(format!("set_members({:?})", list));
                    kinds.push(0);
                    let changes = m.set_members(list.clone());
                    let mut incoming: Vec<String> = list
                        .iter()
                        .filter(|a| {
                            let i = u.addrs.iter().position(|x| x == *a).unwrap();
                            !u.is_self[i]
                        })
                        .cloned()
                        .collect();
                    incoming.sort();
                    incoming.dedup();
                    let mut next = BTreeMap::new();
                    for a in &incoming {
                        let rec = model.get(a).cloned().unwrap_or(MPeer { status: 0, failures: 0, node_id: None, has_error: false });
                        next.insert(a.clone(), rec);
                    }
                    let after_keys: Vec<String> = next.keys().cloned().collect();
                    must_advance = after_keys != before_keys;
                    if changes.is_empty() == must_advance {
                        rep.fail("changes-report", &format!("set_members reported {:?} but the member set {} change", changes, if must_advance { "did" } else { "did not" }), json!({"trace": trace}));
                        failed = true;
                    }
                    model = next;
                    if !m.resolved() {
                        rep.fail("resolved-flag", "resolved() false after set_members", json!({"trace": trace}));
                        failed = true;
                    }
                }
                4..=5 => {
                    let a = rng.pick(&u.addrs).clone();
                    let nid = if rng.bool() { Some(rng.below(5)) } else { None };
                    trace.push(format!("record_up({}, {:?})", a, nid));
                    kinds.push(1);
                    m.record_up(&a, nid, None);
                    if let Some(p) = model.get_mut(&a) {
                        p.status = 1;
                        p.failures = 0;
                        p.has_error = false;
                        if nid.is_some() {
                            p.node_id = nid;
                        }
                    }
                }
                6..=7 => {
                    let a = rng.pick(&u.addrs).clone();
                    trace.push(format!("record_down({})", a));
                    kinds.push(2);
                    m.record_down(&a, "probe failed");
                    if let Some(p) = model.get_mut(&a) {
                        p.status = 2;
                        p.failures = p.failures.saturating_add(1);
                        p.has_error = true;
                    }
                }
                _ => {
                    trace.push("record_resolve_error".into());
                    kinds.push(3);
                    m.record_resolve_error("dns blip");
                    if m.last_resolve_error().is_none() {
                        rep.fail("resolve-error-lost", "last_resolve_error() is None after record_resolve_error", json!({"trace": trace}));
                        failed = true;
                    }
                }
            }
            steps_total += 1;
            let g2 = m.generation();
            if g2 < gen {
                rep.fail("generation-decreased", &format!("generation {} -> {}", gen, g2), json!({"trace": trace}));
                failed = true;
            }
            if must_advance && g2 <= gen {
                rep.fail("generation-stuck", &format!("member set changed but generation stayed {}", gen), json!({"trace": trace}));
                failed = true;
            }
            gen = g2;
            if let Err(e) = check_view(&m, &u, &model) {
                let sig = if e.contains("state (status") {
                    "probe-state"
                } else if e.contains("peer set") {
                    "peer-set"
                } else if e.contains("self") {
                    "self-listing"
                } else {
                    "view"
                };
                rep.fail(sig, &e, json!({"trace": trace}));
                failed = true;
            }
            if failed {
                break;
            }
        }
        rep.eval();
        if kinds.len() >= 3 {
            rep.nontrivial(&kinds);
        }
        if h < 2 {
            rep.sample(json!({"history": trace, "final_generation": gen, "final_peers": model.keys().collect::<Vec<_>>()}));
        }
    }
    rep.set("sequential_steps", json!(steps_total));

    // --- concurrent phase: mutators + sampler ---------------------------------
    let rounds = tier.pick(20, 300);
    let mut samples_seen = 0u64;
    let mut distinct_views = std::collections::HashSet::new();
    for r in 0..rounds {
        let m = Arc::new(Membership::new(42, u.self_addr.clone(), Discovery::Static(vec![])));
        let stop = Arc::new(AtomicBool::new(false));
        let bad: Arc<std::sync::Mutex<Option<String>>> = Arc::new(std::sync::Mutex::new(None));
        let nsamples = Arc::new(AtomicU64::new(0));
        let mut hs = Vec::new();
        for t in 0..4u64 {
            let m = m.clone();
            let addrs = u.addrs.clone();
            let mut rng = Rng::new(seed ^ (r as u64) << 8 ^ t);
            hs.push(std::thread::spawn(move || {
                for _ in 0..400 {
                    match rng.below(4) {
                        0 => {
                            let list: Vec<String> = addrs.iter().filter(|_| rng.bool()).cloned().collect();
                            m.set_members(list);
                        }
                        1 => m.record_up(rng.pick(&addrs[..]).as_str(), Some(t), None),
                        2 => m.record_down(rng.pick(&addrs[..]).as_str(), "x"),
                        _ => m.record_resolve_error("e"),
                    }
                    if rng.chance(1, 8) {
                        std::thread::yield_now();
                    }
                }
            }));
        }
        let sampler = {
            let m = m.clone();
            let stop = stop.clone();
            let bad = bad.clone();
            let nsamples = nsamples.clone();
            let self_addr = u.self_addr.clone();
            let uaddrs = u.addrs.clone();
            let uself = u.is_self.clone();
            std::thread::spawn(move || {
                let mut last_gen = 0u64;
                let mut views = std::collections::HashSet::new();
                while !stop.load(Ordering::Relaxed) {
                    let g = m.generation();
                    if g < last_gen {
                        *bad.lock().unwrap() = Some(format!("generation went {} -> {}", last_gen, g));
                    }
                    last_gen = g;
                    let ms = m.members();
                    let n_self = ms.iter().filter(|x| x.is_self).count();
                    if n_self != 1 || !ms.iter().any(|x| x.is_self && x.address == self_addr) {
                        *bad.lock().unwrap() = Some(format!("self listed {} times", n_self));
                    }
                    if ms.windows(2).any(|w| w[0].address >= w[1].address) {
                        *bad.lock().unwrap() = Some("addresses not sorted/unique".into());
                    }
                    for x in ms.iter().filter(|x| !x.is_self) {
                        if let Some(i) = uaddrs.iter().position(|a| *a == x.address) {
                            if uself[i] {
                                *bad.lock().unwrap() = Some(format!("self address {} listed as peer", x.address));
                            }
                        }
                    }
                    views.insert(ms.iter().map(|x| (x.address.clone(), st(x.status))).collect::<Vec<_>>());
                    nsamples.fetch_add(1, Ordering::Relaxed);
                }
                views
            })
        };
        for h in hs {
            let _ = h.join();
        }
        stop.store(true, Ordering::Relaxed);
        let views = sampler.join().unwrap_or_default();
        for v in views {
            distinct_views.insert(v);
        }
        samples_seen += nsamples.load(Ordering::Relaxed);
        rep.eval();
        let bad_msg = bad.lock().unwrap().clone();
        if let Some(e) = bad_msg {
            rep.fail("concurrent-view", &e, json!({"round": r}));
        }
    }
    rep.set("concurrent_rounds", json!(rounds));
    rep.set("concurrent_snapshots_checked", json!(samples_seen));
    rep.set("concurrent_distinct_views_observed", json!(distinct_views.len()));
    rep.floor(samples_seen > 0, "concurrent sampler observed no snapshot");
    rep.assumptions.push("hostnames are resolved by the harness's own to_socket_addrs call; numeric TEST-NET addresses cannot be local interfaces".into());
    rep.finish()
}
