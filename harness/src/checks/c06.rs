//! C06 Compiled predicates are indistinguishable from the interpreter.
//!
//! In-process half: for expressions generated inside (and just outside) the
//! compiled subset and hostile batches, `CompiledPredicate::evaluate` must
//! equal `evaluate_expr` — validity everywhere, values where valid.
//! Process half: the same queries under QE_COMPILE=0 and default (two worker
//! processes, the switch is latched per process) must return the same rows.

use crate::report::{Report, Tier};
use crate::rng::Rng;
use arrow::array::*;
use arrow::datatypes::{DataType, Field, Schema};
use arrow::record_batch::RecordBatch;
use ordered_float::OrderedFloat;
use query_engine::physical::compiled_expr::CompiledPredicate;
use query_engine::physical::operators::evaluate_expr;
use query_engine::planner::{BinaryOp, Column, Expr, ScalarValue, UnaryOp};
use serde_json::json;
use std::sync::Arc;

const FS: [f64; 14] = [f64::NAN, 0.0, -0.0, f64::INFINITY, f64::NEG_INFINITY, f64::MIN_POSITIVE / 4.0, -f64::MIN_POSITIVE / 4.0, 1.0, -1.0, 0.05, 7.0, 1e300, -1e300, 9007199254740993.0];
const IS: [i64; 10] = [i64::MIN, i64::MAX, 0, 1, -1, 3, 9007199254740993, -9007199254740993, 24, 100];
const JS: [i32; 8] = [i32::MIN, i32::MAX, 0, 1, -1, 9100, 9400, 10000];

fn batch(rng: &mut Rng, n: usize) -> RecordBatch {
    let schema = Arc::new(Schema::new(vec![
        Field::new("f", DataType::Float64, true),
        Field::new("g", DataType::Float64, true),
        Field::new("k", DataType::Int64, true),
        Field::new("m", DataType::Int64, true),
        Field::new("j", DataType::Int32, true),
        Field::new("d", DataType::Date32, true),
    ]));
    let nullp = *rng.pick(&[0u64, 0, 10, 50, 100]);
    let fcol = |rng: &mut Rng| -> ArrayRef {
        Arc::new(Float64Array::from(
            (0..n).map(|_| if rng.below(100) < nullp { None } else if rng.chance(1, 3) { Some(*rng.pick(&FS)) } else { Some(rng.range(-80, 80) as f64 / 8.0) }).collect::<Vec<_>>(),
        ))
    };
    let icol = |rng: &mut Rng| -> ArrayRef {
        Arc::new(Int64Array::from((0..n).map(|_| if rng.below(100) < nullp { None } else if rng.chance(1, 3) { Some(*rng.pick(&IS)) } else { Some(rng.range(-5, 30)) }).collect::<Vec<_>>()))
    };
    let cols: Vec<ArrayRef> = vec![
        fcol(rng),
        fcol(rng),
        icol(rng),
        icol(rng),
        Arc::new(Int32Array::from((0..n).map(|_| if rng.below(100) < nullp { None } else if rng.chance(1, 3) { Some(*rng.pick(&JS)) } else { Some(rng.range(-5, 30) as i32) }).collect::<Vec<_>>())),
        Arc::new(Date32Array::from((0..n).map(|_| if rng.below(100) < nullp { None } else { Some(*rng.pick(&JS)) }).collect::<Vec<_>>())),
    ];
    RecordBatch::try_new(schema, cols).unwrap()
}

fn col(n: &str) -> Expr {
    Expr::Column(Column::new(n))
}
fn bin(l: Expr, op: BinaryOp, r: Expr) -> Expr {
    Expr::BinaryExpr { left: Box::new(l), op, right: Box::new(r) }
}

fn num(rng: &mut Rng, depth: u32) -> Expr {
    if depth == 0 || rng.chance(1, 2) {
        return match rng.below(3) {
            0 => col("f"),
            1 => col("g"),
            _ => Expr::Literal(ScalarValue::Float64(OrderedFloat(if rng.chance(1, 3) { *rng.pick(&FS) } else { rng.range(-40, 40) as f64 / 8.0 }))),
        };
    }
    let op = *rng.pick(&[BinaryOp::Add, BinaryOp::Subtract, BinaryOp::Multiply, BinaryOp::Divide]);
    bin(num(rng, depth - 1), op, num(rng, depth - 1))
}

fn cmp_leaf(rng: &mut Rng) -> Expr {
    let op = *rng.pick(&[BinaryOp::Eq, BinaryOp::NotEq, BinaryOp::Lt, BinaryOp::LtEq, BinaryOp::Gt, BinaryOp::GtEq]);
    let (l, r) = match rng.below(6) {
        0 | 1 => (num(rng, 2), num(rng, 1)),
        2 => (col("k"), if rng.bool() { col("m") } else { Expr::Literal(ScalarValue::Int64(*rng.pick(&IS))) }),
        3 => (col("j"), Expr::Literal(ScalarValue::Int32(*rng.pick(&JS)))),
        4 => (col("d"), Expr::Literal(ScalarValue::Date32(*rng.pick(&JS)))),
        // just outside the subset (mixed types): must decline, not miscompile
        _ => (col("k"), Expr::Literal(ScalarValue::Float64(OrderedFloat(1.5)))),
    };
    if rng.chance(1, 4) {
        bin(r, op, l)
    } else {
        bin(l, op, r)
    }
}

fn boolean(rng: &mut Rng, depth: u32) -> Expr {
    if depth == 0 || rng.chance(1, 4) {
        if rng.chance(1, 6) {
            let c = *rng.pick(&["f", "g"]);
            return Expr::Between {
                expr: Box::new(col(c)),
                low: Box::new(Expr::Literal(ScalarValue::Float64(OrderedFloat(rng.range(-20, 20) as f64 / 4.0)))),
                high: Box::new(Expr::Literal(ScalarValue::Float64(OrderedFloat(*rng.pick(&FS))))),
                negated: rng.chance(1, 3),
            };
        }
        return cmp_leaf(rng);
    }
    match rng.below(3) {
        0 => bin(boolean(rng, depth - 1), BinaryOp::And, boolean(rng, depth - 1)),
        1 => bin(boolean(rng, depth - 1), BinaryOp::Or, boolean(rng, depth - 1)),
        _ => Expr::UnaryExpr { op: UnaryOp::Not, expr: Box::new(boolean(rng, depth - 1)) },
    }
}

/// A conjunction chain of `n` comparison leaves (register-limit probing).
fn chain(rng: &mut Rng, n: usize) -> Expr {
    let mut e = cmp_leaf(rng);
    for _ in 1..n {
        e = bin(e, if rng.bool() { BinaryOp::And } else { BinaryOp::Or }, cmp_leaf(rng));
    }
    e
}

pub fn run(tier: Tier, seed: u64) -> i32 {
    let mut rep = Report::new(
        "C06",
        tier,
        seed,
        "exploration",
        "expressions generated inside the compiled subset (f64 arithmetic, same-type comparisons over Float64/Int64/Int32/Date32 with literals on either side, AND/OR/NOT, [NOT] BETWEEN, AND/OR chains up to and past the 24-register limit) and just outside it (mixed-type comparison); batches of lengths {0,1,7,8,9,1023,1024,1025,2048,3000} at slice offsets {0,1,3,1021}, NULL densities 0/10/50/100%, NaN, +-0.0, +-inf, subnormals, 2^53+1, i64/i32 extremes; compiled mask vs interpreter mask: validity everywhere, values where valid. distinct = distinct (expression, batch shape) pairs that compiled and were evaluated by the fused path",
    );
    let mut rng = Rng::new(seed ^ 0xC06);
    let n_expr = tier.pick(12_000, 400_000);
    let lens = [0usize, 1, 7, 8, 9, 1023, 1024, 1025, 2048, 3000];
    let (mut compiled_n, mut declined, mut per_batch_decline, mut compared) = (0u64, 0u64, 0u64, 0u64);
    // a pool of batches reused across expressions
    let mut pool: Vec<(RecordBatch, String)> = Vec::new();
    for &l in &lens {
        for _ in 0..tier.pick(2, 5) {
            let off = *rng.pick(&[0usize, 0, 1, 3, 1021]);
            let b = batch(&mut rng, l + off);
            let sl = b.slice(off.min(b.num_rows()), l.min(b.num_rows() - off.min(b.num_rows())));
            pool.push((sl, format!("len{}+off{}", l, off)));
        }
    }
    for ei in 0..n_expr {
        let e = match rng.below(10) {
            0 => {
                let n = *rng.pick(&[20usize, 23, 24, 25, 30]);
                chain(&mut rng, n)
            }
            _ => boolean(&mut rng, 3),
        };
        let schema = pool[0].0.schema();
        let Some(c) = CompiledPredicate::compile(&e, &schema) else {
            declined += 1;
            rep.eval();
            continue;
        };
        compiled_n += 1;
        for _ in 0..tier.pick(3, 4) {
            let (b, bname) = &pool[rng.usize(pool.len())];
            rep.eval();
            let got = match std::panic::catch_unwind(std::panic::AssertUnwindSafe(|| c.evaluate(b))) {
                Ok(g) => g,
                Err(_) => {
                    rep.fail("compiled-panic", &format!("compiled evaluate panicked on {} ({})", e, bname), json!({"expr": format!("{}", e), "batch": bname}));
                    continue;
                }
            };
            let Some(got) = got else {
                per_batch_decline += 1;
                continue;
            };
            let want = match evaluate_expr(b, &e) {
                Ok(w) => w,
                Err(err) => {
                    rep.fail("interpreter-error-compiled-ok", &format!("interpreter failed ({}) where the compiled path answered: {}", err, e), json!({"expr": format!("{}", e)}));
                    continue;
                }
            };
            let want = want.as_any().downcast_ref::<BooleanArray>().unwrap().clone();
            compared += 1;
            rep.nontrivial(&(format!("{}", e), bname));
            if got.len() != want.len() {
                rep.fail("length", &format!("mask length {} vs {}", got.len(), want.len()), json!({"expr": format!("{}", e), "batch": bname}));
                continue;
            }
            let mut bad: Option<(usize, String)> = None;
            for i in 0..got.len() {
                if got.is_valid(i) != want.is_valid(i) {
                    bad = Some((i, format!("validity {} vs interpreter {}", got.is_valid(i), want.is_valid(i))));
                    break;
                }
                if got.is_valid(i) && got.value(i) != want.value(i) {
                    bad = Some((i, format!("value {} vs interpreter {}", got.value(i), want.value(i))));
                    break;
                }
            }
            if let Some((i, what)) = bad {
                let row = crate::canon::batches_to_rows(&[b.slice(i, 1)]);
                // explanation predicate: the sign of a NaN produced BY ARITHMETIC
                // is not specified (operand order decides it), and totalOrder
                // sorts -NaN below -inf but +NaN above +inf.
                let one = b.slice(i, 1);
                let mut subs = Vec::new();
                arith_subexprs(&e, &mut subs);
                let arith_nan = subs.iter().any(|s| match evaluate_expr(&one, s) {
                    Ok(a) => a.as_any().downcast_ref::<Float64Array>().map(|f| f.len() == 1 && f.is_valid(0) && f.value(0).is_nan()).unwrap_or(false),
                    Err(_) => false,
                });
                let sig = if what.starts_with("validity") {
                    "validity-bit"
                } else if arith_nan {
                    "arithmetic-nan-sign"
                } else {
                    "value-bit"
                };
                rep.fail(
                    sig,
                    &format!("{} at row {} of {} for {} ; row = {}", what, i, bname, e, crate::canon::fmt_row(&row[0])),
                    json!({"expr": format!("{}", e), "batch": bname, "row_index": i, "row(f,g,k,m,j,d)": crate::canon::rows_json(&row, 1), "compiled": if got.is_valid(i) { json!(got.value(i)) } else { json!(null) }, "interpreted": if want.is_valid(i) { json!(want.value(i)) } else { json!(null) }}),
                );
            }
            if ei % 500 == 0 && compared % 3 == 0 {
                rep.sample(json!({"expr": format!("{}", e), "batch": bname, "rows": got.len(), "true_rows": (0..got.len()).filter(|&i| got.is_valid(i) && got.value(i)).count()}));
            }
        }
    }
    rep.set("expressions", json!({"generated": n_expr, "compiled": compiled_n, "declined_at_compile": declined, "declined_per_batch": per_batch_decline, "mask_pairs_compared": compared}));
    rep.floor(compiled_n * 2 > n_expr as u64, "fewer than half of the generated expressions compiled");
    rep.floor(compared > 100, "too few fused evaluations were compared");
    crate::eng::take_panics();
    // ---- process half: QE_COMPILE=0 vs default ----------------------------
    crate::checks::cfgdiff::run_c06_process_half(&mut rep, tier, seed);
    rep.finish()
}

fn arith_subexprs(e: &Expr, out: &mut Vec<Expr>) {
    match e {
        Expr::BinaryExpr { left, op, right } => {
            if matches!(op, BinaryOp::Add | BinaryOp::Subtract | BinaryOp::Multiply | BinaryOp::Divide) {
                out.push(e.clone());
            }
            arith_subexprs(left, out);
            arith_subexprs(right, out);
        }
        Expr::UnaryExpr { expr, .. } => arith_subexprs(expr, out),
        Expr::Between { expr, low, high, .. } => {
            arith_subexprs(expr, out);
            arith_subexprs(low, out);
            arith_subexprs(high, out);
        }
        _ => {}
    }
}
