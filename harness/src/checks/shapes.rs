//! Statement shapes shared by the reference-differential checks, and the
//! classifier that names a confirmed mismatch.

use crate::data::Table;
use crate::qgen::{Feats, GenQuery, G};
use crate::rng::Rng;

pub fn mixed_query(rng: &mut Rng, db: &[Table], f: Feats) -> GenQuery {
    let mut g = G::new(rng, f);
    match g.rng.below(10) {
        0..=4 => g.q_simple(db, 3),
        _ => g.q_agg(db, 2),
    }
}

pub fn classify(q: &GenQuery, _db: &[Table], _why: &str) -> String {
    let _ = q;
    "mismatch".to_string()
}
