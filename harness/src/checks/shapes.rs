//! Statement shapes shared by the reference-differential checks, and the
//! classifier that names a confirmed mismatch.

use crate::canon::SortKey;
use crate::data::{Table, Ty};
use crate::qgen::{Feats, GenQuery, Rel, G};
use crate::rng::Rng;

pub fn mixed_query(rng: &mut Rng, db: &[Table], f: Feats) -> GenQuery {
    let mut g = G::new(rng, f);
    match g.rng.below(20) {
        0..=7 => g.q_simple(db, 3),
        8..=14 => g.q_agg(db, 2),
        15 => q_subquery(&mut g, db),
        16 => q_setop(&mut g, db, false),
        17 => q_cte(&mut g, db).0,
        18 => q_window(&mut g, db),
        _ => g.q_simple(db, 2),
    }
}

pub fn classify(q: &GenQuery, _db: &[Table], _why: &str) -> String {
    // coarse: the construct families present in the statement
    let mut t: Vec<&str> = Vec::new();
    for k in ["setop", "subquery", "cte", "window", "grouping-sets", "values", "FULL JOIN", "RIGHT JOIN", "LEFT JOIN", "CROSS JOIN", "distinct", "group-by", "global-agg", "having", "limit"] {
        if q.tags.iter().any(|x| x == k) {
            t.push(k);
        }
    }
    if t.is_empty() {
        "mismatch:select".into()
    } else {
        format!("mismatch:{}", t.join("+"))
    }
}

fn tag(g: &mut G, t: &str) {
    if !g.tags.iter().any(|x| x == t) {
        g.tags.push(t.to_string());
    }
}

fn pick_table<'a>(g: &mut G, db: &'a [Table]) -> &'a Table {
    &db[g.rng.usize(db.len())]
}

/// One operand of a set operation: `SELECT <k cols> FROM t [WHERE]`, columns
/// drawn from small domains so that duplicates and NULLs are frequent.
fn setop_operand(g: &mut G, db: &[Table], col_tys: &[Ty], alias: &str) -> String {
    let t = pick_table(g, db);
    let rel = Rel::of(t, alias);
    let mut items = Vec::new();
    for (i, ty) in col_tys.iter().enumerate() {
        let c = match ty {
            Ty::Str => "s0",
            Ty::Date => "d0",
            Ty::Bool => "b0",
            _ => *g.rng.pick(&["i0", "i1", "i1", "id"]),
        };
        let e = if matches!(ty, Ty::I64) && g.rng.chance(1, 5) { format!("({}.{} - 1)", alias, c) } else { format!("{}.{}", alias, c) };
        items.push(format!("{} AS c{}", e, i));
    }
    let mut s = format!("SELECT {} FROM {} AS {}", items.join(", "), t.name, alias);
    if g.rng.chance(1, 3) {
        s.push_str(&format!(" WHERE {}", g.atom(&[rel], 0)));
    }
    s
}

pub struct SetOpParts {
    pub left: String,
    pub right: String,
    pub op: &'static str,
    pub ncols: usize,
}

pub fn q_setop_parts(g: &mut G, db: &[Table]) -> SetOpParts {
    let ncols = 1 + g.rng.usize(3);
    let col_tys: Vec<Ty> = (0..ncols).map(|_| *g.rng.pick(&[Ty::I64, Ty::I64, Ty::Str, Ty::Date])).collect();
    let op = *g.rng.pick(&["UNION", "UNION ALL", "INTERSECT", "INTERSECT ALL", "EXCEPT", "EXCEPT ALL"]);
    SetOpParts { left: setop_operand(g, db, &col_tys, "a0"), right: setop_operand(g, db, &col_tys, "b0"), op, ncols }
}

/// Set operation (optionally chained / wrapped). `allow_all=false` keeps to
/// the forms SQLite can arbitrate.
pub fn q_setop(g: &mut G, db: &[Table], allow_all: bool) -> GenQuery {
    let mut q = GenQuery::default();
    tag(g, "setop");
    let mut p = q_setop_parts(g, db);
    if !allow_all && p.op.ends_with("ALL") && p.op != "UNION ALL" {
        p.op = if p.op.starts_with("INTERSECT") { "INTERSECT" } else { "EXCEPT" };
    }
    tag(g, p.op);
    let core = match g.rng.below(4) {
        0 => {
            // inside a derived table with an outer aggregate or filter
            tag(g, "setop-derived");
            format!("SELECT x.c0 AS c0, COUNT(*) AS c1 FROM ({} {} {}) AS x GROUP BY x.c0", p.left, p.op, p.right)
        }
        _ => format!("{} {} {}", p.left, p.op, p.right),
    };
    let ncols = if core.starts_with("SELECT x.c0") { 2 } else { p.ncols };
    g.decorate(core, ncols, &mut q);
    q.tags = g.tags.clone();
    q
}

/// WHERE/SELECT-list subqueries: [NOT] EXISTS, [NOT] IN, scalar; correlated or not.
pub fn q_subquery(g: &mut G, db: &[Table]) -> GenQuery {
    let mut q = GenQuery::default();
    tag(g, "subquery");
    let t0 = pick_table(g, db);
    let t1 = pick_table(g, db);
    let r0 = Rel::of(t0, "r0");
    let r1 = Rel::of(t1, "r1");
    let ocol = *g.rng.pick(&["i0", "i1", "j0", "id"]);
    let icol = *g.rng.pick(&["i0", "i1", "id"]);
    let correlated = g.rng.bool();
    let corr = if correlated { format!("r1.{} = r0.{}", *g.rng.pick(&["i0", "i1"]), *g.rng.pick(&["i0", "i1", "id"])) } else { String::new() };
    let extra = if g.rng.chance(1, 3) { g.atom(&[r1.clone()], 0) } else { String::new() };
    let wh = |parts: &[&String]| -> String {
        let v: Vec<&str> = parts.iter().filter(|s| !s.is_empty()).map(|s| s.as_str()).collect();
        if v.is_empty() {
            String::new()
        } else {
            format!(" WHERE {}", v.join(" AND "))
        }
    };
    let kind = g.rng.below(7);
    let (pred, sel_extra): (String, Option<String>) = match kind {
        0 => {
            tag(g, "exists");
            (format!("EXISTS (SELECT 1 FROM {} AS r1{})", t1.name, wh(&[&corr, &extra])), None)
        }
        1 => {
            tag(g, "not-exists");
            (format!("NOT EXISTS (SELECT 1 FROM {} AS r1{})", t1.name, wh(&[&corr, &extra])), None)
        }
        2 => {
            tag(g, "in-subquery");
            (format!("r0.{} IN (SELECT r1.{} FROM {} AS r1{})", ocol, icol, t1.name, wh(&[&corr, &extra])), None)
        }
        3 => {
            tag(g, "not-in-subquery");
            (format!("r0.{} NOT IN (SELECT r1.{} FROM {} AS r1{})", ocol, icol, t1.name, wh(&[&corr, &extra])), None)
        }
        4 => {
            tag(g, "scalar-subquery-where");
            let agg = *g.rng.pick(&["MAX", "MIN", "SUM", "COUNT", "AVG"]);
            (format!("r0.{} {} (SELECT {}(r1.{}) FROM {} AS r1{})", ocol, g.cmp_op(), agg, icol, t1.name, wh(&[&corr, &extra])), None)
        }
        5 => {
            tag(g, "scalar-subquery-select");
            let agg = *g.rng.pick(&["MAX", "MIN", "SUM", "COUNT"]);
            (String::new(), Some(format!("(SELECT {}(r1.{}) FROM {} AS r1{})", agg, icol, t1.name, wh(&[&corr, &extra]))))
        }
        _ => {
            tag(g, "in-subquery-select");
            (String::new(), Some(format!("(r0.{} IN (SELECT r1.{} FROM {} AS r1{}))", ocol, icol, t1.name, wh(&[&extra]))))
        }
    };
    if correlated {
        tag(g, "correlated");
    }
    let mut items = vec!["r0.id AS c0".to_string(), format!("r0.{} AS c1", ocol)];
    if let Some(e) = sel_extra {
        items.push(format!("{} AS c2", e));
    }
    let mut core = format!("SELECT {} FROM {} AS r0", items.join(", "), t0.name);
    let mut conds: Vec<String> = Vec::new();
    if !pred.is_empty() {
        conds.push(pred);
    }
    if g.rng.chance(1, 3) {
        let a = g.atom(&[r0.clone()], 0);
        if g.rng.bool() && !conds.is_empty() {
            tag(g, "subquery-under-or");
            let p = conds.pop().unwrap();
            conds.push(format!("({} OR {})", p, a));
        } else {
            conds.push(a);
        }
    }
    if !conds.is_empty() {
        core.push_str(&format!(" WHERE {}", conds.join(" AND ")));
    }
    let n = items.len();
    g.decorate(core, n, &mut q);
    q.tags = g.tags.clone();
    q
}

/// CTE statement and its textually inlined equivalent.
pub fn q_cte(g: &mut G, db: &[Table]) -> (GenQuery, String) {
    let mut q = GenQuery::default();
    tag(g, "cte");
    let t = pick_table(g, db);
    let rel = Rel::of(t, "s");
    let kind = g.rng.below(5);
    let body1 = if g.rng.bool() {
        format!("SELECT s.i0 AS k, s.i1 AS v, s.f0 AS f FROM {} AS s WHERE {}", t.name, g.atom(&[rel.clone()], 0))
    } else {
        tag(g, "cte-aggregate");
        format!("SELECT s.i0 AS k, SUM(s.i1) AS v, SUM(s.f0) AS f FROM {} AS s GROUP BY s.i0", t.name)
    };
    let t2 = pick_table(g, db);
    let rel2 = Rel::of(t2, "s");
    let body2 = format!("SELECT s.i1 AS k, s.id AS v, s.f0 AS f FROM {} AS s WHERE {}", t2.name, g.atom(&[rel2], 0));
    let (sql, inlined, n): (String, String, usize) = match kind {
        0 => (
            format!("WITH c AS ({}) SELECT x.k AS c0, x.v AS c1 FROM c AS x", body1),
            format!("SELECT x.k AS c0, x.v AS c1 FROM ({}) AS x", body1),
            2,
        ),
        1 => {
            tag(g, "cte-twice");
            (
                format!("WITH c AS ({}) SELECT x.k AS c0, y.v AS c1, x.f AS c2 FROM c AS x JOIN c AS y ON x.k = y.k", body1),
                format!("SELECT x.k AS c0, y.v AS c1, x.f AS c2 FROM ({b}) AS x JOIN ({b}) AS y ON x.k = y.k", b = body1),
                3,
            )
        }
        2 => {
            tag(g, "cte-two");
            (
                format!("WITH c AS ({}), d AS ({}) SELECT x.k AS c0, y.v AS c1 FROM c AS x JOIN d AS y ON x.k = y.k", body1, body2),
                format!("SELECT x.k AS c0, y.v AS c1 FROM ({}) AS x JOIN ({}) AS y ON x.k = y.k", body1, body2),
                2,
            )
        }
        3 => {
            // nested WITH that reuses the outer name with another body
            tag(g, "cte-shadow");
            (
                format!("WITH c AS ({}) SELECT x.k AS c0, y.k AS c1 FROM c AS x JOIN (WITH c AS ({}) SELECT k FROM c) AS y ON x.k = y.k", body1, body2),
                format!("SELECT x.k AS c0, y.k AS c1 FROM ({}) AS x JOIN (SELECT k FROM ({}) AS c) AS y ON x.k = y.k", body1, body2),
                2,
            )
        }
        _ => {
            tag(g, "cte-in-subquery");
            (
                format!("WITH c AS ({}) SELECT r0.id AS c0 FROM {} AS r0 WHERE r0.i0 IN (SELECT k FROM c) AND EXISTS (SELECT 1 FROM c AS z WHERE z.k = r0.i1)", body1, t.name),
                format!("SELECT r0.id AS c0 FROM {} AS r0 WHERE r0.i0 IN (SELECT k FROM ({b}) AS c) AND EXISTS (SELECT 1 FROM ({b}) AS z WHERE z.k = r0.i1)", t.name, b = body1),
                1,
            )
        }
    };
    // estimate join blow-up: joins on k can multiply; keep tables small for these
    g.decorate(sql, n, &mut q);
    q.tags = g.tags.clone();
    (q, inlined)
}

/// Window functions over one table. A unique tiebreak (id) makes order-
/// sensitive functions single-valued; peer-invariant ones are tested with ties.
pub fn q_window(g: &mut G, db: &[Table]) -> GenQuery {
    let mut q = GenQuery::default();
    tag(g, "window");
    let t = pick_table(g, db);
    let part = match g.rng.below(4) {
        0 => String::new(),
        1 => "PARTITION BY r0.i0".to_string(),
        2 => "PARTITION BY r0.b0".to_string(),
        _ => "PARTITION BY r0.i0, r0.j0".to_string(),
    };
    let nulls = |g: &mut G| *g.rng.pick(&[" NULLS FIRST", " NULLS LAST"]);
    let dir = |g: &mut G| if g.rng.bool() { " DESC" } else { "" };
    let k1 = format!("r0.i1{}{}", dir(g), nulls(g));
    let total = format!("{}, r0.id", k1); // unique tiebreak
    let f = g.rng.below(14);
    let (call, order, frame): (String, String, String) = match f {
        0 => ("ROW_NUMBER()".into(), total.clone(), String::new()),
        1 => ("RANK()".into(), k1.clone(), String::new()),
        2 => ("DENSE_RANK()".into(), k1.clone(), String::new()),
        3 => (format!("NTILE({})", 1 + g.rng.usize(4)), total.clone(), String::new()),
        4 => (format!("LAG(r0.i1, {})", 1 + g.rng.usize(2)), total.clone(), String::new()),
        5 => (format!("LEAD(r0.i1, {}, -99)", 1 + g.rng.usize(2)), total.clone(), String::new()),
        6 => ("FIRST_VALUE(r0.i1)".into(), total.clone(), String::new()),
        7 => ("LAST_VALUE(r0.i1)".into(), total.clone(), "ROWS BETWEEN UNBOUNDED PRECEDING AND UNBOUNDED FOLLOWING".into()),
        8 => ("SUM(r0.i1)".into(), total.clone(), format!("ROWS BETWEEN {} PRECEDING AND {} FOLLOWING", g.rng.usize(3), g.rng.usize(3))),
        9 => ("COUNT(r0.i1)".into(), total.clone(), "ROWS BETWEEN UNBOUNDED PRECEDING AND CURRENT ROW".into()),
        10 => ("SUM(r0.i1)".into(), k1.clone(), String::new()), // default RANGE frame with peers
        11 => ("MIN(r0.i1)".into(), total.clone(), format!("ROWS BETWEEN {} PRECEDING AND CURRENT ROW", 1 + g.rng.usize(3))),
        12 => ("AVG(r0.f0)".into(), String::new(), String::new()), // whole partition
        _ => ("MAX(r0.i1)".into(), k1.clone(), "RANGE BETWEEN UNBOUNDED PRECEDING AND CURRENT ROW".into()),
    };
    tag(g, call.split('(').next().unwrap_or("win"));
    let over = format!(
        "OVER ({}{}{}{})",
        part,
        if !part.is_empty() && !order.is_empty() { " " } else { "" },
        if order.is_empty() { String::new() } else { format!("ORDER BY {}", order) },
        if frame.is_empty() { String::new() } else { format!(" {}", frame) }
    );
    let mut core = format!("SELECT r0.id AS c0, r0.i0 AS c1, r0.i1 AS c2, {} {} AS c3 FROM {} AS r0", call, over, t.name);
    if g.rng.chance(1, 4) {
        let a = g.atom(&[Rel::of(t, "r0")], 0);
        core.push_str(&format!(" WHERE {}", a));
    }
    q.ncols = 4;
    q.full_sql = core.clone();
    q.sql = core;
    q.tags = g.tags.clone();
    q
}

/// GROUPING SETS / ROLLUP / CUBE with GROUPING(); also returns the grouping
/// sets (as column-name lists) for the per-set model.
pub fn q_grouping(g: &mut G, db: &[Table]) -> (GenQuery, Vec<Vec<&'static str>>, &'static str, Vec<&'static str>) {
    let mut q = GenQuery::default();
    tag(g, "grouping-sets");
    let t = pick_table(g, db);
    let all: Vec<&'static str> = vec!["i0", "j0", "b0"];
    let ncols = 1 + g.rng.usize(3);
    let cols: Vec<&'static str> = all[..ncols].to_vec();
    let kind = g.rng.below(3);
    let (clause, sets): (String, Vec<Vec<&'static str>>) = match kind {
        0 => {
            tag(g, "rollup");
            let mut sets = Vec::new();
            for k in (0..=ncols).rev() {
                sets.push(cols[..k].to_vec());
            }
            (format!("ROLLUP ({})", cols.iter().map(|c| format!("r0.{}", c)).collect::<Vec<_>>().join(", ")), sets)
        }
        1 => {
            tag(g, "cube");
            let mut sets = Vec::new();
            for mask in (0..(1u32 << ncols)).rev() {
                sets.push((0..ncols).filter(|i| mask & (1 << i) != 0).map(|i| cols[i]).collect());
            }
            (format!("CUBE ({})", cols.iter().map(|c| format!("r0.{}", c)).collect::<Vec<_>>().join(", ")), sets)
        }
        _ => {
            tag(g, "explicit-sets");
            let nsets = 1 + g.rng.usize(4);
            let mut sets: Vec<Vec<&'static str>> = Vec::new();
            for _ in 0..nsets {
                let mask = g.rng.below(1 << ncols) as u32;
                sets.push((0..ncols).filter(|i| mask & (1 << i) != 0).map(|i| cols[i]).collect());
            }
            let txt = sets.iter().map(|s| format!("({})", s.iter().map(|c| format!("r0.{}", c)).collect::<Vec<_>>().join(", "))).collect::<Vec<_>>().join(", ");
            (format!("GROUPING SETS ({})", txt), sets)
        }
    };
    let mut items: Vec<String> = cols.iter().enumerate().map(|(i, c)| format!("r0.{} AS c{}", c, i)).collect();
    items.push(format!("COUNT(*) AS c{}", ncols));
    items.push(format!("SUM(r0.i1) AS c{}", ncols + 1));
    items.push(format!("GROUPING({}) AS c{}", cols.iter().map(|c| format!("r0.{}", c)).collect::<Vec<_>>().join(", "), ncols + 2));
    let core = format!("SELECT {} FROM {} AS r0 GROUP BY {}", items.join(", "), t.name, clause);
    q.ncols = ncols + 3;
    q.full_sql = core.clone();
    q.sql = core;
    q.tags = g.tags.clone();
    let tname: &'static str = Box::leak(t.name.clone().into_boxed_str());
    (q, sets, tname, cols)
}

#[allow(dead_code)]
pub fn keys_none() -> Vec<SortKey> {
    Vec::new()
}
