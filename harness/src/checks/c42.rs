//! C42 CPU lists parse to the set they denote; fan-out helper stays in bounds.

use crate::report::{Report, Tier};
use crate::rng::Rng;
use query_engine::execution::topology::{verif_parse_cpulist, workers_for};
use serde_json::json;
use std::collections::BTreeSet;

/// Render a set as a cpulist with random grouping, order, duplicates,
/// overlaps, whitespace and junk tokens. Returns the text.
fn render(rng: &mut Rng, set: &BTreeSet<usize>, junk: bool) -> String {
    let v: Vec<usize> = set.iter().copied().collect();
    let mut toks: Vec<String> = Vec::new();
    let mut i = 0;
    while i < v.len() {
        // maximal run starting at i
        let mut j = i;
        while j + 1 < v.len() && v[j + 1] == v[j] + 1 {
            j += 1;
        }
        // cut the run at random places
        let mut a = i;
        while a <= j {
            let b = a + rng.usize(j - a + 1);
            if b == a && rng.bool() {
                toks.push(format!("{}", v[a]));
            } else {
                let ws = |r: &mut Rng| if r.chance(1, 6) { " " } else { "" };
                toks.push(format!("{}{}-{}{}", v[a], ws(rng), ws(rng), v[b]));
            }
            a = b + 1;
        }
        i = j + 1;
    }
    // duplicates / overlaps: re-emit some members and sub-ranges
    let extra = rng.usize(4);
    for _ in 0..extra {
        if v.is_empty() {
            break;
        }
        let k = rng.usize(v.len());
        let mut e = k;
        while e + 1 < v.len() && v[e + 1] == v[e] + 1 && rng.bool() {
            e += 1;
        }
        if e == k {
            toks.push(format!("{}", v[k]));
        } else {
            toks.push(format!("{}-{}", v[k], v[e]));
        }
    }
    if junk {
        // tokens that are junk under every reasonable reading: no digits, no signs
        let junk_toks = ["", " ", "x", "cpu", "a-b", "-", "--", "n/a", "*", "\t"];
        for _ in 0..1 + rng.usize(3) {
            toks.push(rng.pick(&junk_toks).to_string());
        }
    }
    rng.shuffle(&mut toks);
    let mut s = toks
        .iter()
        .map(|t| if rng.chance(1, 5) { format!(" {} ", t) } else { t.clone() })
        .collect::<Vec<_>>()
        .join(",");
    if rng.bool() {
        s.push('\n');
    }
    if rng.chance(1, 8) {
        s = format!("  {}", s);
    }
    s
}

pub fn run(tier: Tier, seed: u64) -> i32 {
    let mut rep = Report::new(
        "C42",
        tier,
        seed,
        "exploration",
        "random CPU sets (ids < 4096) rendered as cpulists with random range grouping, order, duplicates, overlaps, whitespace and digit-free junk tokens; parse must equal the sorted set. workers_for over a grid incl. 0 and usize::MAX. distinct = distinct rendered texts with >= 2 tokens",
    );
    let mut rng = Rng::new(seed ^ 0xC42);
    let n = tier.pick(20_000, 600_000);
    for case in 0..n {
        let mut set = BTreeSet::new();
        let universe = *rng.pick(&[8usize, 64, 256, 4096]);
        let density = 1 + rng.below(6);
        let members = rng.usize(40);
        let mut cur = rng.usize(universe);
        for _ in 0..members {
            set.insert(cur % universe);
            if rng.below(8) < density {
                cur += 1; // extend a run
            } else {
                cur = rng.usize(universe);
            }
        }
        let junk = rng.chance(1, 3);
        let text = render(&mut rng, &set, junk);
        let got = verif_parse_cpulist(&text);
        let want: Vec<usize> = set.iter().copied().collect();
        rep.eval();
        if text.contains(',') {
            rep.nontrivial(&text);
        }
        if case < 3 {
            rep.sample(json!({"text": text, "parsed": got}));
        }
        if got != want {
            let sig = if junk { "cpulist-junk" } else { "cpulist" };
            rep.fail(sig, &format!("parse({:?}) = {:?}, want {:?}", text, got, want), json!({"text": text, "got": got, "want": want}));
        }
        // output is sorted and unique by construction of the comparison; also
        // assert it directly so a reordering bug is named as such
        if got.windows(2).any(|w| w[0] >= w[1]) {
            rep.fail("cpulist-unsorted", &format!("parse({:?}) not sorted/unique: {:?}", text, got), json!({"text": text, "got": got}));
        }
    }
    // Empty and whitespace-only inputs
    for t in ["", "\n", " ", ",", ",,", " , \n"] {
        rep.eval();
        let got = verif_parse_cpulist(t);
        if !got.is_empty() {
            rep.fail("cpulist-empty", &format!("parse({:?}) = {:?}", t, got), json!({"text": t}));
        }
    }
    // workers_for grid
    let grid: Vec<usize> = vec![0, 1, 2, 3, 7, 8, 15, 16, 17, 31, 32, 33, 64, 1000, 1 << 20, usize::MAX - 1, usize::MAX];
    let mut extra: Vec<usize> = (0..tier.pick(200, 5000)).map(|_| rng.next() as usize >> rng.below(64)).collect();
    extra.extend(grid.iter());
    for &w in &extra {
        for &p in &grid {
            rep.eval();
            let r = workers_for(w, p);
            rep.nontrivial(&("wf", w, p));
            if r < 1 || r > w.max(1) || r > p.max(1) {
                rep.fail("workers_for", &format!("workers_for({}, {}) = {}", w, p, r), json!({"work": w, "max": p, "got": r}));
            }
            // when both are positive the helper should use what is available
            if w >= 1 && p >= 1 && r != w.min(p) {
                rep.fail("workers_for-underuse", &format!("workers_for({}, {}) = {} (expected min)", w, p, r), json!({"work": w, "max": p, "got": r}));
            }
        }
    }
    rep.sample(json!({"workers_for": {"work": 3, "max": 16, "got": workers_for(3, 16)}}));
    rep.assumptions.push("junk tokens contain no digits or signs, so they denote no CPU under any reading".into());
    rep.finish()
}
