//! Reference-differential monitors for the SQL-semantics properties
//! C21 (aggregates), C22 (joins), C23 (subqueries), C24 (set operations),
//! C25 (ORDER BY/LIMIT/OFFSET), C26 (windows), C27 (grouping sets),
//! C28 (CTEs), C44 (VALUES).

use crate::canon::{multiset_eq, Row};
use crate::checks::c01::{diff_case, engine_ctx, Layout};
use crate::checks::shapes;
use crate::data::{Cell, Scratch, Table};
use crate::eng::{df_ctx, run_df, run_sql, Outcome};
use crate::qgen::{gen_db, gen_table, Feats, GenQuery, KeyClass, SizeClass, TableSpec, G};
use crate::report::{Report, Tier};
use crate::rng::Rng;
use crate::sqldiff::{default_threads, par_run, CaseResult};
use query_engine::ExecutionContext;
use serde_json::json;
use std::sync::Arc;

type GenFn = dyn Fn(&mut Rng, &[Table]) -> GenQuery + Sync;

pub struct Stratum<'a> {
    pub id: &'a str,
    pub rule: &'a str,
    pub n_dbs: (usize, usize),
    pub per_db: (usize, usize),
    pub sizes: Vec<SizeClass>,
    pub tables: usize,
    pub gen: &'a GenFn,
    pub sig_prefix: &'a str,
}

fn layout_name(l: Layout) -> &'static str {
    match l {
        Layout::MemOne => "mem1",
        Layout::MemSplit => "memk",
        Layout::Parquet => "parquet",
    }
}

/// Generic loop: seeded databases x generated statements x a random layout,
/// judged against DataFusion with SQLite arbitration (c01::diff_case).
pub fn run_stratum(s: &Stratum, tier: Tier, seed: u64) -> i32 {
    let mut rep = Report::new(s.id, tier, seed, "exploration", s.rule);
    let scratch = Scratch::new(&s.id.to_lowercase());
    let n_dbs = tier.pick(s.n_dbs.0, s.n_dbs.1);
    let per_db = tier.pick(s.per_db.0, s.per_db.1);
    let seeds: Vec<u64> = (0..n_dbs).map(|i| seed.wrapping_mul(3_000_017).wrapping_add(i as u64)).collect();
    let sp = scratch.path().to_path_buf();
    par_run(&mut rep, seeds, default_threads(), |sd| {
        let mut rng = Rng::new(sd ^ crate::report::hash_of(&s.id));
        let sc = *rng.pick(&s.sizes);
        let db = gen_db(&mut rng, s.tables.max(1), sc);
        let layout = *rng.pick(&[Layout::MemOne, Layout::MemSplit, Layout::MemSplit, Layout::Parquet]);
        let lname = layout_name(layout);
        let dir = sp.join(format!("db{}", sd));
        std::fs::create_dir_all(&dir).unwrap();
        let ctx = engine_ctx(&db, layout, &mut rng, Some(&dir));
        let dfc = df_ctx(&db);
        let mut out = Vec::new();
        for qi in 0..per_db {
            let mut qrng = rng.fork(qi as u64);
            let q = (s.gen)(&mut qrng, &db);
            let rdir = dir.join(format!("rebuild{}", qi));
            let lseed = sd ^ 0x5EED;
            let rebuild = |d: &[Table]| {
                let _ = std::fs::remove_dir_all(&rdir);
                std::fs::create_dir_all(&rdir).unwrap();
                engine_ctx(d, layout, &mut Rng::new(lseed), Some(&rdir))
            };
            let prefix = s.sig_prefix.to_string();
            let classify = move |q: &GenQuery, d: &[Table], w: &str| format!("{}{}", prefix, shapes::classify(q, d, w));
            let mut r = diff_case(&db, &ctx, &dfc, &q, lname, &classify, &rebuild);
            if qi == 0 && sd % 16 == 0 {
                r.sample = Some(json!({"engine_sql": q.engine_sql(), "layout": lname, "table_rows": db.iter().map(|t| t.rows.len()).collect::<Vec<_>>()}));
            }
            out.push(r);
        }
        let _ = std::fs::remove_dir_all(&dir);
        out
    });
    let answered = rep.evaluations - rep.inconclusive_count("engine-error-permitted") - rep.inconclusive_count("reference-rejected") - rep.inconclusive_count("engine-panic");
    rep.set("statements_answered_by_both", json!(answered));
    rep.floor(answered * 3 >= rep.evaluations, "fewer than a third of the generated statements were answered by both engines");
    rep.assumptions.push("DataFusion 54 is the reference and SQLite 3.40 the arbiter; a disagreement counts only when both references agree against the engine".into());
    rep.finish()
}

// ---------------------------------------------------------------------------
// C22 joins

pub fn run_c22(tier: Tier, seed: u64) -> i32 {
    let gen = |rng: &mut Rng, db: &[Table]| {
        let mut f = Feats::all();
        f.distinct = false;
        f.limit = false;
        let mut g = G::new(rng, f);
        if g.rng.chance(1, 5) {
            // semi/anti via EXISTS / IN
            shapes::q_subquery(&mut g, db)
        } else {
            let mut q = g.q_simple(db, 3);
            if !q.tags.iter().any(|t| t.contains("JOIN")) {
                q = g.q_simple(db, 3);
            }
            q
        }
    };
    run_stratum(
        &Stratum {
            id: "C22",
            rule: "INNER/LEFT/RIGHT/FULL/CROSS joins of 2-3 relation instances and semi/anti joins via EXISTS/IN, 1-2 equi-keys of mixed widths (BIGINT vs INTEGER), strings, dates; residual ON predicates touching the left side only, the right side only, or both; NULL keys and duplicates on both sides; empty sides; tiny/small/medium sizes so that the planner builds either side, uses dictionary gathers (<= 4096 build rows) and parallel builds; memory (1 and k batches) and Parquet layouts. distinct = distinct (statement skeleton, layout) with a non-empty reference answer",
            n_dbs: (60, 1500),
            per_db: (30, 40),
            sizes: vec![SizeClass::Tiny, SizeClass::Small, SizeClass::Small, SizeClass::Medium],
            tables: 2,
            gen: &gen,
            sig_prefix: "join:",
        },
        tier,
        seed,
    )
}

// ---------------------------------------------------------------------------
// C23 subqueries (reference differential + decorrelated vs row-by-row)

pub fn run_c23(tier: Tier, seed: u64) -> i32 {
    let mut rep = Report::new(
        "C23",
        tier,
        seed,
        "exploration",
        "[NOT] EXISTS, [NOT] IN and scalar subqueries in WHERE and in the SELECT list, correlated and uncorrelated, NULLs on the outer operand / in the subquery result / both, empty subquery results, duplicate correlation values, combined with OR; judged against DataFusion with SQLite arbitration, and engine-vs-engine: the production pipeline must equal the pipeline without SubqueryDecorrelation and FlattenDependentJoin (row-by-row SubqueryExecutor). distinct = distinct (statement skeleton, layout) with a non-empty reference answer",
    );
    let scratch = Scratch::new("c23");
    let n_dbs = tier.pick(50, 1500);
    let per_db = tier.pick(30, 40);
    let seeds: Vec<u64> = (0..n_dbs).map(|i| seed.wrapping_mul(3_000_017).wrapping_add(i as u64)).collect();
    let sp = scratch.path().to_path_buf();
    par_run(&mut rep, seeds, default_threads(), |sd| {
        let mut rng = Rng::new(sd ^ 0xC23);
        let sc = *rng.pick(&[SizeClass::Tiny, SizeClass::Tiny, SizeClass::Small]);
        let db = gen_db(&mut rng, 2, sc);
        let layout = *rng.pick(&[Layout::MemOne, Layout::MemSplit, Layout::Parquet]);
        let lname = layout_name(layout);
        let dir = sp.join(format!("db{}", sd));
        std::fs::create_dir_all(&dir).unwrap();
        let ctx = engine_ctx(&db, layout, &mut rng, Some(&dir));
        let dfc = df_ctx(&db);
        let mut out = Vec::new();
        for qi in 0..per_db {
            let mut qrng = rng.fork(qi as u64);
            let mut f = Feats::all();
            f.limit = false;
            let mut g = G::new(&mut qrng, f);
            let q = shapes::q_subquery(&mut g, &db);
            let rdir = dir.join(format!("rebuild{}", qi));
            let rebuild = |d: &[Table]| {
                let _ = std::fs::remove_dir_all(&rdir);
                std::fs::create_dir_all(&rdir).unwrap();
                engine_ctx(d, layout, &mut Rng::new(sd ^ 0x5EED), Some(&rdir))
            };
            let classify = |q: &GenQuery, _d: &[Table], _w: &str| {
                let mut t: Vec<&str> = Vec::new();
                for k in ["exists", "not-exists", "in-subquery", "not-in-subquery", "scalar-subquery-where", "scalar-subquery-select", "in-subquery-select", "correlated", "subquery-under-or"] {
                    if q.tags.iter().any(|x| x == k) {
                        t.push(k);
                    }
                }
                format!("subquery:{}", t.join("+"))
            };
            out.push(diff_case(&db, &ctx, &dfc, &q, lname, &classify, &rebuild));
            // engine vs engine: with and without the decorrelation rules
            let a = run_sql(&ctx, &q.engine_sql());
            let b = crate::eng::run_sql_with(&ctx, &q.engine_sql(), &crate::eng::optimizer_without(&ctx, &["SubqueryDecorrelation", "FlattenDependentJoin"]));
            let mut r = CaseResult::default();
            match (&a, &b) {
                (Outcome::Ok(x), Outcome::Ok(y)) => {
                    if !x.rows.is_empty() {
                        r.nontrivial = Some(format!("ee|{}|{}", q.skeleton(), lname));
                    }
                    let same = if q.keys.is_empty() { multiset_eq(&x.rows, &y.rows) } else { crate::sqldiff::judge(&x.rows, &y.rows, &GenQuery { limit: None, offset: 0, ..q.clone() }) };
                    if let Err(why) = same {
                        r.fail = Some((
                            format!("decorrelated-vs-row-by-row:{}", classify(&q, &db, "")),
                            format!("{} [{}] :: decorrelated {} vs row-by-row {}: {}", q.engine_sql(), lname, a.short(), b.short(), why),
                            json!({"sql": q.engine_sql(), "layout": lname, "decorrelated": a.json(40), "row_by_row": b.json(40), "tables": crate::sqldiff::db_json(&db, 40)}),
                        ));
                    }
                }
                (Outcome::Ok(_), _) | (_, Outcome::Ok(_)) => {
                    r.inconclusive = Some("one-path-errors".into());
                    r.counts.push((format!("one_path_err: dec={} rbr={}", a.short().chars().take(50).collect::<String>(), b.short().chars().take(50).collect::<String>()), 1));
                }
                _ => r.inconclusive = Some("both-paths-error".into()),
            }
            out.push(r);
        }
        let _ = std::fs::remove_dir_all(&dir);
        out
    });
    rep.floor(rep.distinct_count() > 100, "too few distinct non-trivial statements");
    rep.finish()
}

// ---------------------------------------------------------------------------
// C24 set operations: the multiset definition itself is the oracle

fn row_key(r: &Row) -> String {
    crate::canon::fmt_row(r)
}

pub fn setop_model(op: &str, a: &[Row], b: &[Row]) -> Vec<Row> {
    use std::collections::BTreeMap;
    let mut ca: BTreeMap<String, (usize, Row)> = BTreeMap::new();
    let mut cb: BTreeMap<String, (usize, Row)> = BTreeMap::new();
    for r in a {
        ca.entry(row_key(r)).or_insert((0, r.clone())).0 += 1;
    }
    for r in b {
        cb.entry(row_key(r)).or_insert((0, r.clone())).0 += 1;
    }
    let mut out = Vec::new();
    let mut keys: Vec<&String> = ca.keys().chain(cb.keys()).collect();
    keys.sort();
    keys.dedup();
    for k in keys {
        let m = ca.get(k).map(|x| x.0).unwrap_or(0);
        let n = cb.get(k).map(|x| x.0).unwrap_or(0);
        let row = ca.get(k).or(cb.get(k)).unwrap().1.clone();
        let copies = match op {
            "UNION ALL" => m + n,
            "UNION" => (m + n > 0) as usize,
            "INTERSECT ALL" => m.min(n),
            "INTERSECT" => (m > 0 && n > 0) as usize,
            "EXCEPT ALL" => m.saturating_sub(n),
            "EXCEPT" => (m > 0 && n == 0) as usize,
            _ => 0,
        };
        for _ in 0..copies {
            out.push(row.clone());
        }
    }
    out
}

pub fn run_c24(tier: Tier, seed: u64) -> i32 {
    let mut rep = Report::new(
        "C24",
        tier,
        seed,
        "exploration",
        "UNION / INTERSECT / EXCEPT and their ALL forms over operand pairs with duplicates (multiplicities 0..4 on each side) and NULLs in any of 1-3 columns (integers, strings, dates), bare and inside a derived table with an outer aggregate; oracle = the SQL multiset definition (m+n, 1 if m+n>0, min(m,n), 1 if both>0, max(m-n,0), 1 if m>0 and n=0; NULLs not distinct) applied by the harness to the operands' own answers (each operand is a plain SELECT answered by DataFusion and cross-checked with the engine), plus DataFusion on the whole statement as a second opinion. distinct = distinct (operator, column-type tuple, multiplicity pattern) triples with non-empty operands",
    );
    let n_dbs = tier.pick(100, 3000);
    let per_db = tier.pick(24, 30);
    let seeds: Vec<u64> = (0..n_dbs).map(|i| seed.wrapping_mul(3_000_017).wrapping_add(i as u64)).collect();
    par_run(&mut rep, seeds, default_threads(), |sd| {
        let mut rng = Rng::new(sd ^ 0xC24);
        // tiny tables with tiny domains: multiplicities 0..4
        let mk = |rng: &mut Rng, name: &str| {
            let spec = TableSpec { rows: rng.usize(10), null_pct: *rng.pick(&[0u64, 20, 50]), key: KeyClass::DenseDup, not_null: false };
            let mut t = gen_table(rng, name, &spec);
            for r in t.rows.iter_mut() {
                // squeeze the domains so rows repeat
                if let Cell::Int(v) = r[2] {
                    r[2] = Cell::Int(v.rem_euclid(3));
                }
                if let Cell::S(_) = r[5] {
                    r[5] = Cell::S(rng.pick(&["a", "b", ""]).to_string());
                }
                if let Cell::Date(_) = r[6] {
                    r[6] = Cell::Date(*rng.pick(&[0, 1, 11016]));
                }
            }
            t
        };
        let db = vec![mk(&mut rng, "t0"), mk(&mut rng, "t1")];
        let ctx = crate::eng::mem_ctx(&db);
        let dfc = df_ctx(&db);
        let mut out = Vec::new();
        for qi in 0..per_db {
            let mut qrng = rng.fork(qi as u64);
            let mut g = G::new(&mut qrng, Feats::all());
            let p = shapes::q_setop_parts(&mut g, &db);
            let wrapped = qi % 5 == 4;
            let sql = if wrapped { format!("SELECT x.c0 AS c0, COUNT(*) AS c1 FROM ({} {} {}) AS x GROUP BY x.c0", p.left, p.op, p.right) } else { format!("{} {} {}", p.left, p.op, p.right) };
            let mut r = CaseResult::default();
            // operands: reference and engine must agree on them first
            let (la, lb) = (run_df(&dfc, &p.left), run_df(&dfc, &p.right));
            let (ea, eb) = (run_sql(&ctx, &p.left), run_sql(&ctx, &p.right));
            let (Ok(la), Ok(lb)) = (la, lb) else {
                r.inconclusive = Some("reference-rejected-operand".into());
                out.push(r);
                continue;
            };
            match (&ea, &eb) {
                (Outcome::Ok(x), Outcome::Ok(y)) if multiset_eq(&x.rows, &la.rows).is_ok() && multiset_eq(&y.rows, &lb.rows).is_ok() => {}
                _ => {
                    r.inconclusive = Some("operand-answers-disagree(other-property)".into());
                    out.push(r);
                    continue;
                }
            }
            let mut want = setop_model(p.op, &la.rows, &lb.rows);
            if wrapped {
                // GROUP BY c0 with COUNT(*) over the model rows (NULLs form one group)
                use std::collections::BTreeMap;
                let mut m: BTreeMap<String, (Cell, i64)> = BTreeMap::new();
                for row in &want {
                    m.entry(crate::canon::fmt_row(&vec![row[0].clone()])).or_insert((row[0].clone(), 0)).1 += 1;
                }
                want = m.into_values().map(|(c, n)| vec![c, Cell::Int(n)]).collect();
            }
            // second opinion
            if let Ok(d) = run_df(&dfc, &sql) {
                if multiset_eq(&d.rows, &want).is_err() {
                    r.counts.push((format!("datafusion_differs_from_the_multiset_definition[{}]", p.op), 1));
                }
            }
            let got = run_sql(&ctx, &sql);
            match &got {
                Outcome::Ok(a) => {
                    if !la.rows.is_empty() && !lb.rows.is_empty() {
                        r.nontrivial = Some(format!("{}|{}|{}|{}", p.op, p.ncols, la.rows.len().min(5), wrapped));
                    }
                    if let Err(why) = multiset_eq(&a.rows, &want) {
                        let has_null = la.rows.iter().chain(lb.rows.iter()).any(|r| r.iter().any(|c| c.is_null()));
                        // does the failure need NULL rows? re-evaluate on operands without NULL rows
                        let sig = format!("setop:{}{}{}", p.op.replace(' ', "-"), if has_null { ":nulls" } else { "" }, if wrapped { ":derived" } else { "" });
                        r.fail = Some((
                            sig,
                            format!("{} :: {}", sql, why),
                            json!({"sql": sql, "left_rows": crate::canon::rows_json(&la.rows, 30), "right_rows": crate::canon::rows_json(&lb.rows, 30), "engine": got.json(40), "expected_by_definition": crate::canon::rows_json(&want, 40), "tables": crate::sqldiff::db_json(&db, 20)}),
                        ));
                    }
                }
                Outcome::Err(e) => {
                    r.inconclusive = Some("engine-error-permitted".into());
                    r.counts.push((format!("engine_err[{}]: {}", p.op, e.chars().take(60).collect::<String>()), 1));
                }
                o => {
                    r.inconclusive = Some("engine-panic-or-timeout".into());
                    r.counts.push((format!("engine_panic: {}", o.short().chars().take(60).collect::<String>()), 1));
                }
            }
            if qi == 0 && sd % 32 == 0 {
                r.sample = Some(json!({"sql": sql, "left_rows": la.rows.len(), "right_rows": lb.rows.len(), "expected_rows": want.len()}));
            }
            out.push(r);
        }
        out
    });
    rep.floor(rep.distinct_count() > 50, "too few distinct operator/multiplicity patterns");
    rep.finish()
}

// ---------------------------------------------------------------------------
// C25 ORDER BY / LIMIT / OFFSET

pub fn run_c25(tier: Tier, seed: u64) -> i32 {
    let gen = |rng: &mut Rng, db: &[Table]| {
        let mut g = G::new(rng, Feats::all());
        // force ORDER BY, usually LIMIT/OFFSET
        loop {
            g.tags.clear();
            let q = if g.rng.chance(2, 3) { g.q_simple(db, 1) } else { g.q_agg(db, 1) };
            if !q.keys.is_empty() {
                return q;
            }
        }
    };
    run_stratum(
        &Stratum {
            id: "C25",
            rule: "statements with ORDER BY over 1-3 output columns (nullable int/float/string/date/boolean, expressions), ASC/DESC x default / NULLS FIRST / NULLS LAST, heavy ties, LIMIT in {0,1,2,3,5,10,1000} and OFFSET in {0,1,2,5,1000}; tiny/small/medium tables in 1..k batches and Parquet (full sort, fused top-k, multi-partition inputs). The engine's own key columns must be sorted as stated, and the rows must be a legal window [m, m+n) of the reference's full answer (tie groups free, boundary tie group any sub-multiset). distinct = distinct (statement skeleton, layout) with a non-empty reference answer",
            n_dbs: (64, 1800),
            per_db: (30, 40),
            sizes: vec![SizeClass::Tiny, SizeClass::Small, SizeClass::Small, SizeClass::Medium],
            tables: 1,
            gen: &gen,
            sig_prefix: "order:",
        },
        tier,
        seed,
    )
}

// ---------------------------------------------------------------------------
// C26 windows

pub fn run_c26(tier: Tier, seed: u64) -> i32 {
    let gen = |rng: &mut Rng, db: &[Table]| {
        let mut g = G::new(rng, Feats::all());
        shapes::q_window(&mut g, db)
    };
    run_stratum(
        &Stratum {
            id: "C26",
            rule: "ROW_NUMBER, RANK, DENSE_RANK, NTILE, LAG/LEAD (offset, default), FIRST/LAST_VALUE, SUM/COUNT/MIN/MAX/AVG OVER with PARTITION BY 0-2 keys, ORDER BY with explicit null ordering, ROWS frames (numeric offsets, UNBOUNDED, CURRENT ROW), the default RANGE frame with peers and an explicit RANGE frame; order-sensitive functions get a unique tiebreak key, peer-invariant ones are tested with ties; NULLs in partition keys, order keys and arguments. Judged against DataFusion with SQLite arbitration. distinct = distinct (statement skeleton, layout) with a non-empty reference answer",
            n_dbs: (56, 1500),
            per_db: (30, 40),
            sizes: vec![SizeClass::Tiny, SizeClass::Small],
            tables: 1,
            gen: &gen,
            sig_prefix: "window:",
        },
        tier,
        seed,
    )
}

// ---------------------------------------------------------------------------
// C21 aggregates on every path

pub fn run_c21(tier: Tier, seed: u64) -> i32 {
    let mut rep = Report::new(
        "C21",
        tier,
        seed,
        "exploration",
        "grouped and global COUNT(*)/COUNT(x)/SUM/AVG/MIN/MAX/COUNT(DISTINCT) over nullable integer, double, string and date inputs with all-NULL groups, partly NULL groups, groups emptied by WHERE, LEFT JOIN misses and NULL keys; each statement is executed on every aggregation path the harness can force: memory one batch, memory many batches, Parquet whole-file, Parquet small row groups (morsel paths, dense-direct when the key is a NULL-free integer), a 64 KiB memory limit (spilling aggregate) and medium tables (parallel merge); every path's answer is judged against DataFusion (SQLite arbitration). distinct = distinct (statement skeleton, path) with a non-empty reference answer",
    );
    let scratch = Scratch::new("c21");
    let n_dbs = tier.pick(36, 900);
    let per_db = tier.pick(14, 24);
    let seeds: Vec<u64> = (0..n_dbs).map(|i| seed.wrapping_mul(3_000_017).wrapping_add(i as u64)).collect();
    let sp = scratch.path().to_path_buf();
    par_run(&mut rep, seeds, default_threads(), |sd| {
        let mut rng = Rng::new(sd ^ 0xC21);
        let sc = *rng.pick(&[SizeClass::Tiny, SizeClass::Small, SizeClass::Small, SizeClass::Medium]);
        let db = gen_db(&mut rng, 2, sc);
        let dir = sp.join(format!("db{}", sd));
        std::fs::create_dir_all(&dir).unwrap();
        // paths
        let mut paths: Vec<(String, Arc<ExecutionContext>, Layout)> = Vec::new();
        paths.push(("mem1".into(), crate::eng::mem_ctx(&db), Layout::MemOne));
        {
            let parts: Vec<(&Table, Vec<arrow::record_batch::RecordBatch>)> = db.iter().map(|t| (t, t.even_batches((t.rows.len() / 7).max(1)))).collect();
            paths.push(("memk".into(), crate::eng::mem_ctx_batches(&parts), Layout::MemSplit));
        }
        for (name, rg) in [("parquet-whole", 1usize << 20), ("parquet-rg", 16)] {
            let d = dir.join(name);
            std::fs::create_dir_all(&d).unwrap();
            let mut c = ExecutionContext::new();
            for t in &db {
                if t.rows.is_empty() {
                    c.register_table(t.name.clone(), t.schema(), vec![t.one_batch()]);
                } else {
                    let p = crate::data::write_parquet_table(&d, t, &crate::data::PqOpts { files: if rg == 16 { 2 } else { 1 }, rg_rows: rg, dictionary: true, snappy: false, stats: true });
                    c.register_parquet(t.name.clone(), &p).unwrap();
                }
            }
            paths.push((name.into(), Arc::new(c), Layout::Parquet));
        }
        {
            let mut c = ExecutionContext::with_memory_limit(64 * 1024);
            for t in &db {
                c.register_table(t.name.clone(), t.schema(), t.even_batches((t.rows.len() / 5).max(1)));
            }
            paths.push(("mem-limit-64k".into(), Arc::new(c), Layout::MemSplit));
        }
        let dfc = df_ctx(&db);
        let mut out = Vec::new();
        for qi in 0..per_db {
            let mut qrng = rng.fork(qi as u64);
            let mut f = Feats::all();
            f.limit = false;
            f.cross_join = false;
            let mut g = G::new(&mut qrng, f);
            let q = g.q_agg(&db, 2);
            for (pname, ctx, layout) in &paths {
                let lay = *layout;
                let pn = pname.clone();
                let rdir = dir.join(format!("rebuild{}{}", qi, pname));
                let rebuild = |d: &[Table]| -> Arc<ExecutionContext> {
                    let _ = std::fs::remove_dir_all(&rdir);
                    std::fs::create_dir_all(&rdir).unwrap();
                    if pn == "mem-limit-64k" {
                        let mut c = ExecutionContext::with_memory_limit(64 * 1024);
                        for t in d {
                            c.register_table(t.name.clone(), t.schema(), t.even_batches((t.rows.len() / 5).max(1)));
                        }
                        Arc::new(c)
                    } else if pn == "parquet-rg" {
                        let mut c = ExecutionContext::new();
                        for t in d {
                            if t.rows.is_empty() {
                                c.register_table(t.name.clone(), t.schema(), vec![t.one_batch()]);
                            } else {
                                let p = crate::data::write_parquet_table(&rdir, t, &crate::data::PqOpts { files: 2, rg_rows: 16, dictionary: true, snappy: false, stats: true });
                                c.register_parquet(t.name.clone(), &p).unwrap();
                            }
                        }
                        Arc::new(c)
                    } else {
                        engine_ctx(d, lay, &mut Rng::new(sd ^ 0x5EED), Some(&rdir))
                    }
                };
                let pn2 = pname.clone();
                let classify = move |q: &GenQuery, _d: &[Table], w: &str| {
                    let kind = if q.tags.iter().any(|t| t == "global-agg") { "global" } else { "grouped" };
                    let what = if w.contains("row count") { "group-set" } else { "cell" };
                    format!("agg:{}:{}:{}", kind, what, if pn2.starts_with("parquet") { "parquet" } else if pn2.contains("limit") { "spill" } else { "memory" })
                };
                let lname = if pname.starts_with("parquet") { "parquet" } else { pname.as_str() };
                let used_before = ctx.memory_used();
                let mut r = diff_case(&db, ctx, &dfc, &q, lname, &classify, &rebuild);
                if std::env::var("QE_VERIF_TRACE").is_ok() && pname.contains("limit") {
                    eprintln!("TRACE sd={} qi={} pool_used {} -> {} fail={} inconclusive={:?} :: {}", sd, qi, used_before, ctx.memory_used(), r.fail.is_some(), r.inconclusive, q.engine_sql());
                }
                if let Some(n) = r.nontrivial.take() {
                    r.nontrivial = Some(format!("{}|{}", n, pname));
                }
                r.counts.push((format!("path_{}", pname), 1));
                out.push(r);
            }
        }
        let _ = std::fs::remove_dir_all(&dir);
        out
    });
    rep.floor(rep.distinct_count() > 100, "too few distinct non-trivial (statement, path) pairs");
    rep.finish()
}

// ---------------------------------------------------------------------------
// C27 grouping sets: per-set GROUP BY model

pub fn run_c27(tier: Tier, seed: u64) -> i32 {
    let mut rep = Report::new(
        "C27",
        tier,
        seed,
        "exploration",
        "GROUPING SETS (explicit lists incl. the empty set and duplicates), ROLLUP and CUBE over 1-3 columns (integer, int32, boolean) with NULLs IN the grouped columns, COUNT(*), SUM and GROUPING(); oracle = the definition: the harness issues one plain GROUP BY per set to DataFusion, pads absent columns with NULL, computes the GROUPING() bitmask and unions the results; DataFusion's native GROUPING SETS is a second opinion. distinct = distinct (clause kind, column count, set list) with a non-empty answer",
    );
    let n_dbs = tier.pick(80, 2500);
    let per_db = tier.pick(12, 16);
    let seeds: Vec<u64> = (0..n_dbs).map(|i| seed.wrapping_mul(3_000_017).wrapping_add(i as u64)).collect();
    par_run(&mut rep, seeds, default_threads(), |sd| {
        let mut rng = Rng::new(sd ^ 0xC27);
        let sc = *rng.pick(&[SizeClass::Tiny, SizeClass::Small]);
        let db = gen_db(&mut rng, 1, sc);
        let ctx = crate::eng::mem_ctx(&db);
        let dfc = df_ctx(&db);
        let mut out = Vec::new();
        for qi in 0..per_db {
            let mut qrng = rng.fork(qi as u64);
            let mut g = G::new(&mut qrng, Feats::all());
            let (q, sets, tname, cols) = shapes::q_grouping(&mut g, &db);
            let mut r = CaseResult::default();
            // model
            let mut want: Vec<Row> = Vec::new();
            let mut ok = true;
            for s in &sets {
                let sel: Vec<String> = cols.iter().map(|c| if s.contains(c) { format!("r0.{}", c) } else { "NULL".to_string() }).collect();
                let mut mask = 0i64;
                for c in cols.iter() {
                    mask = (mask << 1) | (!s.contains(c)) as i64;
                }
                let sql = if s.is_empty() {
                    format!("SELECT COUNT(*) AS n, SUM(r0.i1) AS s FROM {} AS r0", tname)
                } else {
                    format!("SELECT {}, COUNT(*) AS n, SUM(r0.i1) AS s FROM {} AS r0 GROUP BY {}", s.iter().map(|c| format!("r0.{} AS g_{}", c, c)).collect::<Vec<_>>().join(", "), tname, s.iter().map(|c| format!("r0.{}", c)).collect::<Vec<_>>().join(", "))
                };
                let _ = sel;
                match run_df(&dfc, &sql) {
                    Ok(a) => {
                        for row in a.rows {
                            let mut o: Row = Vec::new();
                            let mut k = 0;
                            for c in cols.iter() {
                                if s.contains(c) {
                                    o.push(row[k].clone());
                                    k += 1;
                                } else {
                                    o.push(Cell::Null);
                                }
                            }
                            o.push(row[k].clone());
                            o.push(row[k + 1].clone());
                            o.push(Cell::Int(mask));
                            want.push(o);
                        }
                    }
                    Err(_) => ok = false,
                }
            }
            if !ok {
                r.inconclusive = Some("reference-rejected".into());
                out.push(r);
                continue;
            }
            if let Ok(d) = run_df(&dfc, &q.ref_full_sql()) {
                if multiset_eq(&d.rows, &want).is_err() {
                    r.counts.push(("datafusion_native_grouping_sets_differs_from_the_definition".into(), 1));
                }
            }
            match run_sql(&ctx, &q.engine_sql()) {
                Outcome::Ok(a) => {
                    if !want.is_empty() {
                        r.nontrivial = Some(format!("{:?}|{}|{:?}", q.tags, cols.len(), sets));
                    }
                    if let Err(why) = multiset_eq(&a.rows, &want) {
                        let kind = if q.tags.iter().any(|t| t == "rollup") { "rollup" } else if q.tags.iter().any(|t| t == "cube") { "cube" } else { "grouping-sets" };
                        r.fail = Some((
                            format!("{}:{}", kind, if why.contains("row count") { "row-set" } else { "cell" }),
                            format!("{} :: {}", q.engine_sql(), why),
                            json!({"sql": q.engine_sql(), "engine": crate::canon::rows_json(&a.rows, 60), "expected_by_definition": crate::canon::rows_json(&want, 60), "tables": crate::sqldiff::db_json(&db, 30)}),
                        ));
                    }
                }
                Outcome::Err(e) => {
                    r.inconclusive = Some("engine-error-permitted".into());
                    r.counts.push((format!("engine_err: {}", e.chars().take(70).collect::<String>()), 1));
                }
                o => {
                    r.inconclusive = Some("engine-panic-or-timeout".into());
                    r.counts.push((format!("engine_panic: {}", o.short().chars().take(70).collect::<String>()), 1));
                }
            }
            if qi == 0 && sd % 32 == 0 {
                r.sample = Some(json!({"sql": q.engine_sql(), "sets": sets, "expected_rows": want.len()}));
            }
            out.push(r);
        }
        out
    });
    let errs = rep.inconclusive_count("engine-error-permitted");
    rep.floor(errs * 2 < rep.evaluations.max(1), "more than half of the grouping-set statements were rejected by the engine");
    rep.finish()
}

// ---------------------------------------------------------------------------
// C28 CTEs: inlined model

pub fn run_c28(tier: Tier, seed: u64) -> i32 {
    let mut rep = Report::new(
        "C28",
        tier,
        seed,
        "exploration",
        "1-2 CTEs referenced 1-2 times (self-join of a CTE), nested WITH that reuses the outer name with a different body, CTE references inside IN/EXISTS subqueries, CTE bodies with aggregates over doubles; the engine's answer to the WITH statement must equal its own answer to the statement with every reference textually inlined (nearest enclosing definition wins), and DataFusion's answer to the inlined form (SQLite arbitrates on the original text). distinct = distinct (CTE shape, statement skeleton) with a non-empty answer",
    );
    let n_dbs = tier.pick(80, 2500);
    let per_db = tier.pick(16, 20);
    let seeds: Vec<u64> = (0..n_dbs).map(|i| seed.wrapping_mul(3_000_017).wrapping_add(i as u64)).collect();
    par_run(&mut rep, seeds, default_threads(), |sd| {
        let mut rng = Rng::new(sd ^ 0xC28);
        let sc = *rng.pick(&[SizeClass::Tiny, SizeClass::Tiny, SizeClass::Small]);
        let mut db = gen_db(&mut rng, 2, sc);
        for t in db.iter_mut() {
            t.rows.truncate(60); // CTE self-joins on a duplicated key multiply
        }
        let ctx = crate::eng::mem_ctx(&db);
        let dfc = df_ctx(&db);
        let mut out = Vec::new();
        for qi in 0..per_db {
            let mut qrng = rng.fork(qi as u64);
            let mut f = Feats::all();
            f.limit = false;
            let mut g = G::new(&mut qrng, f);
            let (mut q, inlined) = shapes::q_cte(&mut g, &db);
            // comparison is on the un-ordered full statement
            q.sql = q.full_sql.clone();
            q.keys.clear();
            let mut r = CaseResult::default();
            let shape = q.tags.iter().filter(|t| t.starts_with("cte")).cloned().collect::<Vec<_>>().join("+");
            let with_ans = run_sql(&ctx, &q.engine_sql());
            let inl_ans = run_sql(&ctx, &inlined);
            let ref_ans = run_df(&dfc, &inlined);
            match (&with_ans, &inl_ans) {
                (Outcome::Ok(a), Outcome::Ok(b)) => {
                    if !b.rows.is_empty() {
                        r.nontrivial = Some(format!("{}|{}", shape, q.skeleton()));
                    }
                    if let Err(why) = multiset_eq(&a.rows, &b.rows) {
                        r.fail = Some((
                            format!("cte-vs-inlined:{}", shape),
                            format!("{} :: WITH form {} vs inlined form {}: {}", q.engine_sql(), with_ans.short(), inl_ans.short(), why),
                            json!({"sql": q.engine_sql(), "inlined_sql": inlined, "with_answer": with_ans.json(40), "inlined_answer": inl_ans.json(40), "tables": crate::sqldiff::db_json(&db, 30)}),
                        ));
                    } else if let Ok(d) = &ref_ans {
                        if let Err(why) = multiset_eq(&a.rows, &d.rows) {
                            // both engine forms agree with each other but not with the reference
                            let arb = crate::arbiter::run_sqlite(&db, &q.ref_full_sql());
                            match arb {
                                Ok(s) if multiset_eq(&s, &d.rows).is_ok() => {
                                    r.fail = Some((
                                        format!("cte-vs-reference:{}", shape),
                                        format!("{} :: {}", q.engine_sql(), why),
                                        json!({"sql": q.engine_sql(), "engine": with_ans.json(40), "reference": crate::canon::rows_json(&d.rows, 40), "tables": crate::sqldiff::db_json(&db, 30)}),
                                    ));
                                }
                                Ok(s) if multiset_eq(&s, &a.rows).is_ok() => r.inconclusive = Some("reference-disagreement(sqlite sides with the engine)".into()),
                                _ => r.inconclusive = Some("unarbitrated-disagreement".into()),
                            }
                        }
                    }
                }
                (Outcome::Ok(_), other) | (other, Outcome::Ok(_)) => {
                    r.inconclusive = Some("one-form-errors".into());
                    r.counts.push((format!("one_form_err[{}]: {}", shape, other.short().chars().take(60).collect::<String>()), 1));
                }
                _ => r.inconclusive = Some("engine-error-permitted".into()),
            }
            if qi == 0 && sd % 32 == 0 {
                r.sample = Some(json!({"sql": q.engine_sql(), "inlined": inlined}));
            }
            out.push(r);
        }
        out
    });
    rep.floor(rep.distinct_count() > 50, "too few distinct non-trivial CTE statements");
    rep.finish()
}

// ---------------------------------------------------------------------------
// C44 VALUES

pub fn run_c44(tier: Tier, seed: u64) -> i32 {
    let mut rep = Report::new(
        "C44",
        tier,
        seed,
        "exploration",
        "VALUES lists of 1..20 rows x 1..6 columns of integer / float / string / date / boolean literals and NULLs (incl. a NULL in the first row), bare, as a derived table with column aliases, filtered, aggregated and joined with a table; oracle = the list itself (rows and values as written), DataFusion as a second opinion. distinct = distinct (column-type tuple, shape, row count class)",
    );
    let mut rng = Rng::new(seed ^ 0xC44);
    let n = tier.pick(1500, 40_000);
    let db = vec![gen_table(&mut rng, "t0", &TableSpec { rows: 12, null_pct: 20, key: KeyClass::DenseDup, not_null: false })];
    let ctx = crate::eng::mem_ctx(&db);
    let dfc = df_ctx(&db);
    for case in 0..n {
        let ncols = 1 + rng.usize(6);
        let cap = *rng.pick(&[2usize, 5, 20]);
        let nrows = 1 + rng.usize(cap);
        let tys: Vec<u64> = (0..ncols).map(|_| rng.below(5)).collect();
        let mut rows: Vec<Row> = Vec::new();
        for ri in 0..nrows {
            let mut row = Vec::new();
            for (ci, t) in tys.iter().enumerate() {
                let null = rng.chance(1, 5) || (ri == 0 && ci == 0 && rng.chance(1, 4));
                // keep at least one non-NULL per column so its type is determined
                let null = null && !(ri == nrows - 1 && rows.iter().all(|r: &Row| r[ci].is_null()));
                row.push(if null {
                    Cell::Null
                } else {
                    match t {
                        0 => Cell::Int(rng.range(-5, 5)),
                        1 => Cell::F(rng.range(-20, 20) as f64 / 8.0 + 0.0625),
                        2 => Cell::S(rng.pick(crate::qgen::STRS).to_string()),
                        3 => Cell::Date(*rng.pick(&crate::qgen::dates())),
                        _ => Cell::Bool(rng.bool()),
                    }
                });
            }
            rows.push(row);
        }
        let list = rows.iter().map(|r| format!("({})", r.iter().map(|c| c.sql()).collect::<Vec<_>>().join(", "))).collect::<Vec<_>>().join(", ");
        let names: Vec<String> = (0..ncols).map(|i| format!("x{}", i)).collect();
        let shape = rng.below(5);
        let (sql, want): (String, Vec<Row>) = match shape {
            0 => (format!("VALUES {}", list), rows.clone()),
            1 => (format!("SELECT * FROM (VALUES {}) AS v({})", list, names.join(", ")), rows.clone()),
            2 => (
                format!("SELECT v.x0 AS c0 FROM (VALUES {}) AS v({}) WHERE v.x0 IS NOT NULL", list, names.join(", ")),
                rows.iter().filter(|r| !r[0].is_null()).map(|r| vec![r[0].clone()]).collect(),
            ),
            3 => (format!("SELECT COUNT(*) AS c0, COUNT(v.x0) AS c1 FROM (VALUES {}) AS v({})", list, names.join(", ")), vec![vec![Cell::Int(nrows as i64), Cell::Int(rows.iter().filter(|r| !r[0].is_null()).count() as i64)]]),
            _ => {
                // joined with a table on an integer column when the first column is integer
                if tys[0] != 0 {
                    continue;
                }
                let mut want = Vec::new();
                for r in &rows {
                    for t in &db[0].rows {
                        if let (Cell::Int(a), Cell::Int(b)) = (&r[0], &t[2]) {
                            if a == b {
                                want.push(vec![r[0].clone(), t[0].clone()]);
                            }
                        }
                    }
                }
                (format!("SELECT v.x0 AS c0, t0.id AS c1 FROM (VALUES {}) AS v({}) JOIN t0 ON v.x0 = t0.i1", list, names.join(", ")), want)
            }
        };
        rep.eval();
        rep.nontrivial(&(tys.clone(), shape, nrows.min(3)));
        if let Ok(d) = run_df(&dfc, &sql) {
            if multiset_eq(&d.rows, &want).is_err() {
                rep.count("datafusion_differs_from_the_list", 1);
                rep.inconclusive("oracle-disagreement");
                continue;
            }
        }
        match run_sql(&ctx, &sql) {
            Outcome::Ok(a) => {
                if let Err(why) = multiset_eq(&a.rows, &want) {
                    let sig = format!("values:{}", ["bare", "derived", "filtered", "aggregated", "joined"][shape as usize]);
                    rep.fail(&sig, &format!("{} :: {}", sql.chars().take(300).collect::<String>(), why), json!({"sql": sql, "engine": crate::canon::rows_json(&a.rows, 30), "expected": crate::canon::rows_json(&want, 30)}));
                }
            }
            Outcome::Err(e) => {
                rep.inconclusive("engine-error-permitted");
                rep.count(&format!("engine_err: {}", e.chars().take(70).collect::<String>()), 1);
            }
            o => rep.fail("values-panic", &format!("{} :: {}", sql.chars().take(200).collect::<String>(), o.short()), json!({"sql": sql})),
        }
        if case < 4 {
            rep.sample(json!({"sql": sql.chars().take(300).collect::<String>(), "expected_rows": want.len()}));
        }
    }
    let errs = rep.inconclusive_count("engine-error-permitted");
    rep.floor(errs * 2 < rep.evaluations.max(1), "more than half of the VALUES statements were rejected by the engine");
    rep.finish()
}

// ---------------------------------------------------------------------------
// C08 memory budget never changes an answer

pub fn run_c08(tier: Tier, seed: u64) -> i32 {
    let mut rep = Report::new(
        "C08",
        tier,
        seed,
        "exploration",
        "sorts (multi-key, ASC/DESC, NULLS FIRST/LAST, all key types incl. boolean and date), top-k (ORDER BY .. LIMIT k [OFFSET m] under a total order), inner and outer joins, grouped aggregates incl. COUNT(DISTINCT) over small and medium tables registered in several batches, and (every sixth database) a narrow sort of one 24-70 thousand row table whose runs exceed the merge read batch; every statement is executed with unlimited memory and under limits {64 B, 4 KiB, 16 KiB, 64 KiB, 256 KiB, 1 MiB, 3 MiB}; an Ok answer under a limit must equal the unlimited answer (sequence under ORDER BY up to identical rows, multiset otherwise), an explicit error is allowed. distinct = distinct (statement skeleton, limit) whose unlimited answer is non-empty",
    );
    let n_dbs = tier.pick(40, 700);
    let per_db = tier.pick(16, 24);
    let limits: Vec<usize> = vec![64, 4 << 10, 16 << 10, 64 << 10, 256 << 10, 1 << 20, 3 << 20];
    let seeds: Vec<u64> = (0..n_dbs).map(|i| seed.wrapping_mul(3_000_017).wrapping_add(i as u64)).collect();
    par_run(&mut rep, seeds, default_threads(), |sd| {
        let mut rng = Rng::new(sd ^ 0xC08);
        let sc = *rng.pick(&[SizeClass::Small, SizeClass::Small, SizeClass::Medium]);
        // every sixth database is one long table under a narrow sort only: with 24-70 thousand
        // rows the 256 KiB .. 3 MiB limits produce several runs that are each longer than
        // the merge's read batch (a run is re-read in pieces while others are mid-batch)
        let long_runs = sd % 6 == 5;
        let db = if long_runs {
            let rows = 24_000 + rng.usize(46_000);
            let key = *rng.pick(&[KeyClass::Unique, KeyClass::DenseDup, KeyClass::WideDup]);
            vec![gen_table(&mut rng, "t0", &TableSpec { rows, null_pct: 10, key, not_null: false })]
        } else {
            gen_db(&mut rng, 2, sc)
        };
        let per_db = if long_runs { 2 } else { per_db };
        let mk = |limit: Option<usize>| -> Arc<ExecutionContext> {
            let mut c = match limit {
                Some(l) => ExecutionContext::with_memory_limit(l),
                None => ExecutionContext::new(),
            };
            for t in &db {
                c.register_table(t.name.clone(), t.schema(), t.even_batches((t.rows.len() / 9).max(1)));
            }
            Arc::new(c)
        };
        let base_ctx = mk(None);
        let lim_ctxs: Vec<(usize, Arc<ExecutionContext>)> = limits.iter().map(|l| (*l, mk(Some(*l)))).collect();
        let mut out = Vec::new();
        for qi in 0..per_db {
            let mut qrng = rng.fork(qi as u64);
            let mut f = Feats::all();
            f.cross_join = false;
            let mut g = G::new(&mut qrng, f);
            g.total_order_limit = true;
            let q = match if long_runs { 0 } else { g.rng.below(10) } {
                // a narrow two-column sort of the largest table: long runs (more rows per run than the merge reads at once)
                0 if long_runs || g.rng.chance(1, 2) => {
                    let t = db.iter().max_by_key(|t| t.rows.len()).unwrap();
                    let desc = g.rng.bool();
                    let core = format!("SELECT r0.id AS c0, r0.i1 AS c1 FROM {} AS r0", t.name);
                    let mut q = GenQuery { sql: String::new(), full_sql: core.clone(), keys: vec![], limit: None, offset: 0, tags: vec!["order-by".into(), "narrow-sort".into()], ncols: 2 };
                    q.sql = format!("{} ORDER BY c1{} NULLS LAST, c0", core, if desc { " DESC" } else { "" });
                    q.keys = vec![crate::canon::SortKey { col: 1, desc, nulls_first: false }, crate::canon::SortKey { col: 0, desc: false, nulls_first: false }];
                    q
                }
                0..=2 => loop {
                    g.tags.clear();
                    let q = g.q_simple(&db, 1);
                    if !q.keys.is_empty() {
                        break q;
                    }
                },
                // an outer join feeding a GROUP BY with many groups: under a limit the
                // aggregate abandons its streaming attempt and executes its input again
                3 => {
                    let (a, b) = (&db[g.rng.usize(db.len())], &db[g.rng.usize(db.len())]);
                    let jt = *g.rng.pick(&["LEFT", "FULL", "RIGHT", "LEFT"]);
                    let keys = *g.rng.pick(&[("r0.d0", "r0.s0"), ("r0.id", "r0.s0"), ("r0.s0", "r0.i1"), ("r1.d0", "r1.s0"), ("r0.id", "r1.id")]);
                    let on = *g.rng.pick(&[("j0", "i0"), ("i0", "i0"), ("i1", "j0"), ("id", "i0")]);
                    // harness safety bound on the join's size (see qgen::JOIN_ROW_CAP)
                    let on = if crate::qgen::pair_est(a, on.0, b, on.1) + (a.rows.len() + b.rows.len()) as f64 > crate::qgen::JOIN_ROW_CAP { ("id", "id") } else { on };
                    let core = format!("SELECT {} AS c0, {} AS c1, COUNT(*) AS c2, MIN(r1.i1) AS c3 FROM {} AS r0 {} JOIN {} AS r1 ON r0.{} = r1.{} GROUP BY {}, {}", keys.0, keys.1, a.name, jt, b.name, on.0, on.1, keys.0, keys.1);
                    GenQuery { sql: core.clone(), full_sql: core, keys: vec![], limit: None, offset: 0, tags: vec![format!("{} JOIN", jt), "group-by".into(), "outer-join-agg".into()], ncols: 4 }
                }
                // an inner join on a composite key with a BOOLEAN part (key types of the spilled join)
                4 if g.rng.chance(1, 3) => {
                    let (a, b) = (&db[g.rng.usize(db.len())], &db[g.rng.usize(db.len())]);
                    let core = format!("SELECT r0.id AS c0, r1.id AS c1, r0.b0 AS c2 FROM {} AS r0 JOIN {} AS r1 ON r0.b0 = r1.b0 AND r0.id = r1.id", a.name, b.name);
                    GenQuery { sql: core.clone(), full_sql: core, keys: vec![], limit: None, offset: 0, tags: vec!["JOIN".into(), "boolean-key".into()], ncols: 3 }
                }
                // aggregates, mostly over joins
                4..=6 => g.q_agg(&db, 2),
                _ => g.q_simple(&db, 2),
            };
            let sql = q.engine_sql();
            let base = run_sql(&base_ctx, &sql);
            let Outcome::Ok(b) = &base else {
                let mut r = CaseResult::default();
                r.inconclusive = Some("unlimited-run-errors".into());
                out.push(r);
                continue;
            };
            for (l, c) in &lim_ctxs {
                let mut r = CaseResult::default();
                let got = run_sql(c, &sql);
                match &got {
                    Outcome::Ok(a) => {
                        if !b.rows.is_empty() {
                            r.nontrivial = Some(format!("{}|{}", q.skeleton(), l));
                        }
                        let ordered = !q.keys.is_empty();
                        let same = if ordered && a.rows.len() == b.rows.len() && a.rows.iter().zip(b.rows.iter()).all(|(x, y)| crate::canon::row_eq(x, y)) {
                            Ok(())
                        } else if ordered && q.limit.is_none() {
                            // same multiset AND sorted by the keys
                            multiset_eq(&a.rows, &b.rows).and_then(|_| crate::canon::ordered_window_check(&a.rows, &b.rows, &q.keys, 0, None))
                        } else if ordered {
                            Err(format!("sequence differs under a total order: {} rows vs {} rows{}", a.rows.len(), b.rows.len(), a.rows.iter().zip(b.rows.iter()).position(|(x, y)| !crate::canon::row_eq(x, y)).map(|i| format!(", first difference at {}: {} vs {}", i, crate::canon::fmt_row(&a.rows[i]), crate::canon::fmt_row(&b.rows[i]))).unwrap_or_default()))
                        } else {
                            multiset_eq(&a.rows, &b.rows)
                        };
                        if let Err(why) = same {
                            let kind = if q.tags.iter().any(|t| t == "group-by" || t == "global-agg") {
                                "aggregate"
                            } else if q.tags.iter().any(|t| t.contains("JOIN")) {
                                "join"
                            } else if q.limit.is_some() {
                                "top-k"
                            } else if ordered {
                                "sort"
                            } else {
                                "scan"
                            };
                            let what = if why.contains("not ordered") { "order" } else if why.contains("row count") || why.contains("rows vs") { "row-count" } else { "rows" };
                            r.fail = Some((
                                format!("limit-changes-answer:{}:{}", kind, what),
                                format!("{} [limit {} B] :: {}", sql, l, why),
                                json!({"sql": sql, "memory_limit": l, "unlimited": base.json(30), "limited": got.json(30), "table_rows": db.iter().map(|t| t.rows.len()).collect::<Vec<_>>(), "regenerate": format!("db seed {}", sd)}),
                            ));
                        }
                    }
                    Outcome::Err(e) => {
                        r.inconclusive = Some("explicit-error-under-limit(allowed)".into());
                        r.counts.push((format!("limit_err: {}", e.chars().take(70).collect::<String>()), 1));
                    }
                    Outcome::Timeout => {
                        // a loaded machine is not a verdict
                        r.inconclusive = Some("timeout-under-limit".into());
                    }
                    o => {
                        r.fail = Some((format!("limit-panic"), format!("{} [limit {} B] :: {}", sql, l, o.short()), json!({"sql": sql, "memory_limit": l})));
                    }
                }
                if qi == 0 && sd % 16 == 0 && *l == 16 << 10 {
                    r.sample = Some(json!({"sql": sql, "memory_limit": l, "unlimited_rows": b.rows.len(), "limited": got.short()}));
                }
                out.push(r);
            }
            // spill evidence
            let spilled: usize = lim_ctxs.iter().map(|(_, c)| c.memory_pool().spilled()).sum();
            let mut r = CaseResult::default();
            r.counts.push(("bytes_spilled_total_so_far_max".into(), 0));
            if spilled > 0 {
                r.counts.push(("statements_after_which_spill_bytes_were_recorded".into(), 1));
            }
            out.push(r);
        }
        out
    });
    rep.floor(rep.distinct_count() > 100, "too few distinct non-trivial (statement, limit) pairs");
    rep.finish()
}


/// Debug aid (not a registered check): rebuild the database of C21 seed `SD`,
/// put it behind a fresh 64 KiB context and run statements 0..=UPTO on it in
/// order, printing row counts of the engine and the reference.
pub fn c21_repro() -> i32 {
    let sd: u64 = std::env::var("SD").ok().and_then(|s| s.parse().ok()).unwrap_or(0);
    let upto: usize = std::env::var("UPTO").ok().and_then(|s| s.parse().ok()).unwrap_or(3);
    let only: Option<usize> = std::env::var("ONLY").ok().and_then(|s| s.parse().ok());
    let limit: usize = std::env::var("MEM").ok().and_then(|s| s.parse().ok()).unwrap_or(64 * 1024);
    let mut rng = Rng::new(sd ^ 0xC21);
    let sc = *rng.pick(&[SizeClass::Tiny, SizeClass::Small, SizeClass::Small, SizeClass::Medium]);
    let db = gen_db(&mut rng, 2, sc);
    println!("tables: {:?}", db.iter().map(|t| (t.name.clone(), t.rows.len())).collect::<Vec<_>>());
    let mut c = ExecutionContext::with_memory_limit(limit);
    for t in &db {
        c.register_table(t.name.clone(), t.schema(), t.even_batches((t.rows.len() / 5).max(1)));
    }
    let ctx = Arc::new(c);
    let dfc = df_ctx(&db);
    if let Ok(dir) = std::env::var("DUMP") {
        for t in &db {
            let p = crate::data::write_parquet_table(std::path::Path::new(&dir), t, &crate::data::PqOpts { files: 1, rg_rows: 1 << 20, dictionary: false, snappy: false, stats: true });
            println!("dumped {} rows of {} to {}", t.rows.len(), t.name, p.display());
        }
    }
    if let Ok(sqls) = std::env::var("SQL") {
        for one in sqls.split(";;") {
            if std::env::var("PLAN").is_ok() {
                match ctx.physical_plan(one.trim()) {
                    Ok(p) => println!("physical plan: {:?}", p),
                    Err(e) => println!("plan error: {}", e),
                }
            }
            let e = run_sql(&ctx, one.trim());
            let r = run_df(&dfc, one.trim());
            println!("engine {} | reference {} rows :: {}", e.short().chars().take(70).collect::<String>(), r.map(|a| a.rows.len() as i64).unwrap_or(-1), one.trim().chars().take(170).collect::<String>());
        }
        return 0;
    }
    for qi in 0..=upto {
        let mut qrng = rng.fork(qi as u64);
        let mut f = Feats::all();
        f.limit = false;
        f.cross_join = false;
        let mut g = G::new(&mut qrng, f);
        let q = g.q_agg(&db, 2);
        if let Some(o) = only {
            if o != qi {
                continue;
            }
        }
        let e = run_sql(&ctx, &q.engine_sql());
        let r = run_df(&dfc, &q.ref_full_sql());
        println!("qi={} engine {} | reference {} rows | pool {} :: {}", qi, e.short().chars().take(60).collect::<String>(), r.map(|a| a.rows.len() as i64).unwrap_or(-1), ctx.memory_used(), q.engine_sql().chars().take(150).collect::<String>());
    }
    0
}
