//! C41 Chunked metastore responses decode exactly.

use crate::report::{Report, Tier};
use crate::rng::Rng;
use query_engine::metastore::gravitino::verif_dechunk;
use serde_json::json;

struct Enc {
    bytes: Vec<u8>,
    /// offsets where each chunk-size line starts, for targeted damage
    size_lines: Vec<(usize, usize)>,
    /// offset of the CRLF that terminates each chunk's data
    data_crlf: Vec<usize>,
    has_ext: bool,
    has_trailer: bool,
}

fn encode(rng: &mut Rng, body: &[u8], ext: bool, trailer: bool, one_byte: bool) -> Enc {
    let mut out = Vec::new();
    let mut size_lines = Vec::new();
    let mut data_crlf = Vec::new();
    let mut i = 0;
    let mut has_ext = false;
    while i < body.len() {
        let cap = *rng.pick(&[1usize, 3, 16, 300, 5000]);
        let n = if one_byte { 1 } else { 1 + rng.usize((body.len() - i).min(cap)) };
        let n = n.min(body.len() - i);
        let start = out.len();
        let hex = match rng.below(3) {
            0 => format!("{:x}", n),
            1 => format!("{:X}", n),
            _ => format!("{:0w$x}", n, w = 1 + rng.usize(6)),
        };
        out.extend_from_slice(hex.as_bytes());
        if ext && rng.chance(2, 3) {
            has_ext = true;
            let e = *rng.pick(&[";a=b", ";name=value", ";x", "; q=\"1\"", ";a=b;c=d"]);
            out.extend_from_slice(e.as_bytes());
        }
        size_lines.push((start, out.len()));
        out.extend_from_slice(b"\r\n");
        out.extend_from_slice(&body[i..i + n]);
        data_crlf.push(out.len());
        out.extend_from_slice(b"\r\n");
        i += n;
    }
    out.extend_from_slice(b"0");
    if ext && rng.chance(1, 4) {
        has_ext = true;
        out.extend_from_slice(b";last");
    }
    out.extend_from_slice(b"\r\n");
    if trailer {
        out.extend_from_slice(b"X-Checksum: abc\r\n");
    }
    out.extend_from_slice(b"\r\n");
    Enc { bytes: out, size_lines, data_crlf, has_ext, has_trailer: trailer }
}

fn body_of(rng: &mut Rng, max: usize) -> Vec<u8> {
    let n = match rng.below(5) {
        0 => 0,
        1 => rng.usize(4),
        2 => rng.usize(64),
        3 => rng.usize(1000),
        _ => rng.usize(max),
    };
    let kind = rng.below(3);
    (0..n)
        .map(|_| match kind {
            0 => *rng.pick(b"{\"a\": [1,2,3], \"name\": \"x\"}\r\n"),
            1 => rng.below(256) as u8,
            _ => *rng.pick(&[b'\r', b'\n', b'0', b'a', b';']),
        })
        .collect()
}

fn dechunk_guarded(b: &[u8]) -> Result<Option<Vec<u8>>, String> {
    let b = b.to_vec();
    match std::panic::catch_unwind(move || verif_dechunk(&b)) {
        Ok(r) => Ok(r),
        Err(p) => Err(p.downcast_ref::<String>().cloned().or_else(|| p.downcast_ref::<&str>().map(|s| s.to_string())).unwrap_or_default()),
    }
}

pub fn run(tier: Tier, seed: u64) -> i32 {
    let mut rep = Report::new(
        "C41",
        tier,
        seed,
        "exploration",
        "bodies 0..64KiB encoded with random chunkings (1-byte chunks, upper/lower hex, leading zeros, chunk extensions, trailers) must decode to the body; valid encodings damaged in one known way (truncation at every offset for small encodings, bad hex, missing chunk CRLF, missing final chunk, oversized sizes 2^63..2^64+1) must be rejected; arbitrary bytes must not panic. distinct = distinct encodings with >= 1 chunk",
    );
    let mut rng = Rng::new(seed ^ 0xC41);
    let n = tier.pick(6_000, 150_000);
    let mut damaged = 0u64;
    for case in 0..n {
        let body = body_of(&mut rng, tier.pick(8_000, 65_536));
        let ext = rng.chance(1, 3);
        let trailer = rng.chance(1, 8);
        let one = rng.chance(1, 10) && body.len() < 2000;
        let enc = encode(&mut rng, &body, ext, trailer, one);
        rep.eval();
        if !enc.size_lines.is_empty() {
            rep.nontrivial(&enc.bytes);
        }
        let head = String::from_utf8_lossy(&enc.bytes[..enc.bytes.len().min(80)]).to_string();
        if case < 3 {
            rep.sample(json!({"encoded_prefix": head, "body_len": body.len(), "chunks": enc.size_lines.len(), "extensions": enc.has_ext}));
        }
        let replay = json!({"encoded_hex": hex(&enc.bytes[..enc.bytes.len().min(4096)]), "body_len": body.len(), "extensions": enc.has_ext, "trailer": enc.has_trailer});
        match dechunk_guarded(&enc.bytes) {
            Err(p) => rep.fail("panic", &format!("decoder panicked on a valid encoding: {}", p), replay.clone()),
            Ok(Some(got)) if got == body => {}
            Ok(Some(got)) => rep.fail(
                if enc.has_ext { "valid-wrong-body-ext" } else { "valid-wrong-body" },
                &format!("decoded {} bytes, body has {} ({:?}..)", got.len(), body.len(), head),
                replay.clone(),
            ),
            Ok(None) => rep.fail(
                if enc.has_ext { "valid-rejected-ext" } else if enc.has_trailer { "valid-rejected-trailer" } else { "valid-rejected" },
                &format!("valid encoding rejected ({:?}..)", head),
                replay.clone(),
            ),
        }
        if enc.has_ext || enc.size_lines.is_empty() {
            continue;
        }
        // --- damage in one known way; each must be rejected (None), never panic
        // (a) truncation strictly inside the chunk stream (before the final
        // zero-size line is complete): a prefix that ends before the last
        // chunk's terminating "0\r\n" cannot be a complete message.
        let last_zero = enc.bytes.len() - if enc.has_trailer { 22 } else { 5 };
        let cuts: Vec<usize> = if enc.bytes.len() <= tier.pick(300, 2000) { (0..last_zero + 2).collect() } else { (0..12).map(|_| rng.usize(last_zero + 2)).collect() };
        for cut in cuts {
            damaged += 1;
            rep.eval();
            match dechunk_guarded(&enc.bytes[..cut]) {
                Err(p) => rep.fail("panic", &format!("panic on truncation at {}: {}", cut, p), json!({"encoded_hex": hex(&enc.bytes[..cut.min(4096)])})),
                Ok(Some(got)) => {
                    // A truncated stream can only be accepted if the prefix is
                    // itself a complete chunked message — impossible before the
                    // final zero chunk unless the body bytes happen to spell one;
                    // bodies of kind 2 can (they contain '0','\r','\n'), so only
                    // flag when the result is not a proper prefix decoding.
                    if !is_complete_message(&enc.bytes[..cut]) {
                        rep.fail("truncated-accepted", &format!("prefix of {} bytes (of {}) accepted with {} body bytes", cut, enc.bytes.len(), got.len()), json!({"encoded_hex": hex(&enc.bytes[..cut.min(4096)])}));
                    }
                }
                Ok(None) => {}
            }
        }
        // (b) bad hex in a size line
        {
            let (s, _e) = enc.size_lines[rng.usize(enc.size_lines.len())];
            let mut b = enc.bytes.clone();
            b[s] = *rng.pick(&[b'g', b'z', b'-', b' ', b'+']);
            // "+5" parses as hex 5 in Rust; a space is trimmed. Only g/z/- are unambiguous junk.
            if matches!(b[s], b'g' | b'z' | b'-') {
                damaged += 1;
                rep.eval();
                match dechunk_guarded(&b) {
                    Err(p) => rep.fail("panic", &format!("panic on bad hex: {}", p), json!({"encoded_hex": hex(&b[..b.len().min(4096)])})),
                    Ok(Some(_)) => rep.fail("badhex-accepted", "size line with a non-hex digit accepted", json!({"encoded_hex": hex(&b[..b.len().min(4096)])})),
                    Ok(None) => {}
                }
            }
        }
        // (c) the CRLF after a chunk's data replaced by two other bytes
        {
            let at = enc.data_crlf[rng.usize(enc.data_crlf.len())];
            let mut b = enc.bytes.clone();
            b[at] = b'X';
            b[at + 1] = b'Y';
            damaged += 1;
            rep.eval();
            match dechunk_guarded(&b) {
                Err(p) => rep.fail("panic", &format!("panic on missing chunk CRLF: {}", p), json!({"encoded_hex": hex(&b[..b.len().min(4096)])})),
                Ok(Some(_)) => rep.fail("missing-crlf-accepted", "chunk data not followed by CRLF was accepted", json!({"encoded_hex": hex(&b[..b.len().min(4096)])})),
                Ok(None) => {}
            }
        }
        // (d) oversized chunk sizes
        for big in ["7fffffffffffffff", "8000000000000000", "fffffffffffffffe", "ffffffffffffffff", "10000000000000001"] {
            if rng.chance(1, 4) {
                let mut b = Vec::new();
                b.extend_from_slice(big.as_bytes());
                b.extend_from_slice(b"\r\n");
                b.extend_from_slice(&body[..body.len().min(10)]);
                b.extend_from_slice(b"\r\n0\r\n\r\n");
                damaged += 1;
                rep.eval();
                match dechunk_guarded(&b) {
                    Err(p) => rep.fail("panic-oversize", &format!("panic on chunk size {}: {}", big, p), json!({"encoded": String::from_utf8_lossy(&b)})),
                    Ok(Some(_)) => rep.fail("oversize-accepted", &format!("chunk size {} accepted", big), json!({"encoded": String::from_utf8_lossy(&b)})),
                    Ok(None) => {}
                }
            }
        }
    }
    // arbitrary byte strings: never panic
    let m = tier.pick(20_000, 600_000);
    for _ in 0..m {
        let len = rng.usize(64);
        let alphabet: &[u8] = b"0123456789abcdefABCDEF\r\n\r\n;= xz";
        let b: Vec<u8> = (0..len).map(|_| if rng.chance(1, 10) { rng.below(256) as u8 } else { *rng.pick(alphabet) }).collect();
        rep.eval();
        if let Err(p) = dechunk_guarded(&b) {
            rep.fail("panic", &format!("panic on arbitrary bytes: {}", p), json!({"bytes_hex": hex(&b)}));
        }
    }
    rep.set("damaged_inputs", json!(damaged));
    crate::eng::take_panics();
    rep.finish()
}

/// Independent strict parser: is `b` exactly one complete chunked message
/// (possibly followed by trailer bytes)? Used only to excuse a truncated
/// prefix that happens to be complete.
fn is_complete_message(mut b: &[u8]) -> bool {
    loop {
        let Some(le) = b.windows(2).position(|w| w == b"\r\n") else { return false };
        let line = &b[..le];
        let hexpart = line.split(|c| *c == b';').next().unwrap_or(&[]);
        let Ok(s) = std::str::from_utf8(hexpart) else { return false };
        let Ok(n) = u64::from_str_radix(s.trim(), 16) else { return false };
        b = &b[le + 2..];
        if n == 0 {
            return true;
        }
        let n = n as usize;
        if b.len() < n.saturating_add(2) || &b[n..n + 2] != b"\r\n" {
            return false;
        }
        b = &b[n + 2..];
    }
}

fn hex(b: &[u8]) -> String {
    b.iter().map(|x| format!("{:02x}", x)).collect()
}
