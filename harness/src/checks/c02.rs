//! C02 Three-valued logic decides which rows a predicate keeps.
//!
//! Oracle: the harness's own Kleene evaluator over a predicate AST, validated
//! against DataFusion on every tree. The table holds every combination of
//! {NULL, 1, 2, 3} for three columns, so every operand-nullness combination of
//! every tree is exercised.

use crate::canon::{multiset_eq, Row};
use crate::data::{write_parquet_table, Cell, Col, PqOpts, Scratch, Table, Ty};
use crate::eng::{df_ctx, run_df, run_sql, Outcome};
use crate::report::{Report, Tier};
use crate::rng::Rng;
use crate::sqldiff::{default_threads, par_run, CaseResult};
use query_engine::ExecutionContext;
use serde_json::json;
use std::sync::Arc;

#[derive(Clone, Debug)]
pub enum V {
    Col(usize),
    Lit(Option<i64>),
    /// arithmetic over two operands: '+', '-', '*'
    Arith(char, Box<V>, Box<V>),
}

#[derive(Clone, Debug)]
pub enum P {
    Cmp(&'static str, V, V),
    IsNull(V, bool),
    In(V, Vec<Option<i64>>, bool),
    Between(V, V, V, bool),
    And(Box<P>, Box<P>),
    Or(Box<P>, Box<P>),
    Not(Box<P>),
    Const(bool),
}

const COLS: [&str; 3] = ["a", "b", "c"];

impl V {
    fn sql(&self) -> String {
        match self {
            V::Col(i) => format!("k.{}", COLS[*i]),
            V::Lit(Some(n)) => n.to_string(),
            V::Lit(None) => "NULL".into(),
            V::Arith(op, a, b) => format!("({} {} {})", a.sql(), op, b.sql()),
        }
    }
    fn eval(&self, row: &[Option<i64>]) -> Option<i64> {
        match self {
            V::Col(i) => row[*i],
            V::Lit(v) => *v,
            V::Arith(op, a, b) => {
                let (x, y) = (a.eval(row)?, b.eval(row)?);
                Some(match op {
                    '+' => x + y,
                    '-' => x - y,
                    _ => x * y,
                })
            }
        }
    }
}

pub fn and3(a: Option<bool>, b: Option<bool>) -> Option<bool> {
    match (a, b) {
        (Some(false), _) | (_, Some(false)) => Some(false),
        (Some(true), Some(true)) => Some(true),
        _ => None,
    }
}
pub fn or3(a: Option<bool>, b: Option<bool>) -> Option<bool> {
    match (a, b) {
        (Some(true), _) | (_, Some(true)) => Some(true),
        (Some(false), Some(false)) => Some(false),
        _ => None,
    }
}

impl P {
    pub fn sql(&self) -> String {
        match self {
            P::Cmp(op, a, b) => format!("{} {} {}", a.sql(), op, b.sql()),
            P::IsNull(v, neg) => format!("{} IS {}NULL", v.sql(), if *neg { "NOT " } else { "" }),
            P::In(v, l, neg) => format!(
                "{} {}IN ({})",
                v.sql(),
                if *neg { "NOT " } else { "" },
                l.iter().map(|x| x.map(|n| n.to_string()).unwrap_or("NULL".into())).collect::<Vec<_>>().join(", ")
            ),
            P::Between(v, lo, hi, neg) => format!("{} {}BETWEEN {} AND {}", v.sql(), if *neg { "NOT " } else { "" }, lo.sql(), hi.sql()),
            P::And(a, b) => format!("({} AND {})", a.sql(), b.sql()),
            P::Or(a, b) => format!("({} OR {})", a.sql(), b.sql()),
            P::Not(a) => format!("(NOT {})", a.sql()),
            P::Const(b) => if *b { "TRUE" } else { "FALSE" }.into(),
        }
    }
    pub fn eval(&self, row: &[Option<i64>]) -> Option<bool> {
        match self {
            P::Cmp(op, a, b) => {
                let (x, y) = (a.eval(row)?, b.eval(row)?);
                Some(match *op {
                    "=" => x == y,
                    "<>" => x != y,
                    "<" => x < y,
                    "<=" => x <= y,
                    ">" => x > y,
                    _ => x >= y,
                })
            }
            P::IsNull(v, neg) => Some(v.eval(row).is_none() != *neg),
            P::In(v, l, neg) => {
                let x = v.eval(row);
                let mut acc = Some(false);
                for item in l {
                    let eq = match (x, item) {
                        (Some(a), Some(b)) => Some(a == *b),
                        _ => None,
                    };
                    acc = or3(acc, eq);
                }
                if *neg {
                    acc.map(|b| !b)
                } else {
                    acc
                }
            }
            P::Between(v, lo, hi, neg) => {
                let x = v.eval(row);
                let ge = match (x, lo.eval(row)) {
                    (Some(a), Some(b)) => Some(a >= b),
                    _ => None,
                };
                let le = match (x, hi.eval(row)) {
                    (Some(a), Some(b)) => Some(a <= b),
                    _ => None,
                };
                let r = and3(ge, le);
                if *neg {
                    r.map(|b| !b)
                } else {
                    r
                }
            }
            P::And(a, b) => and3(a.eval(row), b.eval(row)),
            P::Or(a, b) => or3(a.eval(row), b.eval(row)),
            P::Not(a) => a.eval(row).map(|b| !b),
            P::Const(b) => Some(*b),
        }
    }
    fn has(&self, f: &dyn Fn(&P) -> bool) -> bool {
        if f(self) {
            return true;
        }
        match self {
            P::And(a, b) | P::Or(a, b) => a.has(f) || b.has(f),
            P::Not(a) => a.has(f),
            _ => false,
        }
    }
    /// Failure signature: which construct classes the tree contains.
    pub fn classes(&self) -> String {
        let mut v = Vec::new();
        if self.has(&|p| matches!(p, P::And(..))) {
            v.push("and");
        }
        if self.has(&|p| matches!(p, P::Or(..))) {
            v.push("or");
        }
        if self.has(&|p| matches!(p, P::Not(..))) {
            v.push("not");
        }
        if self.has(&|p| matches!(p, P::In(_, l, _) if l.iter().any(|x| x.is_none()))) {
            v.push("in-null");
        } else if self.has(&|p| matches!(p, P::In(..))) {
            v.push("in");
        }
        if self.has(&|p| matches!(p, P::Between(..))) {
            v.push("between");
        }
        if self.has(&|p| matches!(p, P::Cmp(_, V::Lit(None), _) | P::Cmp(_, _, V::Lit(None)))) {
            v.push("cmp-null-literal");
        }
        if v.is_empty() {
            v.push("atom");
        }
        v.join("+")
    }
}

fn atoms() -> Vec<P> {
    let mut v = Vec::new();
    for op in ["=", "<>", "<", "<=", ">", ">="] {
        v.push(P::Cmp(op, V::Col(0), V::Col(1)));
        v.push(P::Cmp(op, V::Col(1), V::Lit(Some(2))));
    }
    v.push(P::Cmp("=", V::Lit(Some(2)), V::Col(2)));
    v.push(P::Cmp(">", V::Lit(Some(2)), V::Col(0)));
    v.push(P::IsNull(V::Col(0), false));
    v.push(P::IsNull(V::Col(1), true));
    v.push(P::IsNull(V::Col(2), false));
    v.push(P::In(V::Col(0), vec![Some(1), Some(3)], false));
    v.push(P::In(V::Col(1), vec![Some(2), None], false));
    v.push(P::In(V::Col(2), vec![Some(1)], true));
    v.push(P::In(V::Col(0), vec![Some(3), None], true));
    v.push(P::Between(V::Col(0), V::Lit(Some(1)), V::Lit(Some(2)), false));
    v.push(P::Between(V::Col(1), V::Col(0), V::Col(2), false));
    v.push(P::Between(V::Col(2), V::Lit(Some(2)), V::Col(1), true));
    v.push(P::Cmp("=", V::Col(2), V::Lit(None)));
    v.push(P::Const(true));
    v.push(P::Const(false));
    // reflexive comparisons: NULL where the operand is NULL, never a constant
    v.push(P::Cmp("=", V::Col(0), V::Col(0)));
    v.push(P::Cmp("<>", V::Col(1), V::Col(1)));
    v.push(P::Cmp("<=", V::Col(2), V::Col(2)));
    v.push(P::Cmp("<", V::Col(0), V::Col(0)));
    // arithmetic operands: NULL-strict
    v.push(P::Cmp(">", V::Arith('+', Box::new(V::Col(0)), Box::new(V::Col(1))), V::Lit(Some(3))));
    v.push(P::Cmp("=", V::Arith('*', Box::new(V::Col(2)), Box::new(V::Lit(Some(0)))), V::Lit(Some(0))));
    v.push(P::Cmp("=", V::Arith('-', Box::new(V::Col(1)), Box::new(V::Col(1))), V::Lit(Some(0))));
    v
}

fn table() -> (Table, Vec<[Option<i64>; 3]>) {
    let dom = [None, Some(1), Some(2), Some(3)];
    let mut rows = Vec::new();
    let mut vals = Vec::new();
    let mut id = 0i64;
    for a in dom {
        for b in dom {
            for c in dom {
                id += 1;
                let cell = |x: Option<i64>| x.map(Cell::Int).unwrap_or(Cell::Null);
                rows.push(vec![Cell::Int(id), cell(a), cell(b), cell(c)]);
                vals.push([a, b, c]);
            }
        }
    }
    let cols = vec![
        Col { name: "id".into(), ty: Ty::I64, nullable: false },
        Col { name: "a".into(), ty: Ty::I64, nullable: true },
        Col { name: "b".into(), ty: Ty::I64, nullable: true },
        Col { name: "c".into(), ty: Ty::I64, nullable: true },
    ];
    (Table { name: "k".into(), cols, rows }, vals)
}

fn one_table() -> Table {
    Table { name: "one".into(), cols: vec![Col { name: "x".into(), ty: Ty::I64, nullable: false }], rows: vec![vec![Cell::Int(1)]] }
}

fn b3(x: Option<bool>) -> Cell {
    x.map(Cell::Bool).unwrap_or(Cell::Null)
}

struct Ctxs {
    mem: Arc<ExecutionContext>,
    pq: Arc<ExecutionContext>,
    pq_rg: Arc<ExecutionContext>,
    df: datafusion::prelude::SessionContext,
}

/// All the contexts a tree is evaluated in. Returns (context name, sql, expected rows).
fn contexts(p: &P, vals: &[[Option<i64>; 3]]) -> Vec<(&'static str, String, Vec<Row>)> {
    let s = p.sql();
    let ids_true: Vec<Row> = vals.iter().enumerate().filter(|(_, r)| p.eval(&r[..]) == Some(true)).map(|(i, _)| vec![Cell::Int(i as i64 + 1)]).collect();
    let cell = |x: Option<i64>| x.map(Cell::Int).unwrap_or(Cell::Null);
    let mut out = Vec::new();
    out.push(("where", format!("SELECT k.id AS c0 FROM k WHERE {}", s), ids_true.clone()));
    out.push((
        "project",
        format!("SELECT k.id AS c0, ({}) AS c1 FROM k", s),
        vals.iter().enumerate().map(|(i, r)| vec![Cell::Int(i as i64 + 1), b3(p.eval(&r[..]))]).collect(),
    ));
    out.push((
        "case",
        format!("SELECT k.id AS c0, CASE WHEN {} THEN 1 ELSE 0 END AS c1 FROM k", s),
        vals.iter().enumerate().map(|(i, r)| vec![Cell::Int(i as i64 + 1), Cell::Int((p.eval(&r[..]) == Some(true)) as i64)]).collect(),
    ));
    out.push((
        "having",
        format!("SELECT k.a AS c0, k.b AS c1, k.c AS c2, COUNT(*) AS c3 FROM k GROUP BY k.a, k.b, k.c HAVING {}", s),
        vals.iter().filter(|r| p.eval(&r[..]) == Some(true)).map(|r| vec![cell(r[0]), cell(r[1]), cell(r[2]), Cell::Int(1)]).collect(),
    ));
    out.push(("on-inner", format!("SELECT k.id AS c0 FROM k JOIN one ON one.x = 1 AND {}", s), ids_true.clone()));
    out.push((
        "on-left",
        format!("SELECT k.id AS c0, one.x AS c1 FROM k LEFT JOIN one ON one.x = 1 AND {}", s),
        vals.iter().enumerate().map(|(i, r)| vec![Cell::Int(i as i64 + 1), if p.eval(&r[..]) == Some(true) { Cell::Int(1) } else { Cell::Null }]).collect(),
    ));
    out
}

fn gen_tree(rng: &mut Rng, atoms: &[P], depth: u32) -> P {
    if depth == 0 || rng.chance(1, 4) {
        return atoms[rng.usize(atoms.len())].clone();
    }
    match rng.below(3) {
        0 => P::And(Box::new(gen_tree(rng, atoms, depth - 1)), Box::new(gen_tree(rng, atoms, depth - 1))),
        1 => P::Or(Box::new(gen_tree(rng, atoms, depth - 1)), Box::new(gen_tree(rng, atoms, depth - 1))),
        _ => P::Not(Box::new(gen_tree(rng, atoms, depth - 1))),
    }
}

pub fn run(tier: Tier, seed: u64) -> i32 {
    let mut rep = Report::new(
        "C02",
        tier,
        seed,
        "exploration",
        "predicate trees over {=,<>,<,<=,>,>=, IS [NOT] NULL, [NOT] IN (with/without NULL), [NOT] BETWEEN, x = NULL, TRUE/FALSE, AND, OR, NOT}: every tree of the forms atom, NOT atom, atom AND/OR atom and NOT(atom AND/OR atom) over a 40-atom alphabet (exhaustive), plus random depth-3 trees; each evaluated on a table holding every combination of {NULL,1,2,3}^3 for the referenced columns, in WHERE, SELECT-list, CASE, HAVING, inner ON and left ON, over a memory table and two Parquet layouts; oracle = harness Kleene evaluator, itself cross-checked against DataFusion on every tree. distinct = distinct (tree, context, layout) triples",
    );
    let scratch = Scratch::new("c02");
    let (tab, vals) = table();
    let one = one_table();
    let mem = crate::eng::mem_ctx(&[tab.clone(), one.clone()]);
    let mk_pq = |sub: &str, o: &PqOpts| {
        let d = scratch.path().join(sub);
        std::fs::create_dir_all(&d).unwrap();
        let mut c = ExecutionContext::new();
        let p = write_parquet_table(&d, &tab, o);
        c.register_parquet("k", &p).unwrap();
        let p1 = write_parquet_table(&d, &one, &PqOpts::default());
        c.register_parquet("one", &p1).unwrap();
        Arc::new(c)
    };
    let ctxs = Ctxs {
        mem,
        pq: mk_pq("whole", &PqOpts::default()),
        pq_rg: mk_pq("rg", &PqOpts { files: 2, rg_rows: 5, dictionary: false, snappy: false, stats: true }),
        df: df_ctx(&[tab.clone(), one.clone()]),
    };
    let at = atoms();
    let mut trees: Vec<P> = Vec::new();
    for a in &at {
        trees.push(a.clone());
        trees.push(P::Not(Box::new(a.clone())));
    }
    for a in &at {
        for b in &at {
            trees.push(P::And(Box::new(a.clone()), Box::new(b.clone())));
            trees.push(P::Or(Box::new(a.clone()), Box::new(b.clone())));
            trees.push(P::Not(Box::new(P::And(Box::new(a.clone()), Box::new(b.clone())))));
            trees.push(P::Not(Box::new(P::Or(Box::new(a.clone()), Box::new(b.clone())))));
        }
    }
    let exhaustive_n = trees.len();
    let mut rng = Rng::new(seed ^ 0xC02);
    for _ in 0..tier.pick(1500, 40_000) {
        trees.push(gen_tree(&mut rng, &at, 3));
    }
    rep.set("exhaustive_trees", json!(exhaustive_n));
    rep.set("random_depth3_trees", json!(trees.len() - exhaustive_n));
    rep.set("exhaustive_subspace", json!("all trees atom | NOT atom | atom AND/OR atom | NOT(atom AND/OR atom) over the atom alphabet, every operand-nullness combination (4^3 rows)"));
    let idx: Vec<u64> = (0..trees.len() as u64).collect();
    let quick = tier == Tier::Quick;
    par_run(&mut rep, idx, default_threads(), |i| {
        let p = &trees[i as usize];
        let mut out = Vec::new();
        // model vs DataFusion (validates the oracle itself)
        let cx = contexts(p, &vals);
        let (_, wsql, wexp) = &cx[0];
        match run_df(&ctxs.df, wsql) {
            Ok(a) => {
                if multiset_eq(&a.rows, wexp).is_err() {
                    let mut r = CaseResult::default();
                    // second opinion: SQLite. If it sides with the model the oracle
                    // stands and DataFusion's answer is set aside for this tree.
                    if let Ok(srows) = crate::arbiter::run_sqlite(&[tab.clone(), one.clone()], wsql) {
                        if multiset_eq(&srows, wexp).is_ok() {
                            r.counts.push((format!("datafusion_disagrees_sqlite_sides_with_model: {}", p.sql().chars().take(80).collect::<String>()), 1));
                            r.counts.push(("datafusion_disagreements_resolved_by_sqlite".into(), 1));
                            out.push(r);
                            // fall through to the engine checks below
                            return engine_contexts(p, &vals, i, exhaustive_n, quick, &ctxs, out);
                        }
                    }
                    r.inconclusive = Some("model-vs-datafusion-disagree".into());
                    r.counts.push((format!("oracle_disagreement: {}", p.sql().chars().take(80).collect::<String>()), 1));
                    out.push(r);
                    return out;
                }
            }
            Err(_) => {
                let mut r = CaseResult::default();
                r.inconclusive = Some("reference-rejected".into());
                out.push(r);
            }
        }
        engine_contexts(p, &vals, i, exhaustive_n, quick, &ctxs, out)
    });
    let errs = rep.inconclusive_count("engine-error-permitted");
    rep.floor(errs * 2 < rep.evaluations, "more than half of the statements were rejected by the engine");
    rep.floor(rep.inconclusive_count("model-vs-datafusion-disagree") == 0, "the Kleene model disagrees with DataFusion on some tree and SQLite did not side with the model (oracle not validated)");
    rep.assumptions.push("the harness Kleene evaluator is the oracle; DataFusion must agree with it on every tree, or SQLite must, or the run is inconclusive".into());
    rep.finish()
}

fn engine_contexts(p: &P, vals: &[[Option<i64>; 3]], i: u64, exhaustive_n: usize, quick: bool, ctxs: &Ctxs, mut out: Vec<CaseResult>) -> Vec<CaseResult> {
    let cx = contexts(p, vals);
    {
        // In quick, exhaustive trees go through all contexts on memory and
        // WHERE/project on Parquet; random ones through a rotating subset.
        for (ci, (cname, sql, exp)) in cx.iter().enumerate() {
            let layouts: Vec<(&str, &Arc<ExecutionContext>)> = if (i as usize) < exhaustive_n || !quick {
                if ci <= 1 || !quick {
                    vec![("mem", &ctxs.mem), ("parquet", &ctxs.pq), ("parquet-rg5", &ctxs.pq_rg)]
                } else {
                    vec![("mem", &ctxs.mem)]
                }
            } else if ci == (i as usize) % cx.len() || ci == 0 {
                vec![("mem", &ctxs.mem), ("parquet-rg5", &ctxs.pq_rg)]
            } else {
                vec![]
            };
            for (lname, c) in layouts {
                let mut r = CaseResult::default();
                r.nontrivial = Some(format!("{}|{}|{}", sql, cname, lname));
                match run_sql(c, sql) {
                    Outcome::Ok(a) => {
                        if let Err(why) = multiset_eq(&a.rows, exp) {
                            let sig = format!("{}:{}", cname, p.classes());
                            r.fail = Some((
                                sig,
                                format!("{} [{}] :: {}", sql, lname, why),
                                json!({"sql": sql, "layout": lname, "context": cname, "engine_rows": crate::canon::rows_json(&a.rows, 70), "expected_rows": crate::canon::rows_json(exp, 70), "table": "k(id,a,b,c) = every combination of {NULL,1,2,3}^3, id in lexicographic order; one(x)=1"}),
                            ));
                        }
                    }
                    Outcome::Err(e) => {
                        r.inconclusive = Some("engine-error-permitted".into());
                        r.counts.push((format!("engine_err[{}]: {}", cname, e.chars().take(60).collect::<String>()), 1));
                    }
                    Outcome::Panic(e) => {
                        r.inconclusive = Some("engine-panic".into());
                        r.counts.push((format!("engine_panic: {}", e.chars().take(60).collect::<String>()), 1));
                    }
                    Outcome::Timeout => r.inconclusive = Some("timeout".into()),
                }
                if i == 40 && lname == "mem" {
                    r.sample = Some(json!({"sql": sql, "context": cname, "expected_rows": exp.len()}));
                }
                out.push(r);
            }
        }
    }
    out
}
