//! C33 Memory pool accounting is exact under concurrency.
//!
//! (a) Miri: the real memory.rs compiled stand-alone in /verif/harness-miri,
//!     run under Miri's randomised scheduler with many seeds (data races, UB
//!     and the shadow-accounting monitor).
//! (b) native stress on the linked crate with the seeded delay hook between
//!     the load and the CAS of try_allocate.

use crate::report::{verif_root, Report, Tier};
use serde_json::json;
use std::collections::HashSet;

mod wl {
    use query_engine::execution::{MemoryPool, MemoryReservation};
    include!("../../../harness-miri/src/workload.rs");
}

pub fn run(tier: Tier, seed: u64) -> i32 {
    let mut rep = Report::new(
        "C33",
        tier,
        seed,
        "exploration",
        "concurrent histories of try_allocate / allocate / resize / drop from 2-16 threads on one pool with contended limits; shadow accounting: live conditional grants never exceed the limit, sampled used() never exceeds limit + live forced bytes and never wraps, used() equals the sum of live reservations at the quiescent point and 0 after all are dropped. Run natively (delay hook between load and CAS) and under Miri (scheduler + weak-memory emulation; also reports data races/UB). distinct = distinct interleavings (hash of the global order of thread ids and operation kinds)",
    );
    // ---- (b) native ---------------------------------------------------------
    query_engine::verif::set_delays(seed | 1, 40);
    let rounds = tier.pick(4_000u64, 120_000);
    let mut inter = HashSet::new();
    let (mut ops, mut grants, mut denials, mut forced, mut samples) = (0u64, 0u64, 0u64, 0u64, 0u64);
    for r in 0..rounds {
        let s = seed.wrapping_mul(1_000_003).wrapping_add(r);
        let threads = 2 + (s % 15) as usize;
        let threads = if r % 4 == 0 { threads } else { 2 + (s % 4) as usize };
        let nops = 5 + (s % 40) as usize;
        let allow_forced = r % 3 == 0;
        let limit = [100usize, 100, 61, 1, 1000][(s % 5) as usize];
        let o = wl::run_history(s, threads, nops, limit, allow_forced);
        rep.eval();
        inter.insert(o.interleaving_hash);
        ops += o.ops;
        grants += o.grants;
        denials += o.denials;
        forced += o.forced;
        samples += o.samples;
        for v in &o.violations {
            let sig = if v.starts_with("over-grant") {
                "over-grant"
            } else if v.contains("underflow") {
                "underflow"
            } else if v.starts_with("quiescent") {
                "quiescent-mismatch"
            } else if v.starts_with("after dropping") {
                "nonzero-after-drop"
            } else if v.contains("exceeds limit") {
                "used-above-limit"
            } else {
                "accounting"
            };
            rep.fail(sig, v, json!({"engine": "native", "history_seed": s, "threads": threads, "ops_per_thread": nops, "limit": limit, "forced": allow_forced}));
        }
        if r < 2 {
            rep.sample(json!({"engine": "native", "history_seed": s, "threads": threads, "ops_per_thread": nops, "limit": limit, "grants": o.grants, "denials": o.denials, "interleaving": format!("{:016x}", o.interleaving_hash)}));
        }
    }
    query_engine::verif::set_delays(0, 0);
    // resize-window scenario (no delays: the window, if any, is between two
    // atomics of the pool itself) and the sequential boundary model
    let classify = |v: &str| -> &'static str {
        if v.starts_with("over-grant") {
            "over-grant"
        } else if v.contains("underflow") {
            "underflow"
        } else if v.starts_with("quiescent") {
            "quiescent-mismatch"
        } else if v.starts_with("after dropping") {
            "nonzero-after-drop"
        } else {
            "accounting"
        }
    };
    let rw_rounds = tier.pick(40u64, 600);
    let (mut rw_inside, mut rw_resizes) = (0u64, 0u64);
    for r in 0..rw_rounds {
        let s = seed.wrapping_mul(7_000_003).wrapping_add(r);
        let probers = 1 + (s % 5) as usize;
        let o = wl::run_resize_window(s, probers, 20, 400);
        rep.eval();
        inter.insert(o.interleaving_hash);
        rw_inside += o.samples;
        rw_resizes += 20 * 400;
        ops += o.ops;
        grants += o.grants;
        denials += o.denials;
        for v in &o.violations {
            rep.fail(classify(v), v, json!({"engine": "native", "scenario": "resize-window", "history_seed": s, "probers": probers}));
        }
    }
    rep.set("resize_window", json!({"histories": rw_rounds, "resizes": rw_resizes, "requests_entirely_inside_a_resizing_epoch": rw_inside}));
    rep.floor(rw_inside > 100, "resize-window scenario: too few requests fell entirely inside a resizing epoch");
    let b_rounds = tier.pick(3_000u64, 60_000);
    let (mut b_grants, mut b_denials, mut b_forced) = (0u64, 0u64, 0u64);
    for r in 0..b_rounds {
        let s = seed.wrapping_mul(9_000_011).wrapping_add(r);
        let limit = [usize::MAX, usize::MAX, usize::MAX - 1, usize::MAX / 2, 1000, 0][(s % 6) as usize];
        let o = wl::run_boundary(s, 30, limit);
        rep.eval();
        inter.insert(o.interleaving_hash);
        b_grants += o.grants;
        b_denials += o.denials;
        b_forced += o.forced;
        ops += o.ops;
        for v in &o.violations {
            rep.fail(classify(v), v, json!({"engine": "native", "scenario": "boundary", "history_seed": s, "limit": limit.to_string()}));
        }
    }
    rep.set("boundary_model", json!({"histories": b_rounds, "grants": b_grants, "denials": b_denials, "forced": b_forced}));
    for h in &inter {
        rep.nontrivial(&("native", h));
    }
    rep.set("native", json!({"histories": rounds, "operations": ops, "grants": grants, "denials": denials, "forced_allocations": forced, "pool_samples": samples, "distinct_interleavings": inter.len()}));
    rep.floor(grants > 0 && denials > 0, "native phase needs both granted and denied conditional reservations");

    // ---- (a) Miri -----------------------------------------------------------
    let dir = verif_root().join("harness-miri");
    let shards = tier.pick(4u64, 14);
    let many = tier.pick(16u64, 64);
    let per = tier.pick(6u64, 24);
    let mut children = Vec::new();
    for sh in 0..shards {
        let mut c = std::process::Command::new("cargo");
        c.current_dir(&dir)
            .env("CARGO_NET_OFFLINE", "true")
            .env("MIRIFLAGS", format!("-Zmiri-many-seeds={}..{}", sh * many, (sh + 1) * many))
            .args(["+nightly", "miri", "run", "--offline", "--quiet", "--"])
            .arg((seed.wrapping_mul(97).wrapping_add(sh)).to_string())
            .arg(per.to_string())
            .stdout(std::process::Stdio::piped())
            .stderr(std::process::Stdio::piped());
        match c.spawn() {
            Ok(ch) => children.push(ch),
            Err(e) => {
                rep.inconclusive("miri-spawn-failed");
                rep.set("miri_error", json!(e.to_string()));
            }
        }
    }
    let mut miri_hist = 0u64;
    let mut miri_inter = HashSet::new();
    let mut miri_reports = 0u64;
    for ch in children {
        let Ok(out) = ch.wait_with_output() else {
            rep.inconclusive("miri-wait-failed");
            continue;
        };
        let so = String::from_utf8_lossy(&out.stdout);
        let se = String::from_utf8_lossy(&out.stderr);
        for l in so.lines() {
            if let Some(rest) = l.strip_prefix("H ") {
                let f: Vec<&str> = rest.split_whitespace().collect();
                miri_hist += 1;
                rep.eval();
                if f.len() >= 2 {
                    miri_inter.insert(f[1].to_string());
                }
                if miri_hist <= 2 {
                    rep.sample(json!({"engine": "miri", "history_seed": f.first(), "interleaving": f.get(1), "ops": f.get(2), "grants": f.get(3), "denials": f.get(4)}));
                }
            } else if let Some(v) = l.strip_prefix("VIOL ") {
                let sig = if v.starts_with("over-grant") { "over-grant" } else if v.contains("underflow") { "underflow" } else if v.starts_with("quiescent") { "quiescent-mismatch" } else { "accounting" };
                rep.fail(sig, v, json!({"engine": "miri"}));
            }
        }
        // Miri's own findings: data race / undefined behaviour
        if se.contains("Undefined Behavior") || se.contains("Data race detected") {
            miri_reports += 1;
            let first = se.lines().find(|l| l.contains("error:")).unwrap_or("miri error").to_string();
            let sig = if se.contains("Data race detected") { "miri-data-race" } else { "miri-undefined-behaviour" };
            rep.fail(sig, &first, json!({"engine": "miri", "stderr_tail": se.lines().rev().take(40).collect::<Vec<_>>().into_iter().rev().collect::<Vec<_>>()}));
        } else if !out.status.success() && !so.contains("VIOL ") {
            rep.inconclusive("miri-run-failed");
            rep.set("miri_stderr_tail", json!(se.lines().rev().take(12).collect::<Vec<_>>()));
        }
    }
    for h in &miri_inter {
        rep.nontrivial(&("miri", h));
    }
    rep.set("miri", json!({"histories": miri_hist, "distinct_interleavings": miri_inter.len(), "seeds_per_shard": many, "shards": shards, "ub_or_race_reports": miri_reports}));
    rep.floor(miri_hist > 0, "Miri produced no history");
    rep.assumptions.push("interleavings are sampled (native scheduler with injected delays, Miri's randomised scheduler), not enumerated".into());
    rep.finish()
}
