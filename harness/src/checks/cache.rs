//! C19 Rewritten files are never served from a stale cache.
//! C20 IPC sidecars are invisible and safe to build concurrently.
//!
//! QE_IPC_CACHE is latched per process, so both monitors run their histories
//! in worker processes of this binary, one configuration each. A worker knows
//! what it wrote, so it judges every answer itself against a small model of
//! the file's current content and reports one line per observation; the driver
//! aggregates, and for C20 also compares across processes and watches the
//! sidecar directories while the builders race.

use crate::canon::{multiset_eq, Row};
use crate::data::{write_parquet_file, Cell, Col, PqOpts, Table, Ty};
use crate::eng::{run_sql, Outcome};
use crate::report::{Report, Tier};
use crate::rng::Rng;
use crate::workers::{run_workers, Emitter, WorkerSpec};
use query_engine::ExecutionContext;
use serde_json::{json, Value};
use std::collections::{BTreeMap, BTreeSet};
use std::path::{Path, PathBuf};
use std::sync::Arc;

fn content(rng: &mut Rng, rows: usize, gen: u64) -> Table {
    let cols = vec![
        Col { name: "id".into(), ty: Ty::I64, nullable: false },
        Col { name: "v".into(), ty: Ty::I64, nullable: true },
        Col { name: "s".into(), ty: Ty::Str, nullable: true },
    ];
    let words = ["alpha", "beta", "gamma", "delta", "epsilon"];
    let mut out = Vec::new();
    for i in 0..rows {
        out.push(vec![
            Cell::Int(i as i64),
            if rng.chance(1, 10) { Cell::Null } else { Cell::Int(rng.range(0, 1000) + (gen as i64) * 10_000) },
            // odd generations hold (nearly) unique strings: a rewrite then also changes
            // which columns a sidecar stores dictionary-encoded
            if rng.chance(1, 12) { Cell::Null } else if gen % 2 == 1 { Cell::S(format!("u{}-{}", i, rng.below(1 << 30))) } else { Cell::S(format!("{}{}", rng.pick(&words), gen % 3)) },
        ]);
    }
    Table { name: "t".into(), cols, rows: out }
}

/// Same shape, same encoded size: every v shifted by a constant (dictionary
/// cardinality, run lengths, null positions and all string bytes unchanged).
fn shifted(t: &Table, by: i64) -> Table {
    let mut u = t.clone();
    for r in u.rows.iter_mut() {
        if let Cell::Int(v) = r[1] {
            r[1] = Cell::Int(v + by);
        }
    }
    u
}

fn queries(t: &Table) -> Vec<(String, Vec<Row>)> {
    let vs: Vec<i64> = t.rows.iter().filter_map(|r| if let Cell::Int(v) = r[1] { Some(v) } else { None }).collect();
    let mut sorted = vs.clone();
    sorted.sort();
    let med = sorted.get(sorted.len() / 2).copied().unwrap_or(0);
    let mut out = Vec::new();
    out.push(("SELECT id, v, s FROM t".to_string(), t.rows.clone()));
    let agg = vec![
        Cell::Int(t.rows.len() as i64),
        if vs.is_empty() { Cell::Null } else { Cell::Int(vs.iter().sum()) },
        vs.iter().min().map(|v| Cell::Int(*v)).unwrap_or(Cell::Null),
        vs.iter().max().map(|v| Cell::Int(*v)).unwrap_or(Cell::Null),
    ];
    out.push(("SELECT COUNT(*), SUM(v), MIN(v), MAX(v) FROM t".to_string(), vec![agg]));
    out.push((format!("SELECT COUNT(*) FROM t WHERE v >= {}", med), vec![vec![Cell::Int(vs.iter().filter(|v| **v >= med).count() as i64)]]));
    out.push((format!("SELECT id FROM t WHERE v < {}", med), t.rows.iter().filter(|r| matches!(r[1], Cell::Int(v) if v < med)).map(|r| vec![r[0].clone()]).collect()));
    let mut g: BTreeMap<Option<String>, i64> = BTreeMap::new();
    for r in &t.rows {
        let k = if let Cell::S(s) = &r[2] { Some(s.clone()) } else { None };
        *g.entry(k).or_insert(0) += 1;
    }
    out.push(("SELECT s, COUNT(*) FROM t GROUP BY s".to_string(), g.into_iter().map(|(k, n)| vec![k.map(Cell::S).unwrap_or(Cell::Null), Cell::Int(n)]).collect()));
    out
}

fn fresh_ctx(dir: &Path) -> Result<Arc<ExecutionContext>, String> {
    let mut ctx = ExecutionContext::new();
    ctx.register_parquet("t", dir).map_err(|e| e.to_string())?;
    Ok(Arc::new(ctx))
}

fn set_mtime(path: &Path, t: std::time::SystemTime) {
    if let Ok(f) = std::fs::OpenOptions::new().write(true).open(path) {
        let _ = f.set_modified(t);
    }
}

const POLICIES: &[&str] = &["natural", "preserved", "older", "newer", "same-second"];
const METHODS: &[&str] = &["overwrite-in-place", "rename-over", "remove-then-create"];

fn c19_histories(tier: Tier) -> usize {
    tier.pick(90, 900)
}

/// worker C19: histories `shard, shard+n, ...`; one line per observation.
pub fn worker_c19(tier: Tier, seed: u64, shard: usize, nshards: usize) -> i32 {
    let scratch = crate::data::Scratch::new("c19w");
    let mut em = Emitter::new();
    let mode = std::env::var("QE_IPC_CACHE").unwrap_or_else(|_| "auto".into());
    for h in (shard..c19_histories(tier)).step_by(nshards.max(1)) {
        let mut rng = Rng::new(seed.wrapping_mul(0x9E37_79B9).wrapping_add(h as u64) ^ 0xC19);
        let dir = scratch.path().join(format!("h{}", h)).join("t");
        std::fs::create_dir_all(&dir).unwrap();
        let file = dir.join("part-000.parquet");
        let rows = *rng.pick(&[1usize, 3, 20, 120, 600]);
        let opts = PqOpts { files: 1, rg_rows: *rng.pick(&[7usize, 50, 1 << 20]), dictionary: rng.bool(), snappy: rng.chance(1, 3), stats: true };
        let mut cur = content(&mut rng, rows, 0);
        write_parquet_file(&file, cur.schema(), &[cur.one_batch()], &opts);
        let ctx = match fresh_ctx(&dir) {
            Ok(c) => c,
            Err(e) => {
                em.emit_value(&format!("h{}.register", h), json!({"setup_error": e}));
                continue;
            }
        };
        // the first read (also fills the caches / builds the sidecar)
        let mut ok0 = true;
        for (qi, (sql, want)) in queries(&cur).into_iter().enumerate() {
            let got = run_sql(&ctx, &sql);
            let good = matches!(&got, Outcome::Ok(a) if multiset_eq(&a.rows, &want).is_ok());
            ok0 &= good;
            em.emit_value(&format!("h{}.s0.same.q{}", h, qi), json!({"ok": good, "initial": true, "sql": sql, "got": got.short(), "want_rows": want.len()}));
        }
        if !ok0 {
            continue;
        }
        let steps = 1 + rng.usize(3);
        let mut history: Vec<String> = Vec::new();
        for step in 1..=steps {
            let policy = *rng.pick(POLICIES);
            let method = *rng.pick(METHODS);
            let equal_size = rng.chance(1, 2);
            let old_meta = std::fs::metadata(&file).ok();
            let old_mtime = old_meta.as_ref().and_then(|m| m.modified().ok());
            let old_len = old_meta.as_ref().map(|m| m.len()).unwrap_or(0);
            let next_rows = *rng.pick(&[1usize, 2, 19, 121, 500]);
            let next = if equal_size { shifted(&cur, 1 + step as i64) } else { content(&mut rng, next_rows, step as u64) };
            // a real writer is at least a few milliseconds behind the reader it follows
            std::thread::sleep(std::time::Duration::from_millis(15));
            if policy != "same-second" && policy != "preserved" && rng.chance(1, 3) {
                std::thread::sleep(std::time::Duration::from_millis(1100));
            }
            match method {
                "overwrite-in-place" => write_parquet_file(&file, next.schema(), &[next.one_batch()], &opts),
                "rename-over" => {
                    let tmp = dir.parent().unwrap().join("incoming.parquet.tmp");
                    write_parquet_file(&tmp, next.schema(), &[next.one_batch()], &opts);
                    std::fs::rename(&tmp, &file).unwrap();
                }
                _ => {
                    let _ = std::fs::remove_file(&file);
                    write_parquet_file(&file, next.schema(), &[next.one_batch()], &opts);
                }
            }
            if let Some(t0) = old_mtime {
                match policy {
                    "preserved" => set_mtime(&file, t0),
                    "older" => set_mtime(&file, t0 - std::time::Duration::from_secs(86_400)),
                    "newer" => set_mtime(&file, t0 + std::time::Duration::from_secs(3_600)),
                    _ => {}
                }
            }
            let new_meta = std::fs::metadata(&file).ok();
            let new_len = new_meta.as_ref().map(|m| m.len()).unwrap_or(0);
            let size_class = if new_len == old_len { "equal-size" } else { "other-size" };
            // what the file system now shows, which is what a cache can see (the intended policy stays in the detail)
            let secs = |t: std::time::SystemTime| t.duration_since(std::time::UNIX_EPOCH).map(|d| d.as_secs()).unwrap_or(0);
            let relation = match (old_mtime, new_meta.as_ref().and_then(|m| m.modified().ok())) {
                (Some(a), Some(b)) if a == b => "mtime-identical",
                (Some(a), Some(b)) if secs(a) == secs(b) => "mtime-same-second",
                (Some(a), Some(b)) if b > a => "mtime-later",
                (Some(_), Some(_)) => "mtime-earlier",
                _ => "mtime-unknown",
            };
            history.push(format!("{}/{}/{}", method, policy, size_class));
            cur = next;
            let fresh = fresh_ctx(&dir);
            for (qi, (sql, want)) in queries(&cur).into_iter().enumerate() {
                for (kind, c) in [("same-context", Some(&ctx)), ("fresh-context", fresh.as_ref().ok())] {
                    let Some(c) = c else { continue };
                    let got = run_sql(c, &sql);
                    let good = matches!(&got, Outcome::Ok(a) if multiset_eq(&a.rows, &want).is_ok());
                    em.emit_value(
                        &format!("h{}.s{}.{}.q{}", h, step, kind, qi),
                        json!({"ok": good, "sql": sql, "got": got.short(), "want_rows": want.len(), "ctx": kind, "policy": policy, "mtime": relation, "method": method, "size": size_class, "mode": mode, "history": history, "rows": cur.rows.len(), "opts": opts.json(),
                               "got_rows": got.rows().map(|r| crate::canon::rows_json(r, 6)), "want_sample": crate::canon::rows_json(&want, 6)}),
                    );
                }
            }
        }
        let _ = std::fs::remove_dir_all(scratch.path().join(format!("h{}", h)));
    }
    em.done();
    0
}

pub fn run_c19(tier: Tier, seed: u64) -> i32 {
    let mut rep = Report::new(
        "C19",
        tier,
        seed,
        "exploration",
        "histories write -> query -> rewrite -> query (1-3 rewrites) on one registered Parquet path, in worker processes with QE_IPC_CACHE=0, unset and 1. Rewrites: in place, rename-over, remove-then-create; modification time natural, within the same second, preserved, older, newer; same encoded length (values shifted) or another length; 1-600 rows, 1-many row groups, dictionary on/off. After every rewrite five statements (full scan, aggregates, a predicate cut at the new median so stale statistics matter, GROUP BY) are run in the context that was registered before the rewrite and in a fresh one; every answer is compared with a model of the file's current content. distinct = distinct (cache mode, context kind, rewrite method, timestamp policy, size class, statement)",
    );
    let specs = vec![WorkerSpec::new("ipc-off", &[("QE_IPC_CACHE", "0")]), WorkerSpec::new("ipc-auto", &[("QE_IPC_CACHE", "<unset>")]), WorkerSpec::new("ipc-build", &[("QE_IPC_CACHE", "1")])];
    let res = run_workers("C19", tier, seed, &specs, 4, &[]);
    let mut counters: BTreeMap<String, u64> = BTreeMap::new();
    for (name, wr) in &res {
        if !wr.completed {
            rep.inconclusive("worker-did-not-complete");
            rep.set(&format!("worker_{}_stderr", name), json!(wr.stderr_tail));
        }
        for (k, n) in &wr.counters {
            if k.starts_with("meta_cache") || k.starts_with("ipc.") {
                *counters.entry(format!("{}:{}", name, k)).or_insert(0) += n;
            }
        }
        for (key, line) in &wr.lines {
            let v = &line.value;
            if v.get("setup_error").is_some() {
                rep.inconclusive("setup-error");
                continue;
            }
            rep.eval();
            let ok = v["ok"].as_bool().unwrap_or(false);
            if v["initial"].as_bool() == Some(true) {
                if !ok {
                    rep.inconclusive("first-read-already-wrong(not-a-cache-matter)");
                }
                continue;
            }
            let (ctxk, policy, method, size) = (v["ctx"].as_str().unwrap_or(""), v["mtime"].as_str().unwrap_or(""), v["method"].as_str().unwrap_or(""), v["size"].as_str().unwrap_or(""));
            let q = key.rsplit('.').next().unwrap_or("");
            rep.nontrivial(&(name.clone(), ctxk.to_string(), method.to_string(), policy.to_string(), size.to_string(), q.to_string()));
            if !ok {
                let sig = format!("stale-read:{}:{}:{}:{}", name, ctxk, policy, size);
                rep.fail(&sig, &format!("{} [{} {} rewrite={} mtime={} {}] :: answered {} but the file now holds {} rows (history {})", v["sql"].as_str().unwrap_or(""), name, ctxk, method, policy, size, v["got"].as_str().unwrap_or(""), v["rows"], v["history"]), json!({"worker": name, "observation": key, "detail": v}));
            }
        }
    }
    rep.set("cache_path_counters", json!(counters));
    let hits = counters.iter().filter(|(k, _)| k.ends_with("meta_cache.hit")).map(|(_, n)| *n).sum::<u64>();
    let built = counters.iter().filter(|(k, _)| k.ends_with("ipc.sidecar.built")).map(|(_, n)| *n).sum::<u64>();
    let reused = counters.iter().filter(|(k, _)| k.ends_with("ipc.sidecar.reused")).map(|(_, n)| *n).sum::<u64>();
    rep.floor(hits > 0, "the footer cache was never hit");
    rep.floor(built > 0 && reused > 0, "sidecars were never built and reused in the QE_IPC_CACHE=1 worker");
    rep.assumptions.push("a rewrite follows the previous read of the file by at least 15 ms".into());
    rep.finish()
}

// ---------------------------------------------------------------------------
// C20

fn c20_tables(tier: Tier) -> usize {
    tier.pick(6, 20)
}

fn c20_write_tables(dir: &Path, tier: Tier, seed: u64, round: usize) -> Vec<(String, Table, usize)> {
    let mut out = Vec::new();
    for i in 0..c20_tables(tier) {
        let mut rng = Rng::new(seed.wrapping_mul(31).wrapping_add((round * 1000 + i) as u64) ^ 0xC20);
        let rows = if tier == Tier::Quick { *rng.pick(&[5usize, 60, 400, 3000]) } else { *rng.pick(&[5usize, 60, 400, 3000, 20000]) };
        let mut t = content(&mut rng, rows, i as u64);
        if i % 2 == 1 {
            // not dictionary-eligible: (nearly) unique strings
            for (k, r) in t.rows.iter_mut().enumerate() {
                if !r[2].is_null() {
                    r[2] = Cell::S(format!("u{}-{}", k, rng.below(1 << 40)));
                }
            }
        }
        let name = format!("t{}", i);
        let d = dir.join(&name);
        std::fs::create_dir_all(&d).unwrap();
        let rg = *rng.pick(&[50usize, 500, 5000]);
        let opts = PqOpts { files: 1, rg_rows: rg, dictionary: i % 2 == 0, snappy: rng.bool(), stats: true };
        write_parquet_file(&d.join("part-000.parquet"), t.schema(), &[t.one_batch()], &opts);
        let n_rg = (rows + rg - 1) / rg;
        out.push((name, t, n_rg));
    }
    out
}

/// worker C20 <...> <dir> <reps>: waits for <dir>/go, then registers every
/// table directory and runs the statements `reps` times.
pub fn worker_c20(_tier: Tier, _seed: u64, _shard: usize, _nshards: usize, rest: &[String]) -> i32 {
    let dir = PathBuf::from(rest.first().cloned().unwrap_or_default());
    let reps: usize = rest.get(1).and_then(|s| s.parse().ok()).unwrap_or(1);
    let mut em = Emitter::new();
    let t0 = std::time::Instant::now();
    while !dir.join("go").exists() && t0.elapsed().as_secs() < 120 {
        std::thread::sleep(std::time::Duration::from_millis(1));
    }
    let mut names: Vec<String> = std::fs::read_dir(&dir).map(|d| d.filter_map(|e| e.ok()).filter(|e| e.path().is_dir()).map(|e| e.file_name().to_string_lossy().to_string()).collect()).unwrap_or_default();
    names.sort();
    // each process walks the tables in its own order so that builders meet on different tables
    let rot = (std::process::id() as usize) % names.len().max(1);
    names.rotate_left(rot);
    for rep in 0..reps {
        for n in &names {
            let mut ctx = ExecutionContext::new();
            if let Err(e) = ctx.register_parquet("t", dir.join(n)) {
                em.emit_value(&format!("{}.r{}.register", n, rep), json!({"err": e.to_string()}));
                continue;
            }
            let ctx = Arc::new(ctx);
            for (qi, sql) in ["SELECT id, v, s FROM t", "SELECT COUNT(*), SUM(v), MIN(v), MAX(v) FROM t", "SELECT s, COUNT(*) FROM t GROUP BY s", "SELECT id FROM t WHERE v % 7 = 3 AND s IS NOT NULL"].iter().enumerate() {
                let o = run_sql(&ctx, sql);
                em.emit(&format!("{}.q{}.r{}", n, qi, rep), sql, &o, Value::Null);
            }
        }
    }
    em.done();
    0
}

fn sidecar_snapshot_ok(d: &Path, n_rg: usize) -> Result<bool, String> {
    // Ok(false): nothing published; Ok(true): a complete sidecar; Err: a partial one is visible
    let entries = match std::fs::read_dir(d) {
        Ok(e) => e,
        Err(_) => return Ok(false),
    };
    let mut names = BTreeSet::new();
    for e in entries.flatten() {
        names.insert(e.file_name().to_string_lossy().to_string());
    }
    // the directory may have been replaced between the listing and now: look again before blaming
    let complete = names.contains(".complete");
    let rgs: Vec<&String> = names.iter().filter(|n| n.starts_with("rg_")).collect();
    let mut problem = None;
    if !complete {
        problem = Some(format!("published directory without .complete (entries: {:?})", names.iter().take(6).collect::<Vec<_>>()));
    } else if rgs.len() < n_rg {
        problem = Some(format!("published directory holds {} of {} row-group files", rgs.len(), n_rg));
    } else {
        for r in &rgs {
            match std::fs::read(d.join(r)) {
                Ok(b) => {
                    if b.len() < 12 || &b[..6] != b"ARROW1" || &b[b.len() - 6..] != b"ARROW1" {
                        problem = Some(format!("{} is not a finished Arrow file ({} bytes)", r, b.len()));
                        break;
                    }
                }
                Err(_) => return Ok(false), // replaced under us: not an observation
            }
        }
    }
    match problem {
        None => Ok(true),
        Some(p) => {
            // confirm the directory identity did not change while we looked
            let again: BTreeSet<String> = std::fs::read_dir(d).map(|e| e.flatten().map(|x| x.file_name().to_string_lossy().to_string()).collect()).unwrap_or_default();
            if again == names {
                Err(p)
            } else {
                Ok(false)
            }
        }
    }
}

pub fn run_c20(tier: Tier, seed: u64) -> i32 {
    let mut rep = Report::new(
        "C20",
        tier,
        seed,
        "exploration",
        "rounds over freshly written Parquet tables (5-20000 rows, 1-400 row groups, dictionary-eligible and not): (1) a QE_IPC_CACHE=0 process answers four statements per table; (2) 1-8 QE_IPC_CACHE=1 builder processes and 2 unset-mode reader processes start together (barrier file), walk the tables in different orders with seeded delays before publication and before opening a row-group file, and repeat the statements; meanwhile the driver polls every sidecar directory and demands that a published directory always has its .complete stamp, all row-group files and finished Arrow files; (3) an unset-mode process re-reads everything from the finished sidecars. Every answer of every process must equal the sidecar-free answer. distinct = distinct (table kind, statement, process role, builders in the round)",
    );
    let scratch = crate::data::Scratch::new("c20");
    let rounds = tier.pick(3usize, 12);
    let exe = crate::eng::self_exe();
    let mut counters: BTreeMap<String, u64> = BTreeMap::new();
    let mut polls = 0u64;
    let mut complete_seen = 0u64;
    for round in 0..rounds {
        let dir = scratch.path().join(format!("round{}", round));
        std::fs::create_dir_all(&dir).unwrap();
        let tables = c20_write_tables(&dir, tier, seed, round);
        let builders = 1 + (seed as usize + round * 3) % 8;
        let spawn = |role: &str, mode: Option<&str>, reps: usize, delays: bool| {
            let mut c = std::process::Command::new(&exe);
            c.arg("worker").arg("C20").arg(tier.name()).arg(seed.to_string()).arg("0").arg("1").arg(&dir).arg(reps.to_string());
            match mode {
                Some(m) => {
                    c.env("QE_IPC_CACHE", m);
                }
                None => {
                    c.env_remove("QE_IPC_CACHE");
                }
            }
            if delays {
                c.env("QE_VERIF_DELAY_SEED", (seed * 131 + round as u64 + 1).to_string()).env("QE_VERIF_DELAY_MAX_US", "3000");
            }
            c.env("RAYON_NUM_THREADS", "2").env("QE_VERIF_TOKIO_THREADS", "2");
            c.stdout(std::process::Stdio::piped()).stderr(std::process::Stdio::piped());
            (role.to_string(), c.spawn().expect("spawn"))
        };
        let collect = |role: String, ch: std::process::Child| -> (String, BTreeMap<String, Value>, bool, BTreeMap<String, u64>) {
            let o = ch.wait_with_output().expect("wait");
            let mut m = BTreeMap::new();
            let mut done = false;
            let mut ctr = BTreeMap::new();
            for l in String::from_utf8_lossy(&o.stdout).lines() {
                let Ok(v) = serde_json::from_str::<Value>(l) else { continue };
                if v.get("done").is_some() {
                    done = true;
                    if let Some(c) = v["counters"].as_object() {
                        for (k, n) in c {
                            ctr.insert(k.clone(), n.as_u64().unwrap_or(0));
                        }
                    }
                    continue;
                }
                m.insert(v["key"].as_str().unwrap_or("").to_string(), v);
            }
            (role, m, done, ctr)
        };
        // (1) baseline without sidecars
        std::fs::write(dir.join("go"), b"").unwrap();
        let (r, c) = spawn("baseline-off", Some("0"), 1, false);
        let (_, base, done, _) = collect(r, c);
        if !done {
            rep.inconclusive("baseline-worker-did-not-complete");
            continue;
        }
        let _ = std::fs::remove_file(dir.join("go"));
        // (2) the race
        let mut kids = Vec::new();
        for b in 0..builders {
            kids.push(spawn(&format!("builder{}", b), Some("1"), 2, true));
        }
        for rdr in 0..2 {
            kids.push(spawn(&format!("reader{}", rdr), None, 3, true));
        }
        std::fs::write(dir.join("go"), b"").unwrap();
        // poll the sidecar directories while the children run
        let stop = std::sync::atomic::AtomicBool::new(false);
        let mut partial: Vec<String> = Vec::new();
        let results: Vec<(String, BTreeMap<String, Value>, bool, BTreeMap<String, u64>)> = std::thread::scope(|s| {
            let poller = s.spawn(|| {
                let mut found = Vec::new();
                let (mut n, mut c) = (0u64, 0u64);
                while !stop.load(std::sync::atomic::Ordering::SeqCst) {
                    for (name, _, n_rg) in &tables {
                        let d = dir.join(name).join("part-000.parquet.qeipc");
                        n += 1;
                        match sidecar_snapshot_ok(&d, *n_rg) {
                            Ok(true) => c += 1,
                            Ok(false) => {}
                            Err(p) => {
                                if found.len() < 5 {
                                    found.push(format!("{}: {}", name, p));
                                }
                            }
                        }
                    }
                    std::thread::sleep(std::time::Duration::from_micros(300));
                }
                (found, n, c)
            });
            let out: Vec<_> = kids.into_iter().map(|(r, c)| collect(r, c)).collect();
            stop.store(true, std::sync::atomic::Ordering::SeqCst);
            let (found, n, c) = poller.join().expect("poller");
            partial = found;
            polls += n;
            complete_seen += c;
            out
        });
        for p in &partial {
            rep.fail("partial-sidecar-visible", &format!("round {} ({} builders): {}", round, builders, p), json!({"round": round, "builders": builders, "what": p}));
        }
        // (3) reuse after the race
        let (r, c) = spawn("reuse-auto", None, 1, false);
        let reuse = collect(r, c);
        let kind_of = |name: &str| -> &'static str {
            let i: usize = name.trim_start_matches('t').parse().unwrap_or(0);
            if i % 2 == 0 { "dictionary-eligible" } else { "unique-strings" }
        };
        for (role, lines, done, ctr) in results.into_iter().chain(std::iter::once(reuse)) {
            if !done {
                rep.inconclusive("race-worker-did-not-complete");
            }
            let role_class = role.trim_end_matches(|c: char| c.is_ascii_digit()).to_string();
            for (k, n) in ctr {
                if k.starts_with("ipc.") {
                    *counters.entry(format!("{}:{}", role_class, k)).or_insert(0) += n;
                }
            }
            for (key, v) in &lines {
                let mut parts = key.split('.');
                let (tn, q) = (parts.next().unwrap_or(""), parts.next().unwrap_or(""));
                if q == "register" || key.ends_with(".register") {
                    rep.eval();
                    rep.fail(&format!("register-failed:{}", role_class), &format!("round {} {} could not register {}: {}", round, role, tn, v["value"]), json!({"round": round, "role": role, "table": tn, "detail": v}));
                    continue;
                }
                let Some(b) = base.get(&format!("{}.{}.r0", tn, q)) else { continue };
                rep.eval();
                let got = crate::workers::outcome_from_wire(&v["out"]);
                let want = crate::workers::outcome_from_wire(&b["out"]);
                rep.nontrivial(&(kind_of(tn), q.to_string(), role_class.clone(), builders));
                let same = match (&got, &want) {
                    (crate::workers::WireOutcome::Ok { rows: a, .. }, crate::workers::WireOutcome::Ok { rows: b, .. }) => multiset_eq(a, b).is_ok(),
                    _ => false,
                };
                if !same && matches!(got, crate::workers::WireOutcome::Timeout) {
                    rep.inconclusive("timeout-in-race-worker");
                } else if !same {
                    let kind = match &got {
                        crate::workers::WireOutcome::Ok { .. } => "wrong-answer",
                        crate::workers::WireOutcome::Err(_) => "error",
                        crate::workers::WireOutcome::Panic(_) => "panic",
                        crate::workers::WireOutcome::Timeout => "timeout",
                    };
                    rep.fail(
                        &format!("sidecar-visible:{}:{}:{}", role_class, kind, kind_of(tn)),
                        &format!("round {} ({} builders) {} on {} :: {} answered {} ; without sidecars {}", round, builders, role, tn, v["sql"].as_str().unwrap_or(""), got.short(), want.short()),
                        json!({"round": round, "builders": builders, "role": role, "table": tn, "sql": v["sql"], "got": got.json(8), "want": want.json(8)}),
                    );
                }
            }
        }
        let _ = std::fs::remove_dir_all(&dir);
    }
    rep.set("sidecar_path_counters", json!(counters));
    rep.set("directory_polls", json!(polls));
    rep.set("complete_sidecars_seen_by_poller", json!(complete_seen));
    let built: u64 = counters.iter().filter(|(k, _)| k.ends_with("ipc.sidecar.built")).map(|(_, n)| *n).sum();
    let reused_auto: u64 = counters.iter().filter(|(k, _)| k.starts_with("reuse-auto") && k.ends_with("ipc.sidecar.reused")).map(|(_, n)| *n).sum();
    let reads: u64 = counters.iter().filter(|(k, _)| k.ends_with("ipc.sidecar.read_row_group")).map(|(_, n)| *n).sum();
    rep.floor(built > 0 && reads > 0, "no sidecar was built and read");
    rep.floor(reused_auto > 0, "the unset-mode process never reused a finished sidecar");
    rep.floor(polls > 100 && complete_seen > 0, "the directory poller observed too little");
    rep.assumptions.push("process interleavings are sampled (1-8 builders, seeded delays at the hooks), not enumerated".into());
    rep.finish()
}
