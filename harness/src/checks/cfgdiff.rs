//! Configuration-differential monitors: the same seeded cases executed by
//! worker processes that differ only in a latched configuration; the driver
//! compares the answers case by case.

use crate::canon::{multiset_eq, row_eq, fmt_row};
use crate::checks::c01::{engine_ctx, Layout};
use crate::eng::run_sql;
use crate::qgen::{gen_db, Feats, SizeClass, G};
use crate::report::{hash_of, Report, Tier};
use crate::rng::Rng;
use crate::workers::{run_workers, Emitter, WireOutcome, WorkerResult, WorkerSpec};
use serde_json::json;
use std::collections::{BTreeMap, HashMap, HashSet};

pub struct Params {
    pub n_dbs: usize,
    pub per_db: usize,
    pub sizes: Vec<SizeClass>,
    pub feats: Feats,
    pub layouts: Vec<Layout>,
    pub reps: usize,
    pub agg_share: u64, // out of 10
    pub max_rels: usize,
}

pub fn params_for(check: &str, tier: Tier) -> Params {
    match check {
        // compile on/off: predicates inside the compiled subset, memory + parquet
        "C06" => {
            let mut f = Feats::all();
            f.strings = false;
            f.like = false;
            f.case = false;
            f.funcs = false;
            f.in_list = false;
            f.bools = false;
            f.cross_join = false;
            Params { n_dbs: tier.pick(16, 400), per_db: tier.pick(20, 40), sizes: vec![SizeClass::Small, SizeClass::Small, SizeClass::Medium], feats: f, layouts: vec![Layout::MemSplit, Layout::Parquet], reps: 1, agg_share: 4, max_rels: 2 }
        }
        // threads / scheduling: medium tables in many batches, fan-out shapes
        "C07" => {
            let mut f = Feats::all();
            f.cross_join = false;
            Params { n_dbs: tier.pick(10, 120), per_db: tier.pick(14, 30), sizes: vec![SizeClass::Medium, SizeClass::Medium, SizeClass::Small], feats: f, layouts: vec![Layout::MemSplit, Layout::Parquet], reps: tier.pick(3, 10), agg_share: 5, max_rels: 2 }
        }
        _ => Params { n_dbs: 4, per_db: 5, sizes: vec![SizeClass::Small], feats: Feats::all(), layouts: vec![Layout::MemSplit], reps: 1, agg_share: 5, max_rels: 2 },
    }
}

fn lname(l: Layout) -> &'static str {
    match l {
        Layout::MemOne => "mem1",
        Layout::MemSplit => "memk",
        Layout::Parquet => "parquet",
    }
}

/// Worker side: regenerate the seeded cases and execute them under this
/// process's configuration.
pub fn worker(check: &str, tier: Tier, seed: u64, shard: usize, nshards: usize) -> i32 {
    let p = params_for(check, tier);
    let scratch = crate::data::Scratch::new("cfg");
    let mut em = Emitter::new();
    for dbi in (shard..p.n_dbs).step_by(nshards.max(1)) {
        let mut rng = Rng::new(seed.wrapping_mul(7_919).wrapping_add(dbi as u64) ^ hash_of(&check));
        let sc = *rng.pick(&p.sizes);
        let nt = 1 + rng.usize(2);
        let db = gen_db(&mut rng, nt, sc);
        let dir = scratch.path().join(format!("db{}", dbi));
        std::fs::create_dir_all(&dir).unwrap();
        let mut ctxs = Vec::new();
        for &l in &p.layouts {
            let mut lr = rng.fork(l as u64 + 11);
            let d = dir.join(lname(l));
            std::fs::create_dir_all(&d).unwrap();
            // medium tables in many batches so multi-partition scans happen
            let ctx = if l == Layout::MemSplit && db.iter().any(|t| t.rows.len() >= 1000) {
                let parts: Vec<(&crate::data::Table, Vec<arrow::record_batch::RecordBatch>)> = db
                    .iter()
                    .map(|t| {
                        let k = 5 + lr.usize(36);
                        (t, t.random_batches(&mut lr, k, true))
                    })
                    .collect();
                crate::eng::mem_ctx_batches(&parts)
            } else {
                engine_ctx(&db, l, &mut lr, Some(&d))
            };
            ctxs.push((l, ctx));
        }
        for qi in 0..p.per_db {
            let mut qrng = rng.fork(1000 + qi as u64);
            let mut g = G::new(&mut qrng, p.feats.clone());
            g.total_order_limit = true;
            let q = if g.rng.below(10) < p.agg_share { g.q_agg(&db, p.max_rels) } else { g.q_simple(&db, p.max_rels) };
            let sql = q.engine_sql();
            for (l, ctx) in &ctxs {
                for rep in 0..p.reps {
                    let o = crate::eng::run_sql_avoiding_gkr(ctx, &sql, &db, *l == Layout::Parquet);
                    em.emit(&format!("{}/{}/{}/r{}", dbi, qi, lname(*l), rep), &sql, &o, json!({"ordered": !q.keys.is_empty(), "tags": q.tags, "rows": db.iter().map(|t| t.rows.len()).collect::<Vec<_>>()}));
                }
            }
        }
        let _ = std::fs::remove_dir_all(&dir);
    }
    em.done();
    0
}

fn same_answer(a: &WireOutcome, b: &WireOutcome, ordered: bool) -> Result<(), String> {
    match (a, b) {
        (WireOutcome::Ok { rows: ra, .. }, WireOutcome::Ok { rows: rb, .. }) => {
            if ordered {
                if ra.len() != rb.len() {
                    return Err(format!("row count {} vs {}", ra.len(), rb.len()));
                }
                // total order over all output columns: identical sequences up to identical rows
                for (i, (x, y)) in ra.iter().zip(rb.iter()).enumerate() {
                    if !row_eq(x, y) {
                        // fall back: maybe ORDER BY did not cover all columns (no LIMIT): compare as multisets
                        return multiset_eq(ra, rb).map_err(|e| format!("position {}: {} vs {} ; {}", i, fmt_row(x), fmt_row(y), e));
                    }
                }
                Ok(())
            } else {
                multiset_eq(ra, rb)
            }
        }
        (WireOutcome::Err(_), WireOutcome::Err(_)) => Ok(()),
        (x, y) => Err(format!("{} vs {}", x.short(), y.short())),
    }
}

/// Driver side: compare every spec (and every repetition) with the base spec.
pub fn compare(rep: &mut Report, results: &BTreeMap<String, WorkerResult>, base: &str, what: &str) {
    for (name, r) in results {
        if !r.completed {
            rep.inconclusive(&format!("worker-{}-died", name));
            rep.set(&format!("worker_{}_stderr", name), json!(r.stderr_tail));
        }
        rep.set(&format!("counters_{}", name), json!(r.counters));
    }
    let Some(b) = results.get(base) else {
        rep.floor(false, "base worker produced nothing");
        return;
    };
    // group keys by statement (strip /rN)
    let mut arrival: HashMap<String, HashSet<u64>> = HashMap::new();
    let mut sample_n = 0;
    for (key, line) in &b.lines {
        let stmt_key = key.rsplit_once("/r").map(|x| x.0.to_string()).unwrap_or(key.clone());
        let ordered = line.extra["ordered"].as_bool().unwrap_or(false);
        let base0 = b.lines.get(&format!("{}/r0", stmt_key)).unwrap_or(line);
        for (name, r) in results {
            let Some(other) = r.lines.get(key) else {
                if r.completed {
                    rep.inconclusive("case-missing-in-worker");
                }
                continue;
            };
            if name == base && key.ends_with("/r0") {
                // the anchor itself
                if let WireOutcome::Ok { rows, .. } = &other.out {
                    arrival.entry(stmt_key.clone()).or_default().insert(hash_of(&rows.iter().map(fmt_row).collect::<Vec<_>>()));
                    if !rows.is_empty() {
                        rep.nontrivial(&(crate::qgen::skeleton(&line.sql), key.split('/').nth(2).unwrap_or("")));
                    }
                }
                rep.eval();
                continue;
            }
            rep.eval();
            if let WireOutcome::Ok { rows, .. } = &other.out {
                arrival.entry(stmt_key.clone()).or_default().insert(hash_of(&rows.iter().map(fmt_row).collect::<Vec<_>>()));
            }
            match (&base0.out, &other.out) {
                (WireOutcome::Timeout, _) | (_, WireOutcome::Timeout) => {
                    rep.inconclusive("timeout");
                    continue;
                }
                _ => {}
            }
            if let Err(why) = same_answer(&base0.out, &other.out, ordered) {
                let sig = match (&base0.out, &other.out) {
                    (WireOutcome::Ok { .. }, WireOutcome::Ok { .. }) => format!("{}-rows-differ", what),
                    (WireOutcome::Panic(_), _) | (_, WireOutcome::Panic(_)) => format!("{}-panic-in-one", what),
                    _ => format!("{}-error-in-one", what),
                };
                rep.fail(
                    &sig,
                    &format!("{} [{} {} vs {} {}] :: {}", line.sql, base, "r0", name, key, why),
                    json!({"case_key": key, "sql": line.sql, "base_spec": base, "other_spec": name, "base": base0.out.json(40), "other": other.out.json(40), "extra": line.extra,
                           "regenerate": "tables are regenerated from (seed, case_key) by `qe-verif worker`"}),
                );
            }
        }
        if sample_n < 3 && key.ends_with("/r0") {
            sample_n += 1;
            rep.sample(json!({"case_key": key, "sql": line.sql, "base_outcome": line.out.short()}));
        }
    }
    let multi = arrival.values().filter(|s| s.len() > 1).count();
    rep.set("statements", json!(arrival.len()));
    rep.set("statements_with_more_than_one_observed_row_arrival_order", json!(multi));
    rep.set("distinct_row_arrival_orders_total", json!(arrival.values().map(|s| s.len()).sum::<usize>()));
}

pub fn run_c06_process_half(rep: &mut Report, tier: Tier, seed: u64) {
    let specs = vec![WorkerSpec::new("compile-on", &[("QE_COMPILE", "<unset>")]), WorkerSpec::new("compile-off", &[("QE_COMPILE", "0")])];
    let res = run_workers("C06", tier, seed, &specs, tier.pick(4, 8), &[]);
    compare(rep, &res, "compile-off", "compile");
}

pub fn run_c07(tier: Tier, seed: u64) -> i32 {
    let mut rep = Report::new(
        "C07",
        tier,
        seed,
        "exploration",
        "the same seeded statements (joins, aggregates, DISTINCT, sorts, LIMIT under a total order) over medium tables split into 5-40 batches (incl. empty ones) and as Parquet, executed by worker processes with RAYON_NUM_THREADS in {1,2,3,8,16}, each statement repeated; every answer must equal the 1-thread first answer (multiset, or sequence under ORDER BY). distinct = distinct (statement skeleton, layout) with a non-empty answer; evidence also counts distinct row-arrival orders observed per statement as a proxy for distinct schedules",
    );
    let threads: Vec<&str> = if tier == Tier::Quick { vec!["1", "2", "8", "16"] } else { vec!["1", "2", "3", "4", "8", "16"] };
    let specs: Vec<WorkerSpec> = threads.iter().map(|t| WorkerSpec::new(&format!("threads-{}", t), &[("RAYON_NUM_THREADS", t)])).collect();
    let res = run_workers("C07", tier, seed, &specs, tier.pick(3, 3), &[]);
    compare(&mut rep, &res, "threads-1", "threads");
    rep.floor(rep.evaluations > 100, "too few cases compared");
    rep.finish()
}
