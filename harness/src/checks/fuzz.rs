//! C29 No SQL input crashes or hangs the engine.
//!
//! Inputs are executed in worker processes (a stack overflow or abort cannot
//! be caught in-process). A worker writes "B <index>" to a progress file
//! before each input, runs `ctx.sql` under a watchdog with panic capture and
//! prints one JSON line per input. The driver restarts a worker that died and
//! blames the input named by the last progress record; inputs are a pure
//! function of (seed, shard, index), so the driver regenerates the text.
//! A watchdog expiry is re-run alone with a much longer limit before it is
//! called a hang (a loaded machine is not a hang).

use crate::checks::shapes;
use crate::data::Table;
use crate::eng::{mem_ctx, run_sql_t, Outcome};
use crate::qgen::{gen_db, Feats, SizeClass};
use crate::report::{Report, Tier};
use crate::rng::Rng;
use serde_json::{json, Value};
use std::collections::BTreeMap;
use std::io::Write;
use std::time::Duration;

pub struct Input {
    pub class: &'static str,
    pub form: String,
    pub sql: String,
}

fn fuzz_db(seed: u64) -> Vec<Table> {
    let mut rng = Rng::new(seed ^ 0xF022);
    gen_db(&mut rng, 3, SizeClass::Tiny)
}

const KEYWORDS: &[&str] = &[
    "SELECT", "FROM", "WHERE", "GROUP", "BY", "HAVING", "ORDER", "LIMIT", "OFFSET", "JOIN", "LEFT", "RIGHT", "FULL", "OUTER", "INNER", "CROSS", "ON", "USING", "AS", "AND", "OR", "NOT", "IN", "EXISTS", "BETWEEN", "LIKE", "IS", "NULL", "TRUE", "FALSE", "CASE", "WHEN", "THEN", "ELSE", "END", "UNION", "ALL", "INTERSECT", "EXCEPT", "DISTINCT", "WITH", "RECURSIVE", "VALUES", "OVER", "PARTITION", "ROWS", "RANGE", "UNBOUNDED", "PRECEDING", "FOLLOWING", "CURRENT", "ROW", "CAST", "INTERVAL", "DATE", "TIMESTAMP", "ASC", "DESC", "NULLS", "FIRST", "LAST", "COUNT", "SUM", "MIN", "MAX", "AVG", "ROLLUP", "CUBE", "GROUPING", "SETS", "LATERAL", "NATURAL", "ANY", "SOME", "INSERT", "INTO", "UPDATE", "DELETE", "CREATE", "TABLE", "DROP", "EXPLAIN", "ANALYZE", "SHOW", "SET", "FILTER", "WITHIN", "ARRAY", "ROW_NUMBER", "RANK", "LAG", "COALESCE", "NULLIF", "SUBSTR", "ABS", "ROUND", "EXTRACT", "YEAR", "TABLESAMPLE", "UNNEST", "PIVOT", "QUALIFY", "WINDOW", "FETCH", "ONLY", "TOP",
];
const PUNCT: &[&str] = &["(", ")", ",", ".", "*", "+", "-", "/", "%", "=", "<>", "!=", "<", ">", "<=", ">=", "||", ";", "::", "[", "]", "{", "}", "'", "\"", "`", "--", "/*", "*/", "?", "$1", ":", "@", "#", "\\", "&", "|", "^", "~"];

fn vocab_token(rng: &mut Rng, db: &[Table]) -> String {
    match rng.usize(9) {
        0 | 1 => rng.pick(KEYWORDS).to_string(),
        2 => rng.pick(PUNCT).to_string(),
        3 => {
            let t = rng.pick(db);
            t.name.clone()
        }
        4 => {
            let t = rng.pick(db);
            let c = rng.pick(&t.cols);
            if rng.bool() {
                c.name.clone()
            } else {
                format!("{}.{}", t.name, c.name)
            }
        }
        5 => rng.pick(&["nope", "x", "t9.c", "\"Weird Name\"", "select", "_", "ü", "表", "a.b.c.d"]).to_string(),
        6 => rng.pick(&["0", "1", "-1", "9223372036854775807", "9223372036854775808", "1e308", "1e309", ".5", "5.", "0x10", "1e", "00", "1.2.3", "NaN", "Infinity"]).to_string(),
        7 => rng.pick(&["''", "'a'", "'it''s'", "'%'", "'\\'", "'\u{0}'", "'ü表😀'", "DATE '2020-01-01'", "DATE '2020-13-45'", "INTERVAL '1' DAY", "INTERVAL 'x' YEAR", "'unterminated"]).to_string(),
        _ => "(".to_string(),
    }
}

fn tokens_of(sql: &str) -> Vec<String> {
    let mut out = Vec::new();
    let mut cur = String::new();
    let mut in_str = false;
    for ch in sql.chars() {
        if in_str {
            cur.push(ch);
            if ch == '\'' {
                in_str = false;
                out.push(std::mem::take(&mut cur));
            }
        } else if ch == '\'' {
            if !cur.is_empty() {
                out.push(std::mem::take(&mut cur));
            }
            cur.push(ch);
            in_str = true;
        } else if ch.is_whitespace() {
            if !cur.is_empty() {
                out.push(std::mem::take(&mut cur));
            }
        } else if "(),".contains(ch) {
            if !cur.is_empty() {
                out.push(std::mem::take(&mut cur));
            }
            out.push(ch.to_string());
        } else {
            cur.push(ch);
        }
    }
    if !cur.is_empty() {
        out.push(cur);
    }
    out
}

fn nest(open: &str, core: &str, close: &str, d: usize) -> String {
    let mut s = String::with_capacity(d * (open.len() + close.len()) + core.len());
    for _ in 0..d {
        s.push_str(open);
    }
    s.push_str(core);
    for _ in 0..d {
        s.push_str(close);
    }
    s
}

fn deep(rng: &mut Rng, db: &[Table]) -> (String, String) {
    let t = &db[0];
    let icol = t.cols.iter().find(|c| c.ty.is_int()).map(|c| c.name.clone()).unwrap_or("id".into());
    let d = *rng.pick(&[10usize, 40, 60, 200, 1000, 5000, 20000]);
    let forms = ["parens", "plus-chain", "not-chain", "neg-chain", "subquery-from", "case-nest", "and-chain", "or-chain", "in-list", "func-nest", "union-chain", "cte-chain", "scalar-subquery-nest", "exists-nest", "concat-chain", "between-nest", "cast-nest", "join-chain", "paren-select", "where-parens"];
    let f = *rng.pick(&forms);
    let chain = |item: &str, sep: &str, n: usize| -> String {
        let mut s = String::with_capacity(n * (item.len() + sep.len()));
        for i in 0..n {
            if i > 0 {
                s.push_str(sep);
            }
            s.push_str(item);
        }
        s
    };
    let sql = match f {
        "parens" => format!("SELECT {} FROM {}", nest("(", "1", ")", d), t.name),
        "plus-chain" => format!("SELECT {} FROM {}", chain(&icol, " + ", d), t.name),
        "not-chain" => format!("SELECT {} FROM {} WHERE {} TRUE", icol, t.name, chain("NOT", " ", d)),
        "neg-chain" => format!("SELECT {} 1", chain("-", " ", d)),
        "subquery-from" => {
            let mut s = t.name.clone();
            for i in 0..d.min(2000) {
                s = format!("(SELECT * FROM {}) AS q{}", s, i);
            }
            format!("SELECT * FROM {}", s)
        }
        "case-nest" => format!("SELECT {} FROM {}", nest(&format!("CASE WHEN {} > 0 THEN ", icol), "1", " ELSE 0 END", d.min(5000)), t.name),
        "and-chain" => format!("SELECT {} FROM {} WHERE {}", icol, t.name, chain(&format!("{} >= 0", icol), " AND ", d)),
        "or-chain" => format!("SELECT {} FROM {} WHERE {}", icol, t.name, chain(&format!("{} = 3", icol), " OR ", d)),
        "in-list" => format!("SELECT {} FROM {} WHERE {} IN ({})", icol, t.name, icol, (0..d).map(|i| i.to_string()).collect::<Vec<_>>().join(",")),
        "func-nest" => format!("SELECT {} FROM {}", nest("ABS(", &icol, ")", d), t.name),
        "union-chain" => chain(&format!("SELECT {} FROM {}", icol, t.name), " UNION ALL ", d.min(3000)),
        "cte-chain" => {
            let n = d.min(1000);
            let mut s = format!("WITH c0 AS (SELECT {} AS x FROM {})", icol, t.name);
            for i in 1..n {
                s.push_str(&format!(", c{} AS (SELECT x FROM c{})", i, i - 1));
            }
            format!("{} SELECT COUNT(*) FROM c{}", s, n - 1)
        }
        "scalar-subquery-nest" => format!("SELECT {}", nest("(SELECT ", "1", ")", d.min(5000))),
        "exists-nest" => format!("SELECT 1 WHERE {}", nest("EXISTS (SELECT 1 WHERE ", "TRUE", ")", d.min(5000))),
        "concat-chain" => format!("SELECT {}", chain("'a'", " || ", d)),
        "between-nest" => format!("SELECT {} FROM {} WHERE {}", icol, t.name, chain(&format!("{} BETWEEN 0 AND 9", icol), " AND NOT ", d.min(5000))),
        "cast-nest" => format!("SELECT {}", nest("CAST(", "1", " AS BIGINT)", d.min(5000))),
        "join-chain" => {
            let n = d.min(40);
            let mut s = format!("{} AS j0", t.name);
            for i in 1..n {
                s.push_str(&format!(" JOIN {} AS j{} ON j{}.id = j{}.id", t.name, i, i - 1, i));
            }
            format!("SELECT COUNT(*) FROM {}", s)
        }
        "paren-select" => format!("{}SELECT 1{}", "(".repeat(d), ")".repeat(d)),
        _ => format!("SELECT {} FROM {} WHERE {}", icol, t.name, nest("(", &format!("{} > 0", icol), ")", d)),
    };
    (format!("{}:{}", f, d), sql)
}

fn huge(rng: &mut Rng, db: &[Table]) -> (String, String) {
    let t = &db[0];
    let n = *rng.pick(&[20usize, 40, 400, 5000, 100_000, 1_000_000]);
    let forms = ["int-digits", "decimal-digits", "string", "identifier", "exponent", "date", "like-pattern", "limit", "offset", "alias", "neg-int", "hex", "unicode-string", "comment", "whitespace", "interval"];
    let f = *rng.pick(&forms);
    let sql = match f {
        "int-digits" => format!("SELECT {}", "9".repeat(n)),
        "decimal-digits" => format!("SELECT 1.{}", "3".repeat(n)),
        "string" => format!("SELECT '{}'", "x".repeat(n)),
        "identifier" => format!("SELECT {} FROM {}", "c".repeat(n), t.name),
        "exponent" => format!("SELECT 1e{}", "9".repeat(n.min(400))),
        "date" => format!("SELECT DATE '{}-01-01'", "9".repeat(n.min(400))),
        "like-pattern" => format!("SELECT 'aaaaaaaaaaaaaaaaaaaaaaaaaaaaaaaaaaaaaaaab' LIKE '{}'", "%a".repeat(n.min(5000))),
        "limit" => format!("SELECT * FROM {} LIMIT {}", t.name, "9".repeat(n.min(400))),
        "offset" => format!("SELECT * FROM {} LIMIT 1 OFFSET {}", t.name, "9".repeat(n.min(400))),
        "alias" => format!("SELECT 1 AS {}", "a".repeat(n)),
        "neg-int" => format!("SELECT -{}", "9".repeat(n)),
        "hex" => format!("SELECT X'{}'", "ab".repeat(n.min(100_000))),
        "unicode-string" => format!("SELECT '{}'", "表😀".repeat(n.min(100_000))),
        "comment" => format!("SELECT 1 /* {} */", "c".repeat(n)),
        "whitespace" => format!("SELECT{}1", " ".repeat(n)),
        _ => format!("SELECT INTERVAL '{}' DAY", "9".repeat(n.min(400))),
    };
    (format!("{}:{}", f, n), sql)
}

fn hostile_templates(rng: &mut Rng, db: &[Table]) -> (String, String) {
    let t = &db[0];
    let u = &db[1];
    let icol = t.cols.iter().find(|c| c.ty.is_int()).map(|c| c.name.clone()).unwrap_or("id".into());
    let scol = t.cols.iter().find(|c| c.ty == crate::data::Ty::Str).map(|c| c.name.clone()).unwrap_or("id".into());
    let fcol = t.cols.iter().find(|c| c.ty == crate::data::Ty::F64).map(|c| c.name.clone()).unwrap_or("id".into());
    let tn = &t.name;
    let un = &u.name;
    let v: Vec<String> = vec![
        format!("SELECT {} + 1 FROM {}", scol, tn),
        format!("SELECT SUM({}) FROM {}", scol, tn),
        format!("SELECT * FROM nope"),
        format!("SELECT nope FROM {}", tn),
        format!("SELECT {}.nope FROM {}", tn, tn),
        format!("SELECT {} FROM {} GROUP BY", icol, tn),
        format!("SELECT {} FROM {} GROUP BY 0", icol, tn),
        format!("SELECT {} FROM {} GROUP BY 99", icol, tn),
        format!("SELECT {} FROM {} ORDER BY 99", icol, tn),
        format!("SELECT {} FROM {} ORDER BY 0", icol, tn),
        format!("SELECT {} FROM {} LIMIT -1", icol, tn),
        format!("SELECT {} FROM {} LIMIT 1 OFFSET -5", icol, tn),
        format!("SELECT {} FROM {} LIMIT NULL", icol, tn),
        format!("SELECT {} FROM {} LIMIT 1.5", icol, tn),
        format!("SELECT {} FROM {} LIMIT 'a'", icol, tn),
        format!("SELECT {} / 0 FROM {}", icol, tn),
        format!("SELECT {} % 0 FROM {}", icol, tn),
        format!("SELECT {} / 0.0 FROM {}", fcol, tn),
        format!("SELECT 9223372036854775807 + {} FROM {}", icol, tn),
        format!("SELECT -9223372036854775807 - 2 + {} FROM {}", icol, tn),
        format!("SELECT (-9223372036854775807 - 1) / -1"),
        format!("SELECT (-9223372036854775807 - 1) % -1"),
        format!("SELECT ABS(-9223372036854775807 - 1)"),
        format!("SELECT - (-9223372036854775807 - 1)"),
        format!("SELECT 3037000500 * 3037000500"),
        format!("SELECT CAST('x' AS BIGINT)"),
        format!("SELECT CAST('99999999999999999999' AS BIGINT)"),
        format!("SELECT CAST(1e300 AS BIGINT)"),
        format!("SELECT CAST({} AS DATE) FROM {}", icol, tn),
        format!("SELECT CAST('2020-02-30' AS DATE)"),
        format!("SELECT CAST({} AS NOPE) FROM {}", icol, tn),
        format!("SELECT SUBSTR({}, -5, 999999999999) FROM {}", scol, tn),
        format!("SELECT SUBSTR({}, 9223372036854775807, 9223372036854775807) FROM {}", scol, tn),
        format!("SELECT SUBSTR({}, 0, -1) FROM {}", scol, tn),
        format!("SELECT LPAD({}, 100000, 'y') FROM {}", scol, tn),
        format!("SELECT LPAD({}, -1, '') FROM {}", scol, tn),
        format!("SELECT REPEAT({}, 10000) FROM {}", scol, tn),
        format!("SELECT REPEAT({}, -1) FROM {}", scol, tn),
        format!("SELECT ROUND({}, 400) FROM {}", fcol, tn),
        format!("SELECT ROUND({}, -400) FROM {}", fcol, tn),
        format!("SELECT POWER({}, 100000) FROM {}", icol, tn),
        format!("SELECT SQRT(-1), LN(0), LN(-1), LOG10(0)"),
        format!("SELECT {} FROM {} WHERE {} LIKE '%' ESCAPE ''", icol, tn, scol),
        format!("SELECT {} FROM {} WHERE {} LIKE '\\'", icol, tn, scol),
        format!("SELECT {} FROM {} WHERE REGEXP_LIKE({}, '(((')", icol, tn, scol),
        format!("SELECT {} FROM {} WHERE REGEXP_LIKE({}, '(a*)*b')", icol, tn, scol),
        format!("SELECT DATE '2020-01-01' + INTERVAL '999999999' YEAR"),
        format!("SELECT DATE '0001-01-01' - INTERVAL '10' YEAR"),
        format!("SELECT DATE_ADD('day', 9223372036854775807, DATE '2020-01-01')"),
        format!("SELECT EXTRACT(NOPE FROM DATE '2020-01-01')"),
        format!("SELECT COUNT(*) OVER (ORDER BY {} ROWS BETWEEN 9223372036854775807 PRECEDING AND 9223372036854775807 FOLLOWING) FROM {}", icol, tn),
        format!("SELECT COUNT(*) OVER (ORDER BY {} ROWS BETWEEN -1 PRECEDING AND CURRENT ROW) FROM {}", icol, tn),
        format!("SELECT COUNT(*) OVER (ORDER BY {} ROWS BETWEEN 1 FOLLOWING AND 1 PRECEDING) FROM {}", icol, tn),
        format!("SELECT NTILE(0) OVER (ORDER BY {}) FROM {}", icol, tn),
        format!("SELECT NTILE(-1) OVER (ORDER BY {}) FROM {}", icol, tn),
        format!("SELECT LAG({}, -1) OVER (ORDER BY {}) FROM {}", icol, icol, tn),
        format!("SELECT LAG({}, 9223372036854775807) OVER (ORDER BY {}) FROM {}", icol, icol, tn),
        format!("SELECT SUM(SUM({})) FROM {}", icol, tn),
        format!("SELECT SUM({}) OVER (), SUM({}) FROM {}", icol, icol, tn),
        format!("SELECT {} FROM {} WHERE SUM({}) > 0", icol, tn, icol),
        format!("SELECT {} FROM {} HAVING {} > 0", icol, tn, icol),
        format!("SELECT ROW_NUMBER() FROM {}", tn),
        format!("SELECT {} FROM {} WHERE ROW_NUMBER() OVER () = 1", icol, tn),
        format!("SELECT * FROM {} NATURAL JOIN {}", tn, un),
        format!("SELECT * FROM {} JOIN {} USING (nope)", tn, un),
        format!("SELECT * FROM {} JOIN {} USING (id)", tn, un),
        format!("SELECT * FROM {} a JOIN {} a ON a.id = a.id", tn, un),
        format!("SELECT id FROM {}, {}", tn, un),
        format!("SELECT * FROM {} LEFT JOIN {} ON TRUE", tn, un),
        format!("SELECT * FROM {} FULL JOIN {} ON {}.id < {}.id", tn, un, tn, un),
        format!("SELECT * FROM {} a, LATERAL (SELECT * FROM {} b WHERE b.id = a.id) c", tn, un),
        format!("WITH RECURSIVE r(n) AS (SELECT 1 UNION ALL SELECT n + 1 FROM r WHERE n < 5) SELECT * FROM r"),
        format!("WITH c AS (SELECT * FROM c) SELECT * FROM c"),
        format!("WITH c AS (SELECT 1), c AS (SELECT 2) SELECT * FROM c"),
        format!("SELECT * FROM (SELECT 1)"),
        format!("SELECT * FROM (VALUES (1, 'a'), (2)) v"),
        format!("VALUES (1), ('a')"),
        format!("SELECT 1 UNION SELECT 1, 2"),
        format!("SELECT 1 UNION SELECT 'a'"),
        format!("SELECT {} FROM {} INTERSECT SELECT {} FROM {}", icol, tn, scol, tn),
        format!("SELECT (SELECT {} FROM {}) FROM {}", icol, tn, un),
        format!("SELECT (SELECT {}, {} FROM {} LIMIT 1)", icol, scol, tn),
        format!("SELECT {} FROM {} WHERE {} IN (SELECT * FROM {})", icol, tn, icol, un),
        format!("SELECT {} FROM {} WHERE ({}, {}) IN (SELECT id, id FROM {})", icol, tn, icol, icol, un),
        format!("SELECT {} FROM {} WHERE {} > ALL (SELECT id FROM {})", icol, tn, icol, un),
        format!("SELECT {} FROM {} WHERE {} = ANY (SELECT id FROM {})", icol, tn, icol, un),
        format!("INSERT INTO {} VALUES (1)", tn),
        format!("UPDATE {} SET {} = 1", tn, icol),
        format!("DELETE FROM {}", tn),
        format!("CREATE TABLE z (a INT)"),
        format!("DROP TABLE {}", tn),
        format!("EXPLAIN SELECT * FROM {}", tn),
        format!("EXPLAIN ANALYZE SELECT * FROM {}", tn),
        format!("SHOW TABLES"),
        format!("SET x = 1"),
        format!("SELECT * FROM {} TABLESAMPLE BERNOULLI (10)", tn),
        format!("SELECT * FROM UNNEST(ARRAY[1,2,3])"),
        format!("SELECT ARRAY[1,'a']"),
        format!("SELECT ARRAY[1,2][5]"),
        format!("SELECT {} FROM {} GROUP BY ROLLUP ()", icol, tn),
        format!("SELECT {} FROM {} GROUP BY GROUPING SETS ()", icol, tn),
        format!("SELECT {} FROM {} GROUP BY CUBE ({}, {}, {}, {}, {}, {}, {}, {}, {}, {}, {}, {})", icol, tn, icol, icol, icol, icol, icol, icol, icol, icol, icol, icol, icol, icol),
        format!("SELECT GROUPING({}) FROM {}", icol, tn),
        format!("SELECT COUNT(DISTINCT *) FROM {}", tn),
        format!("SELECT COUNT(DISTINCT {}, {}) FROM {}", icol, scol, tn),
        format!("SELECT COUNT() FROM {}", tn),
        format!("SELECT ABS() FROM {}", tn),
        format!("SELECT ABS(1, 2, 3)"),
        format!("SELECT COALESCE()"),
        format!("SELECT NULLIF(1)"),
        format!("SELECT CASE END"),
        format!("SELECT CASE WHEN 1 THEN 2 END"),
        format!("SELECT CASE {} WHEN 'a' THEN 1 WHEN 2 THEN 'b' END FROM {}", icol, tn),
        format!("SELECT NULL + NULL, NULL || NULL, NOT NULL, -NULL"),
        format!("SELECT * FROM {} WHERE NULL", tn),
        format!("SELECT * FROM {} WHERE 1", tn),
        format!("SELECT * FROM {} WHERE 'a'", tn),
        format!("SELECT DISTINCT ON ({}) * FROM {}", icol, tn),
        format!("SELECT * EXCLUDE ({}) FROM {}", icol, tn),
        format!("SELECT {}.* FROM {}", un, tn),
        format!("SELECT *, * FROM {}", tn),
        format!("SELECT 1 AS a, 2 AS a"),
        format!("SELECT a FROM (SELECT 1 AS a, 2 AS a) x"),
        format!("SELECT \"\" FROM {}", tn),
        format!("SELECT `{}` FROM {}", icol, tn),
        format!("SELECT [{}] FROM {}", icol, tn),
        format!("SELECT $1 FROM {}", tn),
        format!("SELECT ? FROM {}", tn),
        format!("SELECT {} FROM {};;; SELECT 1", icol, tn),
        format!("SELECT 1; DROP TABLE {}", tn),
        format!(""),
        format!(";"),
        format!("   "),
        format!("--"),
        format!("/*"),
        format!("SELECT"),
        format!("SELECT FROM"),
        format!("SELECT * FROM"),
        format!("SELECT * FROM {} WHERE", tn),
        format!("SELECT * FROM {} ORDER BY", tn),
        format!("SELECT 'a"),
        format!("SELECT \"a"),
        format!("SELECT 1 +"),
        format!("SELECT (1"),
        format!("SELECT 1)"),
        format!("\u{0}"),
        format!("SELECT '\u{0}'"),
        format!("SELECT\u{a0}1"),
        format!("\u{feff}SELECT 1"),
        format!("ＳＥＬＥＣＴ 1"),
    ];
    let i = rng.usize(v.len());
    (format!("t{}", i), v[i].clone())
}

/// Input `index` of shard `shard` — a pure function of its arguments.
pub fn gen_input(seed: u64, shard: usize, index: usize, db: &[Table]) -> Input {
    let mut rng = Rng::new(seed.wrapping_mul(0x9E3779B97F4A7C15) ^ ((shard as u64) << 40) ^ index as u64);
    match rng.usize(10) {
        0 => {
            let n = rng.usize(200);
            let bytes: Vec<u8> = (0..n).map(|_| if rng.chance(1, 3) { rng.below(256) as u8 } else { *rng.pick(b"SELCTFROMWHselctfromwh ()*,.'\"0123456789+-=<>;\n\t") }).collect();
            Input { class: "bytes", form: format!("len{}", n / 50 * 50), sql: String::from_utf8_lossy(&bytes).into_owned() }
        }
        1 | 2 => {
            let n = 1 + rng.usize(40);
            let toks: Vec<String> = (0..n).map(|_| vocab_token(&mut rng, db)).collect();
            let lead = if rng.chance(2, 3) { "SELECT " } else { "" };
            Input { class: "token-soup", form: format!("len{}", n / 10 * 10), sql: format!("{}{}", lead, toks.join(" ")) }
        }
        3 | 4 | 5 => {
            let q = shapes::mixed_query(&mut rng, db, Feats::all());
            let mut toks = tokens_of(&q.engine_sql());
            let muts = 1 + rng.usize(3);
            let mut kinds = Vec::new();
            for _ in 0..muts {
                if toks.is_empty() {
                    break;
                }
                let i = rng.usize(toks.len());
                let kind = rng.usize(6);
                match kind {
                    0 => {
                        toks.remove(i);
                        kinds.push("del");
                    }
                    1 => {
                        let t = toks[i].clone();
                        toks.insert(i, t);
                        kinds.push("dup");
                    }
                    2 => {
                        let j = rng.usize(toks.len());
                        toks.swap(i, j);
                        kinds.push("swap");
                    }
                    3 => {
                        toks[i] = vocab_token(&mut rng, db);
                        kinds.push("repl");
                    }
                    4 => {
                        toks.truncate(i);
                        kinds.push("trunc");
                    }
                    _ => {
                        let t = vocab_token(&mut rng, db);
                        toks.insert(i, t);
                        kinds.push("ins");
                    }
                }
            }
            kinds.sort();
            kinds.dedup();
            Input { class: "mutated-statement", form: kinds.join("+"), sql: toks.join(" ") }
        }
        6 | 7 => {
            let (f, sql) = deep(&mut rng, db);
            Input { class: "deep", form: f, sql }
        }
        8 => {
            let (f, sql) = huge(&mut rng, db);
            Input { class: "huge", form: f, sql }
        }
        _ => {
            let (f, sql) = hostile_templates(&mut rng, db);
            Input { class: "template", form: f, sql }
        }
    }
}

fn n_inputs(tier: Tier) -> usize {
    tier.pick(700, 8_000)
}
const SHARDS: usize = 12;
const WATCHDOG: Duration = Duration::from_secs(40);
const CONFIRM_WATCHDOG: Duration = Duration::from_secs(240);

fn norm_msg(m: &str) -> String {
    let mut s = String::new();
    let mut last_digit = false;
    for ch in m.chars().take(90) {
        if ch.is_ascii_digit() {
            if !last_digit {
                s.push('N');
            }
            last_digit = true;
        } else {
            last_digit = false;
            s.push(if ch.is_control() { ' ' } else { ch });
        }
    }
    s
}

/// worker: `worker C29 <tier> <seed> <shard> <nshards> <start> <progress-file> [single]`
pub fn worker(tier: Tier, seed: u64, shard: usize, _nshards: usize, rest: &[String]) -> i32 {
    let start: usize = rest.first().and_then(|s| s.parse().ok()).unwrap_or(0);
    let progress = rest.get(1).cloned().unwrap_or_default();
    let single = rest.get(2).map(|s| s == "single").unwrap_or(false);
    let db = fuzz_db(seed);
    let ctx = mem_ctx(&db);
    let mut pf = std::fs::OpenOptions::new().create(true).append(true).open(&progress).ok();
    let out = std::io::stdout();
    let n = n_inputs(tier);
    let end = if single { start + 1 } else { n };
    for i in start..end {
        let inp = gen_input(seed, shard, i, &db);
        if let Some(f) = pf.as_mut() {
            let _ = writeln!(f, "B {}", i);
            let _ = f.flush();
        }
        let t0 = std::time::Instant::now();
        let o = run_sql_t(&ctx, &inp.sql, if single { CONFIRM_WATCHDOG } else { WATCHDOG });
        let ms = t0.elapsed().as_millis() as u64;
        let panics = crate::eng::take_panics();
        let (kind, detail) = match &o {
            Outcome::Ok(a) => ("ok", format!("{} rows", a.rows.len())),
            Outcome::Err(e) => ("err", norm_msg(e)),
            Outcome::Panic(m) => ("panic", format!("{} || {}", norm_msg(m), panics.first().cloned().unwrap_or_default())),
            Outcome::Timeout => ("timeout", String::new()),
        };
        {
            let mut l = out.lock();
            let _ = writeln!(l, "{}", json!({"i": i, "kind": kind, "detail": detail, "ms": ms}));
            let _ = l.flush();
        }
        if matches!(o, Outcome::Timeout) {
            // the stuck task keeps a runtime thread busy: start over in a fresh process
            return 3;
        }
    }
    let mut l = out.lock();
    let _ = writeln!(l, "{}", json!({"done": true}));
    let _ = l.flush();
    0
}

struct ShardOutcome {
    lines: Vec<Value>,
    /// (index, how the process ended)
    deaths: Vec<(usize, String)>,
    timeouts: Vec<usize>,
    completed: bool,
    restarts: usize,
}

fn spawn_worker(tier: Tier, seed: u64, shard: usize, start: usize, progress: &std::path::Path, single: bool) -> std::process::Output {
    let exe = crate::eng::self_exe();
    let mut c = std::process::Command::new(exe);
    c.arg("worker").arg("C29").arg(tier.name()).arg(seed.to_string()).arg(shard.to_string()).arg(SHARDS.to_string()).arg(start.to_string()).arg(progress);
    if single {
        c.arg("single");
    }
    c.env("RAYON_NUM_THREADS", "2").env("QE_VERIF_AS_LIMIT_GB", "12").env("QE_VERIF_TOKIO_STACK_MB", "2");
    c.stdout(std::process::Stdio::piped()).stderr(std::process::Stdio::piped());
    c.output().expect("worker")
}

fn describe_exit(st: &std::process::ExitStatus) -> String {
    use std::os::unix::process::ExitStatusExt;
    if let Some(sig) = st.signal() {
        let name = match sig {
            11 => "SIGSEGV",
            6 => "SIGABRT",
            7 => "SIGBUS",
            9 => "SIGKILL",
            4 => "SIGILL",
            8 => "SIGFPE",
            _ => "signal",
        };
        format!("{}({})", name, sig)
    } else {
        format!("exit({})", st.code().unwrap_or(-1))
    }
}

fn run_shard(tier: Tier, seed: u64, shard: usize, dir: &std::path::Path) -> ShardOutcome {
    let n = n_inputs(tier);
    let mut so = ShardOutcome { lines: Vec::new(), deaths: Vec::new(), timeouts: Vec::new(), completed: false, restarts: 0 };
    let mut start = 0usize;
    while start < n && so.restarts < 400 {
        let progress = dir.join(format!("progress.{}.{}", shard, so.restarts));
        let o = spawn_worker(tier, seed, shard, start, &progress, false);
        let mut done = false;
        let mut last_i: Option<usize> = None;
        let mut timed_out = false;
        for l in String::from_utf8_lossy(&o.stdout).lines() {
            let Ok(v) = serde_json::from_str::<Value>(l) else { continue };
            if v.get("done").is_some() {
                done = true;
                continue;
            }
            if let Some(i) = v["i"].as_u64() {
                last_i = Some(i as usize);
                if v["kind"] == "timeout" {
                    timed_out = true;
                    so.timeouts.push(i as usize);
                }
            }
            so.lines.push(v);
        }
        if done {
            so.completed = true;
            break;
        }
        so.restarts += 1;
        let begun = std::fs::read_to_string(&progress).ok().and_then(|s| s.lines().rev().find_map(|l| l.strip_prefix("B ").and_then(|x| x.trim().parse::<usize>().ok())));
        if timed_out {
            start = last_i.map(|i| i + 1).unwrap_or(start + 1);
            continue;
        }
        match begun {
            Some(b) if Some(b) != last_i => {
                // input b was begun and never reported: it killed the process
                let se = String::from_utf8_lossy(&o.stderr);
                let hint = if se.contains("stack overflow") || se.contains("overflowed its stack") { " stack-overflow" } else if se.contains("memory allocation") { " allocation-failure" } else { "" };
                so.deaths.push((b, format!("{}{}", describe_exit(&o.status), hint)));
                start = b + 1;
            }
            _ => {
                // died between inputs (or before the first): a harness problem, not an input's
                so.deaths.push((usize::MAX, format!("{} outside any input", describe_exit(&o.status))));
                start = last_i.map(|i| i + 1).unwrap_or(start + 1);
            }
        }
    }
    if start >= n {
        so.completed = true;
    }
    so
}

pub fn run_c29(tier: Tier, seed: u64) -> i32 {
    let mut rep = Report::new(
        "C29",
        tier,
        seed,
        "exploration",
        "inputs executed by ctx.sql in worker processes against three registered tables: random bytes (lossy UTF-8), keyword/identifier/literal token soup, grammar-generated statements of the mixed corpus with 1-3 token mutations (delete, duplicate, swap, replace, truncate, insert), deep nesting in 20 forms at depths 10-20000, huge literals/identifiers in 16 forms up to 1 MB, and 150 hostile templates (unknown names, type mismatches, overflow, unsupported syntax, degenerate frames/limits). Every input must end in Ok or Err: a caught panic, a process death (signal/abort/stack overflow, attributed through the progress record) or a watchdog expiry that repeats when the input is re-run alone with a 240 s limit is a violation. distinct = distinct (class, form, outcome kind, normalised message)",
    );
    let scratch = crate::data::Scratch::new("c29");
    let dir = scratch.path().to_path_buf();
    let db = fuzz_db(seed);
    let outcomes: Vec<(usize, ShardOutcome)> = std::thread::scope(|s| {
        let hs: Vec<_> = (0..SHARDS).map(|sh| { let d = dir.clone(); s.spawn(move || (sh, run_shard(tier, seed, sh, &d))) }).collect();
        hs.into_iter().map(|h| h.join().expect("shard thread")).collect()
    });
    let mut by_kind: BTreeMap<String, u64> = BTreeMap::new();
    let mut by_class: BTreeMap<String, u64> = BTreeMap::new();
    let mut slowest: (u64, String) = (0, String::new());
    let mut confirmations = 0usize;
    for (sh, so) in &outcomes {
        for v in &so.lines {
            let i = v["i"].as_u64().unwrap_or(0) as usize;
            let kind = v["kind"].as_str().unwrap_or("");
            let detail = v["detail"].as_str().unwrap_or("");
            let inp = gen_input(seed, *sh, i, &db);
            rep.eval();
            *by_kind.entry(kind.to_string()).or_insert(0) += 1;
            *by_class.entry(format!("{}:{}", inp.class, kind)).or_insert(0) += 1;
            let ms = v["ms"].as_u64().unwrap_or(0);
            if ms > slowest.0 {
                slowest = (ms, format!("{}:{}", inp.class, inp.form));
            }
            let msg_key: String = detail.chars().take(40).collect();
            rep.nontrivial(&(inp.class, inp.form.clone(), kind.to_string(), msg_key));
            if kind == "panic" {
                let (msg, loc) = detail.split_once(" || ").unwrap_or((detail, ""));
                let file = loc.rsplit(" @ ").next().unwrap_or("").split(':').next().unwrap_or("");
                let sig = format!("panic:{}:{}", file.rsplit("/src/").next().unwrap_or(file), msg.chars().take(50).collect::<String>());
                rep.fail(&sig, &format!("{} [{}:{}] :: panicked: {}", clip(&inp.sql), inp.class, inp.form, detail), json!({"sql": clip_long(&inp.sql), "class": inp.class, "form": inp.form, "shard": sh, "index": i, "panic": detail}));
            }
            if rep.evaluations % 1500 == 1 {
                rep.sample(json!({"class": inp.class, "form": inp.form, "sql": clip(&inp.sql), "outcome": kind, "detail": detail}));
            }
        }
        for (i, how) in &so.deaths {
            if *i == usize::MAX {
                rep.inconclusive("worker-died-outside-an-input");
                continue;
            }
            let inp = gen_input(seed, *sh, *i, &db);
            rep.eval();
            *by_kind.entry("process-death".into()).or_insert(0) += 1;
            let depth_class = inp.form.split(':').next().unwrap_or("").to_string();
            let sig = format!("process-death:{}:{}:{}", how.split('(').next().unwrap_or(how), inp.class, depth_class);
            rep.fail(&sig, &format!("{} [{}:{}] :: the process died: {}", clip(&inp.sql), inp.class, inp.form, how), json!({"sql": clip_long(&inp.sql), "class": inp.class, "form": inp.form, "shard": sh, "index": i, "death": how}));
        }
        for i in &so.timeouts {
            let inp = gen_input(seed, *sh, *i, &db);
            // every confirmation may take CONFIRM_WATCHDOG: confirm a few per run, count the rest
            confirmations += 1;
            if confirmations > 4 {
                rep.inconclusive("watchdog-expiry-not-confirmed(confirmation budget spent)");
                continue;
            }
            // confirm alone with a much longer limit
            let progress = dir.join(format!("confirm.{}.{}", sh, i));
            let o = spawn_worker(tier, seed, *sh, *i, &progress, true);
            let again = String::from_utf8_lossy(&o.stdout).lines().filter_map(|l| serde_json::from_str::<Value>(l).ok()).find(|v| v["i"].as_u64() == Some(*i as u64));
            match again {
                Some(v) if v["kind"] == "timeout" => {
                    let sig = format!("hang:{}:{}", inp.class, inp.form.split(':').next().unwrap_or(""));
                    rep.fail(&sig, &format!("{} [{}:{}] :: no answer within {} s when run alone", clip(&inp.sql), inp.class, inp.form, CONFIRM_WATCHDOG.as_secs()), json!({"sql": clip_long(&inp.sql), "class": inp.class, "form": inp.form, "shard": sh, "index": i}));
                }
                Some(v) => {
                    rep.inconclusive("slow-under-load-but-answers-alone");
                    rep.set("slow_example", json!({"class": inp.class, "form": inp.form, "alone_ms": v["ms"]}));
                }
                None => {
                    let sig = format!("process-death:confirm:{}:{}", inp.class, inp.form.split(':').next().unwrap_or(""));
                    rep.fail(&sig, &format!("{} [{}:{}] :: timed out, and the process died when it was re-run alone: {}", clip(&inp.sql), inp.class, inp.form, describe_exit(&o.status)), json!({"sql": clip_long(&inp.sql), "class": inp.class, "form": inp.form, "shard": sh, "index": i}));
                }
            }
        }
        if !so.completed {
            rep.inconclusive("shard-not-completed");
        }
    }
    rep.set("outcomes", json!(by_kind));
    rep.set("outcomes_by_class", json!(by_class));
    rep.set("slowest_input_ms", json!({"ms": slowest.0, "input": slowest.1}));
    rep.set("worker_restarts", json!(outcomes.iter().map(|(_, s)| s.restarts).sum::<usize>()));
    let ok = by_kind.get("ok").copied().unwrap_or(0);
    let err = by_kind.get("err").copied().unwrap_or(0);
    rep.floor(ok > 0 && err > 0, "the corpus must contain both answered and refused inputs");
    rep.floor(rep.evaluations as usize * 10 >= n_inputs(tier) * SHARDS * 9, "fewer than 90% of the planned inputs were executed");
    rep.assumptions.push("only valid UTF-8 can reach ExecutionContext::sql(&str); byte strings are made valid lossily".into());
    rep.assumptions.push("bounded time is judged by a 40 s watchdog over tiny tables, confirmed alone at 240 s".into());
    rep.finish()
}

fn clip(s: &str) -> String {
    if s.chars().count() > 160 {
        format!("{}… ({} chars)", s.chars().take(160).collect::<String>(), s.chars().count())
    } else {
        s.to_string()
    }
}
fn clip_long(s: &str) -> String {
    if s.chars().count() > 4000 {
        format!("{}… ({} chars; regenerate from shard/index)", s.chars().take(4000).collect::<String>(), s.chars().count())
    } else {
        s.to_string()
    }
}


/// Debug aid: print input SHARD/INDEX of seed SEED (env), e.g. to look at one a worker is stuck on.
pub fn print_input() -> i32 {
    let g = |k: &str| std::env::var(k).ok().and_then(|s| s.parse::<u64>().ok()).unwrap_or(0);
    let (seed, shard, idx) = (g("SEED").max(1), g("SHARD") as usize, g("INDEX") as usize);
    let db = fuzz_db(seed);
    let i = gen_input(seed, shard, idx, &db);
    println!("class={} form={} chars={}\n{}", i.class, i.form, i.sql.chars().count(), i.sql.chars().take(600).collect::<String>());
    0
}
