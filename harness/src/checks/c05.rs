//! C05 Statistics-based row-group skipping is sound.
//!
//! For real Parquet row groups and generated predicates:
//!   might_match == false  => no row of the group satisfies the predicate
//!   definitely_matches    => every row of the group satisfies it
//! where "satisfies" is the engine's own interpreter (`evaluate_expr`) on the
//! decoded row group. End-to-end: the same predicate query over Parquet and
//! over memory must agree.

use crate::data::{write_parquet_file, Cell, Col, PqOpts, Scratch, Table, Ty};
use crate::eng::{run_sql, Outcome};
use crate::report::{Report, Tier};
use crate::rng::Rng;
use arrow::array::{Array, BooleanArray};
use arrow::record_batch::RecordBatch;
use ordered_float::OrderedFloat;
use parquet::arrow::arrow_reader::ParquetRecordBatchReaderBuilder;
use query_engine::physical::operators::evaluate_expr;
use query_engine::planner::{BinaryOp, Column, Expr, ScalarValue, UnaryOp};
use query_engine::storage::row_group_pruning::{row_group_definitely_matches, row_group_might_match};
use query_engine::ExecutionContext;
use serde_json::json;
use std::sync::Arc;

#[derive(Clone, Debug)]
enum Lit {
    I64(i64),
    I32(i32),
    F64(f64),
    Date(i32),
    Str(String),
    Ts(i64),
}

impl Lit {
    fn expr(&self) -> Expr {
        Expr::Literal(match self {
            Lit::I64(v) => ScalarValue::Int64(*v),
            Lit::I32(v) => ScalarValue::Int32(*v),
            Lit::F64(v) => ScalarValue::Float64(OrderedFloat(*v)),
            Lit::Date(v) => ScalarValue::Date32(*v),
            Lit::Str(s) => ScalarValue::Utf8(s.clone()),
            Lit::Ts(v) => ScalarValue::Timestamp(*v),
        })
    }
    fn sql(&self) -> Option<String> {
        match self {
            Lit::I64(v) => Some(v.to_string()),
            Lit::I32(v) => Some(v.to_string()),
            Lit::F64(v) if v.is_finite() => Some(format!("{:?}", v)),
            Lit::F64(_) => None,
            Lit::Date(v) if (-100_000..=100_000).contains(v) => Some(Cell::Date(*v).sql()),
            Lit::Date(_) => None,
            Lit::Str(s) => Some(Cell::S(s.clone()).sql()),
            Lit::Ts(_) => None,
        }
    }
    fn kind(&self) -> &'static str {
        match self {
            Lit::I64(_) => "i64",
            Lit::I32(_) => "i32",
            Lit::F64(_) => "f64",
            Lit::Date(_) => "date",
            Lit::Str(_) => "str",
            Lit::Ts(_) => "ts",
        }
    }
}

#[derive(Clone, Debug)]
enum Pr {
    Cmp { col: &'static str, op: BinaryOp, lit: Lit, flipped: bool },
    Between { col: &'static str, lo: Lit, hi: Lit, neg: bool },
    And(Box<Pr>, Box<Pr>),
    Or(Box<Pr>, Box<Pr>),
    Not(Box<Pr>),
}

fn opname(op: BinaryOp) -> &'static str {
    match op {
        BinaryOp::Eq => "=",
        BinaryOp::NotEq => "<>",
        BinaryOp::Lt => "<",
        BinaryOp::LtEq => "<=",
        BinaryOp::Gt => ">",
        BinaryOp::GtEq => ">=",
        _ => "?",
    }
}

impl Pr {
    fn expr(&self) -> Expr {
        match self {
            Pr::Cmp { col, op, lit, flipped } => {
                let c = Expr::Column(Column::new(*col));
                let (l, r) = if *flipped { (lit.expr(), c) } else { (c, lit.expr()) };
                Expr::BinaryExpr { left: Box::new(l), op: *op, right: Box::new(r) }
            }
            Pr::Between { col, lo, hi, neg } => Expr::Between { expr: Box::new(Expr::Column(Column::new(*col))), low: Box::new(lo.expr()), high: Box::new(hi.expr()), negated: *neg },
            Pr::And(a, b) => Expr::BinaryExpr { left: Box::new(a.expr()), op: BinaryOp::And, right: Box::new(b.expr()) },
            Pr::Or(a, b) => Expr::BinaryExpr { left: Box::new(a.expr()), op: BinaryOp::Or, right: Box::new(b.expr()) },
            Pr::Not(a) => Expr::UnaryExpr { op: UnaryOp::Not, expr: Box::new(a.expr()) },
        }
    }
    fn sql(&self) -> Option<String> {
        Some(match self {
            Pr::Cmp { col, op, lit, flipped } => {
                if *flipped {
                    format!("{} {} {}", lit.sql()?, opname(*op), col)
                } else {
                    format!("{} {} {}", col, opname(*op), lit.sql()?)
                }
            }
            Pr::Between { col, lo, hi, neg } => format!("{} {}BETWEEN {} AND {}", col, if *neg { "NOT " } else { "" }, lo.sql()?, hi.sql()?),
            Pr::And(a, b) => format!("({} AND {})", a.sql()?, b.sql()?),
            Pr::Or(a, b) => format!("({} OR {})", a.sql()?, b.sql()?),
            Pr::Not(a) => format!("(NOT {})", a.sql()?),
        })
    }
    fn shape(&self) -> String {
        match self {
            Pr::Cmp { col, op, lit, flipped } => format!("{}{}{}{}", col, opname(*op), lit.kind(), if *flipped { "~" } else { "" }),
            Pr::Between { col, lo, neg, .. } => format!("{}{}between:{}", col, if *neg { "!" } else { "" }, lo.kind()),
            Pr::And(a, b) => format!("({}&{})", a.shape(), b.shape()),
            Pr::Or(a, b) => format!("({}|{})", a.shape(), b.shape()),
            Pr::Not(a) => format!("!{}", a.shape()),
        }
    }
}

const B53: i64 = 1 << 53;

fn gen_table(rng: &mut Rng, rows: usize) -> Table {
    let cols = vec![
        Col { name: "id".into(), ty: Ty::I64, nullable: false },
        Col { name: "i".into(), ty: Ty::I64, nullable: true },
        Col { name: "j".into(), ty: Ty::I32, nullable: true },
        Col { name: "f".into(), ty: Ty::F64, nullable: true },
        Col { name: "s".into(), ty: Ty::Str, nullable: true },
        Col { name: "d".into(), ty: Ty::Date, nullable: true },
    ];
    // Row groups are runs of consecutive rows; each run draws its values from a
    // "regime" so that statistics are tight and boundary cases are hit.
    let mut out = Vec::with_capacity(rows);
    let mut r = 0usize;
    while r < rows {
        let run = 1 + rng.usize(12);
        let regime = rng.below(8);
        let null_pct = *rng.pick(&[0u64, 0, 20, 100]);
        let base_i: i64 = match regime {
            0 => rng.range(-5, 5),
            1 => B53 - 2,
            2 => -(B53) - 1,
            3 => 1 << 62,
            4 => i64::MAX - 3,
            5 => i64::MIN,
            _ => rng.range(-1000, 1000),
        };
        let single = rng.chance(1, 4);
        for _ in 0..run {
            if r >= rows {
                break;
            }
            let null = |rng: &mut Rng| rng.below(100) < null_pct;
            let iv = if single { base_i } else { base_i.saturating_add(rng.range(0, 3)) };
            let jv: i64 = match regime {
                4 => i32::MAX as i64 - rng.range(0, 2),
                5 => i32::MIN as i64 + rng.range(0, 2),
                _ => rng.range(-6, 6),
            };
            let fv = match rng.below(12) {
                0 => f64::NAN,
                1 => -0.0,
                2 => 0.0,
                3 => f64::INFINITY,
                4 => f64::NEG_INFINITY,
                5 => (B53 + 2) as f64,
                6 => f64::MIN_POSITIVE / 2.0,
                _ => rng.range(-40, 40) as f64 / 8.0,
            };
            let fv = if regime == 7 && !fv.is_nan() { fv } else if regime == 7 { 1.5 } else { fv };
            let sv = match rng.below(7) {
                0 => "".to_string(),
                1 => "é".repeat(1 + rng.usize(40)),
                2 => format!("{}{}", "x".repeat(70), rng.below(3)),
                3 => "\u{10FFFF}".to_string(),
                _ => rng.pick(&["a", "ab", "b", "B", "zz"]).to_string(),
            };
            out.push(vec![
                Cell::Int(r as i64),
                if null(rng) { Cell::Null } else { Cell::Int(iv) },
                if null(rng) { Cell::Null } else { Cell::Int(jv) },
                if null(rng) { Cell::Null } else { Cell::F(fv) },
                if null(rng) { Cell::Null } else { Cell::S(sv) },
                if null(rng) { Cell::Null } else { Cell::Date(*rng.pick(&crate::qgen::dates()) + rng.range(0, 2) as i32) },
            ]);
            r += 1;
        }
    }
    Table { name: "t".into(), cols, rows: out }
}

/// Literal candidates for a column drawn around the values of one row group.
fn lits_for(rng: &mut Rng, col: &'static str, batch: &RecordBatch, t: &Table) -> Vec<Lit> {
    let ci = t.col_index(col).unwrap();
    let rows = crate::canon::batches_to_rows(&[batch.clone()]);
    let mut vals: Vec<&Cell> = rows.iter().map(|r| &r[ci]).filter(|c| !c.is_null()).collect();
    let mut out = Vec::new();
    let anyrow = &t.rows[rng.usize(t.rows.len())][ci];
    vals.push(anyrow);
    for v in vals.iter().take(6) {
        match v {
            Cell::Int(x) => {
                for d in [-1i64, 0, 1] {
                    let y = x.saturating_add(d);
                    out.push(Lit::I64(y));
                    if y >= i32::MIN as i64 && y <= i32::MAX as i64 {
                        out.push(Lit::I32(y as i32));
                        out.push(Lit::Date(y as i32));
                    }
                    out.push(Lit::F64(y as f64));
                    out.push(Lit::Ts(y));
                }
            }
            Cell::F(x) => {
                out.push(Lit::F64(*x));
                if x.is_finite() {
                    out.push(Lit::F64(x + 0.125));
                    out.push(Lit::F64(x - 0.125));
                    if x.abs() < 1e15 {
                        out.push(Lit::I64(*x as i64));
                    }
                }
            }
            Cell::S(s) => {
                out.push(Lit::Str(s.clone()));
                out.push(Lit::Str(format!("{}a", s)));
                let mut c = s.chars();
                c.next_back();
                out.push(Lit::Str(c.as_str().to_string()));
            }
            Cell::Date(d) => {
                for k in [-1, 0, 1] {
                    out.push(Lit::Date(d + k));
                    out.push(Lit::I32(d + k));
                    out.push(Lit::I64((d + k) as i64));
                }
            }
            _ => {}
        }
    }
    out.push(Lit::F64(f64::NAN));
    out.push(Lit::F64(-0.0));
    out.push(Lit::I64(0));
    out
}

fn gen_pred(rng: &mut Rng, batch: &RecordBatch, t: &Table, depth: u32) -> Pr {
    let ops = [BinaryOp::Eq, BinaryOp::NotEq, BinaryOp::Lt, BinaryOp::LtEq, BinaryOp::Gt, BinaryOp::GtEq];
    if depth == 0 || rng.chance(1, 3) {
        let col: &'static str = *rng.pick(&["i", "j", "f", "s", "d"]);
        let ls = lits_for(rng, col, batch, t);
        let lit = ls[rng.usize(ls.len())].clone();
        if rng.chance(1, 5) {
            let hi = ls[rng.usize(ls.len())].clone();
            return Pr::Between { col, lo: lit, hi, neg: rng.chance(1, 4) };
        }
        return Pr::Cmp { col, op: *rng.pick(&ops), lit, flipped: rng.chance(1, 3) };
    }
    match rng.below(3) {
        0 => Pr::And(Box::new(gen_pred(rng, batch, t, depth - 1)), Box::new(gen_pred(rng, batch, t, depth - 1))),
        1 => Pr::Or(Box::new(gen_pred(rng, batch, t, depth - 1)), Box::new(gen_pred(rng, batch, t, depth - 1))),
        _ => Pr::Not(Box::new(gen_pred(rng, batch, t, depth - 1))),
    }
}

pub fn run(tier: Tier, seed: u64) -> i32 {
    let mut rep = Report::new(
        "C05",
        tier,
        seed,
        "exploration",
        "real Parquet files with statistics; row groups of int64/int32/double/utf8/date columns with NULL densities 0/20/100%, NaN, +-0.0, +-inf, subnormals, i64 around 2^53, 2^62 and the type extremes, long / non-ASCII strings; predicates: comparisons with the literal on either side and of every literal type (Int64/Int32/Float64/Date32/Utf8/Timestamp) against every column type, [NOT] BETWEEN, NOT/AND/OR to depth 3, literals drawn from the group's own values +-1 and from other groups. Oracle: the engine's interpreter on the decoded row group. Plus end-to-end Parquet-vs-memory agreement of COUNT/SUM under the same predicates. distinct = distinct (predicate shape, verdict pair) with at least one pruning decision taken",
    );
    let scratch = Scratch::new("c05");
    let mut rng = Rng::new(seed ^ 0xC05);
    let files = tier.pick(40, 800);
    let preds_per_rg = tier.pick(40, 60);
    let (mut pruned, mut definite, mut pairs, mut uneval) = (0u64, 0u64, 0u64, 0u64);
    let mut e2e = 0u64;
    let mut e2e_pruned_evidence = 0u64;
    for fi in 0..files {
        let rows = 20 + rng.usize(120);
        let t = gen_table(&mut rng, rows);
        let rg_rows = *rng.pick(&[1usize, 3, 7, 12, 40]);
        let p = scratch.path().join(format!("f{}.parquet", fi));
        write_parquet_file(&p, t.schema(), &[t.one_batch()], &PqOpts { files: 1, rg_rows, dictionary: rng.bool(), snappy: false, stats: true });
        let b = ParquetRecordBatchReaderBuilder::try_new(std::fs::File::open(&p).unwrap()).unwrap();
        let meta = b.metadata().clone();
        let schema = b.schema().clone();
        let nrg = meta.num_row_groups();
        let mut e2e_preds: Vec<Pr> = Vec::new();
        for rg in 0..nrg {
            if nrg > 12 && !rng.chance(12, nrg as u64) {
                continue;
            }
            let rd = ParquetRecordBatchReaderBuilder::try_new(std::fs::File::open(&p).unwrap()).unwrap().with_row_groups(vec![rg]).with_batch_size(1 << 20).build().unwrap();
            let batches: Vec<RecordBatch> = rd.map(|x| x.unwrap()).collect();
            let batch = arrow::compute::concat_batches(&schema, &batches).unwrap();
            let rgm = meta.row_group(rg);
            for _ in 0..preds_per_rg {
                let pr = gen_pred(&mut rng, &batch, &t, 3);
                let e = pr.expr();
                let might = row_group_might_match(&e, rgm, &schema);
                let def = row_group_definitely_matches(&e, rgm, &schema);
                rep.eval();
                pairs += 1;
                if !might && !def {
                    pruned += 1;
                }
                if def {
                    definite += 1;
                }
                if might && !def {
                    // no decision taken; nothing to refute
                    continue;
                }
                let mask = match std::panic::catch_unwind(std::panic::AssertUnwindSafe(|| evaluate_expr(&batch, &e))) {
                    Ok(Ok(a)) => a,
                    _ => {
                        uneval += 1;
                        rep.inconclusive("interpreter-rejects-predicate");
                        continue;
                    }
                };
                let Some(m) = mask.as_any().downcast_ref::<BooleanArray>() else {
                    uneval += 1;
                    continue;
                };
                let kept = (0..m.len()).filter(|&i| m.is_valid(i) && m.value(i)).count();
                rep.nontrivial(&(pr.shape(), might, def));
                let replay = || {
                    json!({
                        "predicate": format!("{}", e),
                        "row_group_rows": crate::canon::rows_json(&crate::canon::batches_to_rows(&[batch.clone()]), 40),
                        "columns": ["id","i","j","f","s","d"],
                        "might_match": might, "definitely_matches": def, "rows_kept_by_interpreter": kept, "rows": m.len(),
                    })
                };
                // Known-finding explainer: the interpreter orders floats by
                // IEEE totalOrder (NaN greatest, NaN = NaN) while Parquet
                // statistics exclude NaN. A failure is attributed to that
                // only if it disappears when NaN rows of `f` are set aside
                // and the predicate holds no NaN literal.
                let nan_lit = has_nan_literal(&pr);
                let fcol = batch.column(schema.index_of("f").unwrap()).as_any().downcast_ref::<arrow::array::Float64Array>().unwrap().clone();
                let is_nan_row = |i: usize| fcol.is_valid(i) && fcol.value(i).is_nan();
                let kept_non_nan = (0..m.len()).filter(|&i| m.is_valid(i) && m.value(i) && !is_nan_row(i)).count();
                let non_nan_rows = (0..m.len()).filter(|&i| !is_nan_row(i)).count();
                let refs_f = pr.shape().contains('f');
                if !might && kept > 0 {
                    let sig = if refs_f && kept_non_nan == 0 {
                        "nan-rows-outside-statistics".to_string()
                    } else if nan_lit {
                        "nan-literal".to_string()
                    } else {
                        format!("pruned-matching-group:{}", root_kind(&pr))
                    };
                    rep.fail(&sig, &format!("might_match=false but {} of {} rows satisfy {}", kept, m.len(), e), replay());
                }
                if def && kept < m.len() {
                    let sig = if refs_f && kept_non_nan == non_nan_rows {
                        "nan-rows-outside-statistics".to_string()
                    } else if nan_lit {
                        "nan-literal".to_string()
                    } else {
                        format!("definite-but-not-all:{}", root_kind(&pr))
                    };
                    rep.fail(&sig, &format!("definitely_matches=true but only {} of {} rows satisfy {}", kept, m.len(), e), replay());
                }
                if !might && def && m.len() > 0 {
                    rep.fail("contradiction", &format!("might_match=false and definitely_matches=true for {}", e), replay());
                }
                if pairs % 997 == 0 {
                    rep.sample(json!({"predicate": format!("{}", e), "might_match": might, "definitely_matches": def, "rows_kept": kept, "rows": m.len()}));
                }
                if (!might || def) && pr.sql().is_some() && e2e_preds.len() < 6 {
                    e2e_preds.push(pr.clone());
                }
            }
        }
        // end-to-end: Parquet vs memory under predicates that took a decision
        if !e2e_preds.is_empty() {
            let mut pq = ExecutionContext::new();
            pq.register_parquet("t", &p).unwrap();
            let pq = Arc::new(pq);
            let mem = crate::eng::mem_ctx(&[t.clone()]);
            for pr in &e2e_preds {
                let Some(w) = pr.sql() else { continue };
                for sql in [format!("SELECT COUNT(*) AS c0, SUM(id) AS c1 FROM t WHERE {}", w), format!("SELECT id AS c0 FROM t WHERE {}", w)] {
                    let a = run_sql(&pq, &sql);
                    let b = run_sql(&mem, &sql);
                    rep.eval();
                    e2e += 1;
                    match (&a, &b) {
                        (Outcome::Ok(x), Outcome::Ok(y)) => {
                            e2e_pruned_evidence += 1;
                            if let Err(why) = crate::canon::multiset_eq(&x.rows, &y.rows) {
                                // explanation predicate: does the disagreement need NaN rows?
                                let mut t2 = t.clone();
                                let fi = t2.col_index("f").unwrap();
                                for r in t2.rows.iter_mut() {
                                    if matches!(r[fi], Cell::F(v) if v.is_nan()) {
                                        r[fi] = Cell::Null;
                                    }
                                }
                                let p2 = scratch.path().join(format!("f{}-nonan.parquet", fi_case(fi, e2e)));
                                write_parquet_file(&p2, t2.schema(), &[t2.one_batch()], &PqOpts { files: 1, rg_rows, dictionary: false, snappy: false, stats: true });
                                let mut pq2 = ExecutionContext::new();
                                pq2.register_parquet("t", &p2).unwrap();
                                let agree_without_nan = match (run_sql(&Arc::new(pq2), &sql), run_sql(&crate::eng::mem_ctx(&[t2.clone()]), &sql)) {
                                    (Outcome::Ok(x2), Outcome::Ok(y2)) => crate::canon::multiset_eq(&x2.rows, &y2.rows).is_ok(),
                                    _ => false,
                                };
                                let _ = std::fs::remove_file(&p2);
                                let sig = if agree_without_nan && pr.shape().contains('f') && !has_nan_literal(pr) {
                                    "nan-rows-outside-statistics".to_string()
                                } else {
                                    format!("e2e-parquet-vs-memory:{}", root_kind(pr))
                                };
                                rep.fail(
                                    &sig,
                                    &format!("{} :: parquet {} vs memory: {}", sql, a.short(), why),
                                    json!({"sql": sql, "parquet": a.json(30), "memory": b.json(30), "table": t.json(200), "rg_rows": rg_rows}),
                                );
                            }
                        }
                        (Outcome::Ok(_), _) | (_, Outcome::Ok(_)) => {
                            // one layout fails where the other succeeds: C04's business; counted here
                            rep.inconclusive("e2e-one-side-error");
                        }
                        _ => rep.inconclusive("e2e-both-error"),
                    }
                }
            }
        }
        let _ = std::fs::remove_file(&p);
    }
    rep.set("row_group_predicate_pairs", json!(pairs));
    rep.set("decisions", json!({"skipped_groups": pruned, "filter_dropped_groups": definite, "interpreter_could_not_evaluate": uneval}));
    rep.set("end_to_end_queries", json!(e2e));
    rep.set("end_to_end_compared", json!(e2e_pruned_evidence));
    rep.floor(pruned > 50 && definite > 50, "too few pruning decisions were taken to say anything");
    rep.assumptions.push("the engine's interpreter (evaluate_expr) defines which rows a predicate keeps, so NaN ordering cannot be a dialect artefact".into());
    rep.finish()
}

fn fi_case(a: usize, b: u64) -> String {
    format!("{}-{}", a, b)
}

fn has_nan_literal(p: &Pr) -> bool {
    match p {
        Pr::Cmp { lit: Lit::F64(v), .. } => v.is_nan(),
        Pr::Between { lo, hi, .. } => matches!(lo, Lit::F64(v) if v.is_nan()) || matches!(hi, Lit::F64(v) if v.is_nan()),
        Pr::And(a, b) | Pr::Or(a, b) => has_nan_literal(a) || has_nan_literal(b),
        Pr::Not(a) => has_nan_literal(a),
        _ => false,
    }
}

fn root_kind(p: &Pr) -> String {
    // name the leaf kinds involved (column type x literal type), bounded
    fn leaves(p: &Pr, out: &mut Vec<String>) {
        match p {
            Pr::Cmp { col, lit, .. } => out.push(format!("{}x{}", col, lit.kind())),
            Pr::Between { col, lo, neg, .. } => out.push(format!("{}{}between-{}", col, if *neg { "-not" } else { "" }, lo.kind())),
            Pr::And(a, b) | Pr::Or(a, b) => {
                leaves(a, out);
                leaves(b, out);
            }
            Pr::Not(a) => {
                out.push("not".into());
                leaves(a, out)
            }
        }
    }
    let mut v = Vec::new();
    leaves(p, &mut v);
    v.sort();
    v.dedup();
    v.truncate(3);
    v.join(",")
}
