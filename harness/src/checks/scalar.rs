//! C36 Scalar functions compute their documented values.
//!
//! The harness drives `SELECT f(args)` over argument tables (the vectorised
//! column path, with NULLs) and with literal arguments (the constant path),
//! records every (function, arguments, result-or-error) observation in a JSONL
//! log, and the offline checker py/scalar_model.py (python3 stdlib: math,
//! hashlib, base64, zlib, hmac, struct, unicodedata, datetime, urllib, re,
//! json) judges each observation against the documented Trino value.

use crate::data::{Cell, Col, Table, Ty};
use crate::eng::{mem_ctx, run_sql, Outcome};
use crate::report::{verif_root, Report, Tier};
use crate::rng::Rng;
use crate::workers::cell_to_wire;
use serde_json::{json, Value};
use std::collections::BTreeMap;
use std::io::Write;

#[derive(Clone, Copy, PartialEq, Debug)]
enum A {
    Int,
    SmallInt,
    Radix,
    Bits,
    Shift,
    F,
    Unit,
    Str,
    Short,
    Pad,
    Digits,
    BaseStr,
    Hex,
    Date,
    IsoDate,
    Pattern,
    Repl,
    Url,
    Json,
    JsonPath,
    Bool,
    Name,
}

struct Spec {
    model: &'static str,
    /// SQL with {0} {1} ... placeholders
    sql: &'static str,
    args: &'static [A],
}

const fn s(model: &'static str, sql: &'static str, args: &'static [A]) -> Spec {
    Spec { model, sql, args }
}

fn specs() -> Vec<Spec> {
    use A::*;
    vec![
        s("ABS", "ABS({0})", &[Int]), s("ABS", "ABS({0})", &[F]), s("CEIL", "CEIL({0})", &[F]), s("CEILING", "CEILING({0})", &[F]), s("FLOOR", "FLOOR({0})", &[F]),
        s("CEIL", "CEIL({0})", &[Int]), s("FLOOR", "FLOOR({0})", &[Int]),
        s("ROUND", "ROUND({0})", &[F]), s("ROUND", "ROUND({0}, {1})", &[F, SmallInt]), s("ROUND", "ROUND({0})", &[Int]), s("ROUND", "ROUND({0}, {1})", &[Int, SmallInt]),
        s("TRUNCATE", "TRUNCATE({0})", &[F]), s("POWER", "POWER({0}, {1})", &[F, F]), s("POW", "POW({0}, {1})", &[F, SmallInt]), s("SQRT", "SQRT({0})", &[F]),
        s("MOD", "MOD({0}, {1})", &[Int, Int]), s("MOD", "MOD({0}, {1})", &[F, F]), s("SIGN", "SIGN({0})", &[Int]), s("SIGN", "SIGN({0})", &[F]),
        s("LN", "LN({0})", &[F]), s("LOG2", "LOG2({0})", &[F]), s("LOG10", "LOG10({0})", &[F]), s("EXP", "EXP({0})", &[F]), s("CBRT", "CBRT({0})", &[F]),
        s("SIN", "SIN({0})", &[F]), s("COS", "COS({0})", &[F]), s("TAN", "TAN({0})", &[F]), s("ASIN", "ASIN({0})", &[F]), s("ACOS", "ACOS({0})", &[F]), s("ATAN", "ATAN({0})", &[F]),
        s("ATAN2", "ATAN2({0}, {1})", &[F, F]), s("SINH", "SINH({0})", &[F]), s("COSH", "COSH({0})", &[F]), s("TANH", "TANH({0})", &[F]), s("DEGREES", "DEGREES({0})", &[F]), s("RADIANS", "RADIANS({0})", &[F]),
        s("IS_NAN", "IS_NAN({0})", &[F]), s("IS_FINITE", "IS_FINITE({0})", &[F]), s("IS_INFINITE", "IS_INFINITE({0})", &[F]),
        s("FROM_BASE", "FROM_BASE({0}, {1})", &[BaseStr, Radix]), s("TO_BASE", "TO_BASE({0}, {1})", &[Int, Radix]), s("WIDTH_BUCKET", "WIDTH_BUCKET({0}, {1}, {2}, {3})", &[F, F, F, SmallInt]),
        s("UPPER", "UPPER({0})", &[Str]), s("LOWER", "LOWER({0})", &[Str]), s("LENGTH", "LENGTH({0})", &[Str]), s("TRIM", "TRIM({0})", &[Str]), s("LTRIM", "LTRIM({0})", &[Str]), s("RTRIM", "RTRIM({0})", &[Str]),
        s("SUBSTR", "SUBSTR({0}, {1})", &[Str, SmallInt]), s("SUBSTR", "SUBSTR({0}, {1}, {2})", &[Str, SmallInt, SmallInt]), s("SUBSTRING", "SUBSTRING({0}, {1}, {2})", &[Str, SmallInt, SmallInt]),
        s("REPLACE", "REPLACE({0}, {1}, {2})", &[Str, Short, Short]), s("REPLACE", "REPLACE({0}, {1})", &[Str, Short]), s("STRPOS", "STRPOS({0}, {1})", &[Str, Short]), s("POSITION", "POSITION({0} IN {1})", &[Short, Str]),
        s("REVERSE", "REVERSE({0})", &[Str]), s("LPAD", "LPAD({0}, {1}, {2})", &[Str, SmallInt, Pad]), s("RPAD", "RPAD({0}, {1}, {2})", &[Str, SmallInt, Pad]), s("SPLIT_PART", "SPLIT_PART({0}, {1}, {2})", &[Str, Short, SmallInt]),
        s("STARTS_WITH", "STARTS_WITH({0}, {1})", &[Str, Short]), s("ENDS_WITH", "ENDS_WITH({0}, {1})", &[Str, Short]), s("CHR", "CHR({0})", &[Int]), s("CODEPOINT", "CODEPOINT({0})", &[Short]),
        s("CONCAT", "CONCAT({0}, {1})", &[Str, Short]), s("CONCAT", "CONCAT({0}, {1}, {2})", &[Short, Str, Short]), s("CONCAT_WS", "CONCAT_WS({0}, {1}, {2})", &[Short, Str, Short]),
        s("HAMMING_DISTANCE", "HAMMING_DISTANCE({0}, {1})", &[Short, Short]), s("LEVENSHTEIN_DISTANCE", "LEVENSHTEIN_DISTANCE({0}, {1})", &[Str, Short]), s("TRANSLATE", "TRANSLATE({0}, {1}, {2})", &[Str, Short, Short]),
        s("LUHN_CHECK", "LUHN_CHECK({0})", &[Digits]), s("SOUNDEX", "SOUNDEX({0})", &[Name]), s("NORMALIZE", "NORMALIZE({0})", &[Str]),
        s("YEAR", "YEAR({0})", &[Date]), s("MONTH", "MONTH({0})", &[Date]), s("DAY", "DAY({0})", &[Date]), s("QUARTER", "QUARTER({0})", &[Date]), s("WEEK", "WEEK({0})", &[Date]),
        s("YEAR_OF_WEEK", "YEAR_OF_WEEK({0})", &[Date]), s("DAY_OF_WEEK", "DAY_OF_WEEK({0})", &[Date]), s("DAY_OF_YEAR", "DAY_OF_YEAR({0})", &[Date]),
        s("DATE_ADD", "DATE_ADD({0}, {1}, {2})", &[Unit, SmallInt, Date]), s("DATE_DIFF", "DATE_DIFF({0}, {1}, {2})", &[Unit, Date, Date]), s("DATE_TRUNC", "DATE_TRUNC({0}, {1})", &[Unit, Date]),
        s("LAST_DAY_OF_MONTH", "LAST_DAY_OF_MONTH({0})", &[Date]), s("FROM_ISO8601_DATE", "FROM_ISO8601_DATE({0})", &[IsoDate]), s("TO_ISO8601", "TO_ISO8601({0})", &[Date]),
        s("COALESCE", "COALESCE({0}, {1})", &[Int, Int]), s("COALESCE", "COALESCE({0}, {1}, {2})", &[Str, Str, Short]), s("NULLIF", "NULLIF({0}, {1})", &[SmallInt, SmallInt]), s("NULLIF", "NULLIF({0}, {1})", &[Short, Short]),
        s("IF", "IF({0}, {1}, {2})", &[Bool, Int, Int]), s("IF", "IF({0}, {1})", &[Bool, Str]), s("GREATEST", "GREATEST({0}, {1}, {2})", &[Int, Int, SmallInt]), s("LEAST", "LEAST({0}, {1}, {2})", &[Int, Int, SmallInt]),
        s("GREATEST", "GREATEST({0}, {1})", &[F, F]), s("LEAST", "LEAST({0}, {1})", &[Short, Short]),
        s("REGEXP_LIKE", "REGEXP_LIKE({0}, {1})", &[Str, Pattern]), s("REGEXP_EXTRACT", "REGEXP_EXTRACT({0}, {1})", &[Str, Pattern]), s("REGEXP_REPLACE", "REGEXP_REPLACE({0}, {1}, {2})", &[Str, Pattern, Repl]),
        s("REGEXP_REPLACE", "REGEXP_REPLACE({0}, {1})", &[Str, Pattern]), s("REGEXP_COUNT", "REGEXP_COUNT({0}, {1})", &[Str, Pattern]), s("REGEXP_POSITION", "REGEXP_POSITION({0}, {1})", &[Str, Pattern]),
        s("TO_HEX(TO_UTF8", "TO_HEX(TO_UTF8({0}))", &[Str]), s("FROM_UTF8(FROM_HEX", "FROM_UTF8(FROM_HEX({0}))", &[Hex]),
        s("TO_HEX(MD5(TO_UTF8", "TO_HEX(MD5(TO_UTF8({0})))", &[Str]), s("TO_HEX(SHA1(TO_UTF8", "TO_HEX(SHA1(TO_UTF8({0})))", &[Str]), s("TO_HEX(SHA256(TO_UTF8", "TO_HEX(SHA256(TO_UTF8({0})))", &[Str]),
        s("TO_HEX(SHA512(TO_UTF8", "TO_HEX(SHA512(TO_UTF8({0})))", &[Str]), s("CRC32(TO_UTF8", "CRC32(TO_UTF8({0}))", &[Str]), s("TO_BASE64(TO_UTF8", "TO_BASE64(TO_UTF8({0}))", &[Str]),
        s("TO_BASE64URL(TO_UTF8", "TO_BASE64URL(TO_UTF8({0}))", &[Str]), s("TO_BASE32(TO_UTF8", "TO_BASE32(TO_UTF8({0}))", &[Str]),
        s("FROM_UTF8(FROM_BASE64(TO_BASE64(TO_UTF8", "FROM_UTF8(FROM_BASE64(TO_BASE64(TO_UTF8({0}))))", &[Str]), s("FROM_UTF8(FROM_BASE32(TO_BASE32(TO_UTF8", "FROM_UTF8(FROM_BASE32(TO_BASE32(TO_UTF8({0}))))", &[Str]),
        s("FROM_UTF8(FROM_BASE64URL(TO_BASE64URL(TO_UTF8", "FROM_UTF8(FROM_BASE64URL(TO_BASE64URL(TO_UTF8({0}))))", &[Str]),
        s("TO_HEX(HMAC_SHA256(TO_UTF8", "TO_HEX(HMAC_SHA256(TO_UTF8({0}), TO_UTF8({1})))", &[Str, Short]), s("TO_HEX(HMAC_MD5(TO_UTF8", "TO_HEX(HMAC_MD5(TO_UTF8({0}), TO_UTF8({1})))", &[Str, Short]),
        s("TO_HEX(HMAC_SHA1(TO_UTF8", "TO_HEX(HMAC_SHA1(TO_UTF8({0}), TO_UTF8({1})))", &[Str, Short]), s("TO_HEX(HMAC_SHA512(TO_UTF8", "TO_HEX(HMAC_SHA512(TO_UTF8({0}), TO_UTF8({1})))", &[Str, Short]),
        s("TO_HEX(TO_BIG_ENDIAN_64", "TO_HEX(TO_BIG_ENDIAN_64({0}))", &[Int]), s("FROM_BIG_ENDIAN_64(TO_BIG_ENDIAN_64", "FROM_BIG_ENDIAN_64(TO_BIG_ENDIAN_64({0}))", &[Int]),
        s("TO_HEX(TO_IEEE754_64", "TO_HEX(TO_IEEE754_64({0}))", &[F]), s("FROM_IEEE754_64(TO_IEEE754_64", "FROM_IEEE754_64(TO_IEEE754_64({0}))", &[F]),
        s("BITWISE_AND", "BITWISE_AND({0}, {1})", &[Int, Int]), s("BITWISE_OR", "BITWISE_OR({0}, {1})", &[Int, Int]), s("BITWISE_XOR", "BITWISE_XOR({0}, {1})", &[Int, Int]), s("BITWISE_NOT", "BITWISE_NOT({0})", &[Int]),
        s("BIT_COUNT", "BIT_COUNT({0}, {1})", &[Int, Bits]), s("BITWISE_LEFT_SHIFT", "BITWISE_LEFT_SHIFT({0}, {1})", &[Int, Shift]), s("BITWISE_RIGHT_SHIFT", "BITWISE_RIGHT_SHIFT({0}, {1})", &[Int, Shift]),
        s("BITWISE_RIGHT_SHIFT_ARITHMETIC", "BITWISE_RIGHT_SHIFT_ARITHMETIC({0}, {1})", &[Int, Shift]),
        s("URL_EXTRACT_HOST", "URL_EXTRACT_HOST({0})", &[Url]), s("URL_EXTRACT_PATH", "URL_EXTRACT_PATH({0})", &[Url]), s("URL_EXTRACT_PORT", "URL_EXTRACT_PORT({0})", &[Url]), s("URL_EXTRACT_PROTOCOL", "URL_EXTRACT_PROTOCOL({0})", &[Url]),
        s("URL_EXTRACT_QUERY", "URL_EXTRACT_QUERY({0})", &[Url]), s("URL_EXTRACT_FRAGMENT", "URL_EXTRACT_FRAGMENT({0})", &[Url]), s("URL_EXTRACT_PARAMETER", "URL_EXTRACT_PARAMETER({0}, {1})", &[Url, Short]),
        s("URL_ENCODE", "URL_ENCODE({0})", &[Str]), s("URL_DECODE", "URL_DECODE(URL_ENCODE({0}))", &[Str]),
        s("JSON_EXTRACT_SCALAR", "JSON_EXTRACT_SCALAR({0}, {1})", &[Json, JsonPath]), s("JSON_ARRAY_LENGTH", "JSON_ARRAY_LENGTH({0})", &[Json]), s("JSON_SIZE", "JSON_SIZE({0}, {1})", &[Json, JsonPath]),
        s("JSON_ARRAY_CONTAINS", "JSON_ARRAY_CONTAINS({0}, {1})", &[Json, SmallInt]),
    ]
}

fn pool(rng: &mut Rng, a: A) -> Cell {
    use A::*;
    let str_pool: &[&str] = &["", "a", "abc", "Hello World", "hello", "  pad  ", "a,b,,c", "%_x", "ü", "Straße", "日本語", "naïve café", "😀x", "ab\u{301}c", "aaa", "abcabcabc", "The quick brown fox", "x\ty", "MiXeD 123", "e\u{301}", "12345", "a.b.c", "--", "tab\there", "z"];
    let short_pool: &[&str] = &["", "a", "b", "c", "ab", "abc", ",", "x", "ü", "日", "aa", ".", " ", "😀", "bc", "o", "l", "Z", "xyz"];
    match a {
        Int => Cell::Int(*rng.pick(&[0i64, 1, -1, 2, 3, 7, -7, 10, 42, 65, 97, 127, 128, 255, 256, 1000, -1000, 65535, 1114111, 1114112, 55296, 2147483647, -2147483648, 2147483648, 4294967296, 9007199254740993, i64::MAX, i64::MIN, i64::MAX - 1, i64::MIN + 1, 123456789, -987654321])),
        SmallInt => Cell::Int(*rng.pick(&[0i64, 1, 2, 3, -1, -2, 4, 5, 7, 10, -3, 20, 100, -5, 6, 64])),
        Radix => Cell::Int(*rng.pick(&[2i64, 8, 10, 16, 36, 3, 1, 37, 0])),
        Bits => Cell::Int(*rng.pick(&[64i64, 32, 16, 8, 2, 1, 65, 9])),
        Shift => Cell::Int(*rng.pick(&[0i64, 1, 2, 7, 31, 32, 63, 64, 65, 100])),
        F => Cell::F(*rng.pick(&[0.0f64, -0.0, 0.5, -0.5, 1.0, -1.0, 1.5, 2.5, -2.5, 3.5, 0.125, 2.675, 1e-10, 1e10, -1e10, 123.456, -123.456, 1e15, 4503599627370497.5, 9007199254740993.0, 1e300, -1e300, 1e-300, std::f64::consts::PI, std::f64::consts::E, 0.1, 0.7, 100.0, 709.0, 710.0, -745.0, f64::INFINITY, f64::NEG_INFINITY, f64::NAN, 2.0, 10.0, 8.0, 27.0, -27.0, 0.9999999999999999])),
        Unit => Cell::S(rng.pick(&["day", "week", "month", "quarter", "year", "DAY", "Month", "hour"]).to_string()),
        Str => Cell::S(rng.pick(str_pool).to_string()),
        Short => Cell::S(rng.pick(short_pool).to_string()),
        Pad => Cell::S(rng.pick(&["x", "ab", " ", "ü", "日本", "", "0"]).to_string()),
        Digits => Cell::S(rng.pick(&["79927398713", "79927398710", "0", "00", "4111111111111111", "1234567812345678", "", "12a4", "１２３", "18", "59"]).to_string()),
        BaseStr => Cell::S(rng.pick(&["0", "1", "10", "ff", "FF", "zz", "-10", "7fffffffffffffff", "8000000000000000", "-8000000000000000", "1010", "12", "g", "", " 1", "+5", "9223372036854775807", "9223372036854775808"]).to_string()),
        Hex => Cell::S(rng.pick(&["", "61", "6162", "C3BC", "e697a5", "F09F9880", "6", "zz", "0061"]).to_string()),
        Date => Cell::Date(*rng.pick(&[0i32, -1, 1, 59, 60, 365, 366, 10957, 11016, 11017, 11382, 18262, 18321, 18322, 18628, 19358, 19722, 19723, 20088, -25567, -141427, 47482, 17896, 17897, 17531, 16800, 16801, 18992, 18993, 19083, 19144])),
        IsoDate => Cell::S(rng.pick(&["2020-02-29", "2021-02-29", "1970-01-01", "2000-12-31", "0001-01-01", "9999-12-31", "2020-13-01", "2020-00-10", "2020-1-1", "20200101", "2020-W01-1", "2020-W53-7", "", "abc"]).to_string()),
        Pattern => Cell::S(rng.pick(&["a", "b+", "[a-c]+", "^a", "c$", "(a)(b)?", "\\d+", "[A-Z][a-z]+", "o", "a|b", "x*", ".", "l+", "(\\w+) (\\w+)", "^$", "[^a-z]"]).to_string()),
        Repl => Cell::S(rng.pick(&["", "X", "$1", "[$0]", "-", "$1$1"]).to_string()),
        Url => Cell::S(rng.pick(&["http://example.com", "https://example.com:8443/a/b?x=1&y=2#frag", "http://example.com/", "ftp://files.example.org/pub/file.txt", "https://example.com/path?k=v%20w&empty=&k2=a+b", "http://example.com:80", "https://a.b.c.example.com/x/y/z/", "http://example.com/?q=1", "http://example.com/#top", "not a url", "", "http://example.com/a%20b", "https://example.com/p?x=1&x=2"]).to_string()),
        Json => Cell::S(rng.pick(&["[1,2,3]", "[]", "{}", "{\"a\":1,\"b\":{\"c\":\"x\",\"d\":[10,20,{\"e\":true}]}}", "{\"a\":null}", "[1,\"a\",null,true,[2]]", "\"str\"", "1", "null", "not json", "", "{\"a\":{\"b\":{\"c\":{\"d\":5}}}}", "[[1,2],[3]]", "{\"k\":\"v\",\"n\":-7,\"t\":true,\"f\":false}", "[5,5,5]", "{\"a\":[]}"]).to_string()),
        JsonPath => Cell::S(rng.pick(&["$", "$.a", "$.b.c", "$.b.d[1]", "$.b.d[2].e", "$[0]", "$[4][0]", "$.a.b.c.d", "$.k", "$.n", "$.t", "$.zzz", "$[9]", "$.b", "a", ""]).to_string()),
        Bool => Cell::Bool(rng.bool()),
        Name => Cell::S(rng.pick(&["Robert", "Rupert", "Rubin", "Ashcraft", "Ashcroft", "Tymczak", "Pfister", "Honeyman", "a", "A", "Lee", "Washington", "Jackson", "Wu"]).to_string()),
    }
}

fn ty_of(a: A) -> Ty {
    use A::*;
    match a {
        Int | SmallInt | Radix | Bits | Shift => Ty::I64,
        F => Ty::F64,
        Date => Ty::Date,
        Bool => Ty::Bool,
        _ => Ty::Str,
    }
}

fn lit(c: &Cell) -> String {
    match c {
        Cell::F(f) if f.is_nan() => "NAN()".into(),
        Cell::F(f) if f.is_infinite() => if *f > 0.0 { "INFINITY()".into() } else { "-INFINITY()".into() },
        Cell::F(f) => {
            let s = format!("{:e}", f);
            // force a DOUBLE literal
            if f.fract() == 0.0 && f.abs() < 1e15 { format!("{:.1}", f) } else { s.replace("e", "E") }
        }
        Cell::Int(i) if *i == i64::MIN => "(-9223372036854775807 - 1)".into(),
        other => other.sql(),
    }
}

pub fn run_c36(tier: Tier, seed: u64) -> i32 {
    let mut rep = Report::new(
        "C36",
        tier,
        seed,
        "exploration",
        "about 150 call shapes of 120 scalar functions (math, string, date, conditional, regex, encoding/hash via TO_HEX/FROM_UTF8 wrappers, bitwise, URL, JSON) x argument tuples drawn from hostile pools (0, +-1, i64 bounds, -0.0, NaN, infinities, ties, empty/non-ASCII/combining strings, leap days, invalid dates, malformed JSON/URLs) with NULLs, evaluated through a column (vectorised) path and a literal (constant) path; every observation is logged and judged offline by py/scalar_model.py against the documented Trino value (error where Trino raises). distinct = distinct (call shape, argument tuple, path)",
    );
    let mut rng = Rng::new(seed ^ 0xC36);
    let specs = specs();
    let per = tier.pick(24usize, 400);
    let scratch = crate::data::Scratch::new("c36");
    let log_path = scratch.path().join("observations.jsonl");
    let mut log = std::io::BufWriter::new(std::fs::File::create(&log_path).expect("log"));
    let mut id = 0u64;
    // id -> (spec index, args, sql, path)
    let mut index: Vec<(usize, Vec<Cell>, String, &'static str, Value)> = Vec::new();
    let mut unbound: BTreeMap<String, u64> = BTreeMap::new();
    for (si, sp) in specs.iter().enumerate() {
        // argument table
        let mut rows: Vec<Vec<Cell>> = Vec::new();
        for r in 0..per {
            let mut row: Vec<Cell> = sp.args.iter().map(|a| pool(&mut rng, *a)).collect();
            if r % 7 == 3 {
                let k = rng.usize(row.len());
                row[k] = Cell::Null;
            }
            rows.push(row);
        }
        let cols: Vec<Col> = std::iter::once(Col { name: "rid".into(), ty: Ty::I64, nullable: false }).chain(sp.args.iter().enumerate().map(|(i, a)| Col { name: format!("a{}", i), ty: ty_of(*a), nullable: true })).collect();
        let t = Table { name: "args".into(), cols, rows: rows.iter().enumerate().map(|(i, r)| std::iter::once(Cell::Int(i as i64)).chain(r.iter().cloned()).collect()).collect() };
        let ctx = mem_ctx(&[t]);
        let mut expr = sp.sql.to_string();
        for i in 0..sp.args.len() {
            expr = expr.replace(&format!("{{{}}}", i), &format!("a{}", i));
        }
        // (1) column path: one statement for the whole table; on error fall back to row-by-row
        let sql = format!("SELECT rid, {} AS r FROM args ORDER BY rid", expr);
        let whole = run_sql(&ctx, &sql);
        let mut per_row: Vec<Option<Value>> = vec![None; per];
        match &whole {
            Outcome::Ok(a) if a.rows.len() == per => {
                for row in &a.rows {
                    if let Cell::Int(i) = row[0] {
                        per_row[i as usize] = Some(cell_to_wire(&row[1]));
                    }
                }
            }
            _ => {
                for (i, slot) in per_row.iter_mut().enumerate() {
                    let one = run_sql(&ctx, &format!("SELECT rid, {} AS r FROM args WHERE rid = {}", expr, i));
                    *slot = Some(match one {
                        Outcome::Ok(a) if a.rows.len() == 1 => cell_to_wire(&a.rows[0][1]),
                        Outcome::Ok(a) => json!({"err": format!("returned {} rows for one input row", a.rows.len())}),
                        Outcome::Err(e) => json!({"err": e}),
                        Outcome::Panic(m) => json!({"err": format!("PANIC: {}", m)}),
                        Outcome::Timeout => json!({"err": "TIMEOUT"}),
                    });
                }
            }
        }
        for (i, out) in per_row.into_iter().enumerate() {
            let out = out.unwrap_or(json!({"err": "no row returned"}));
            if is_unbound(&out) {
                *unbound.entry(sp.sql.to_string()).or_insert(0) += 1;
                continue;
            }
            if out["err"] == "TIMEOUT" {
                rep.inconclusive("statement-timeout");
                continue;
            }
            let _ = writeln!(log, "{}", json!({"id": id, "f": sp.model, "args": rows[i].iter().map(cell_to_wire).collect::<Vec<_>>(), "out": out, "path": "column"}));
            index.push((si, rows[i].clone(), format!("SELECT {} FROM args /* row {} */", expr, i), "column", out));
            id += 1;
        }
        // (2) literal path for a sample of rows
        for (i, row) in rows.iter().enumerate().take(per.min(tier.pick(8, 60))) {
            let mut e = sp.sql.to_string();
            for (k, c) in row.iter().enumerate() {
                let l = if c.is_null() { format!("CAST(NULL AS {})", match ty_of(sp.args[k]) { Ty::I64 => "BIGINT", Ty::F64 => "DOUBLE", Ty::Date => "DATE", Ty::Bool => "BOOLEAN", _ => "VARCHAR" }) } else { lit(c) };
                e = e.replace(&format!("{{{}}}", k), &l);
            }
            let sql = format!("SELECT {} AS r", e);
            let out = match run_sql(&ctx, &sql) {
                Outcome::Ok(a) if a.rows.len() == 1 => cell_to_wire(&a.rows[0][0]),
                Outcome::Ok(a) => json!({"err": format!("returned {} rows", a.rows.len())}),
                Outcome::Err(e) => json!({"err": e}),
                Outcome::Panic(m) => json!({"err": format!("PANIC: {}", m)}),
                Outcome::Timeout => json!({"err": "TIMEOUT"}),
            };
            if is_unbound(&out) || out["err"] == "TIMEOUT" {
                continue;
            }
            let _ = i;
            let _ = writeln!(log, "{}", json!({"id": id, "f": sp.model, "args": row.iter().map(cell_to_wire).collect::<Vec<_>>(), "out": out, "path": "literal"}));
            index.push((si, row.clone(), sql, "literal", out));
            id += 1;
        }
    }
    let _ = log.flush();
    drop(log);
    // offline checker
    let py = verif_root().join("py/scalar_model.py");
    let o = std::process::Command::new("python3").arg(&py).arg(&log_path).output();
    let Ok(o) = o else {
        rep.inconclusive("python-model-did-not-start");
        return rep.finish();
    };
    if !o.status.success() {
        rep.inconclusive("python-model-failed");
        rep.set("model_stderr", json!(String::from_utf8_lossy(&o.stderr).lines().rev().take(8).collect::<Vec<_>>()));
        return rep.finish();
    }
    let mut by_fn: BTreeMap<String, (u64, u64, u64)> = BTreeMap::new(); // ok, mismatch, skipped
    for l in String::from_utf8_lossy(&o.stdout).lines() {
        let Ok(v) = serde_json::from_str::<Value>(l) else { continue };
        let i = v["id"].as_u64().unwrap_or(u64::MAX) as usize;
        let Some((si, args, sql, path, out)) = index.get(i) else { continue };
        let sp = &specs[*si];
        let e = by_fn.entry(sp.sql.to_string()).or_insert((0, 0, 0));
        match v["verdict"].as_str().unwrap_or("") {
            "ok" => {
                rep.eval();
                e.0 += 1;
                rep.nontrivial(&(sp.sql, format!("{:?}", args), *path));
            }
            "mismatch" => {
                rep.eval();
                e.1 += 1;
                rep.nontrivial(&(sp.sql, format!("{:?}", args), *path));
                let got_err = out.get("err").is_some();
                let want_err = v["want"] == "error";
                let panicked = out["err"].as_str().map(|s| s.starts_with("PANIC")).unwrap_or(false);
                let kind = if panicked { "panic" } else if want_err { "value-where-error-documented" } else if got_err { "error-where-value-documented" } else if args.iter().any(|c| c.is_null()) { "null-handling" } else { "wrong-value" };
                // one signature per (outermost function of the call shape, kind of deviation)
                // one signature per (call shape, kind of deviation, class of the argument tuple)
                let sig = format!("{}:{}:{}", sp.model, kind, tuple_tag(kind, args));
                rep.fail(
                    &sig,
                    &format!("{} with {} [{} path] :: engine {} , documented {} ({})", sp.sql, args.iter().map(|c| c.sql()).collect::<Vec<_>>().join(", "), path, out, v["want"], v["why"].as_str().unwrap_or("")),
                    json!({"call": sp.sql, "sql": sql, "args": args.iter().map(cell_to_wire).collect::<Vec<_>>(), "engine": out, "documented": v["want"], "why": v["why"], "path": path}),
                );
            }
            "skip" => {
                e.2 += 1;
                rep.inconclusive("model-declines(undocumented-or-undecidable)");
            }
            _ => {
                rep.inconclusive("unmodelled-function");
            }
        }
    }
    for (k, n) in &unbound {
        rep.inconclusive(&format!("function-not-available:{}", k.split('(').next().unwrap_or(k)));
        let _ = n;
    }
    rep.set("per_call_shape", json!(by_fn.iter().map(|(k, (a, b, c))| (k.clone(), json!({"agree": a, "disagree": b, "declined": c}))).collect::<BTreeMap<_, _>>()));
    rep.set("call_shapes", json!(specs.len()));
    rep.set("call_shapes_not_available_in_engine", json!(unbound.keys().collect::<Vec<_>>()));
    rep.floor(by_fn.len() * 10 >= specs.len() * 6, "fewer than 60% of the call shapes produced judged observations");
    rep.assumptions.push("the Python model encodes the documented Trino behaviour; where documentation and stdlib cannot decide (ties not exactly representable, NaN ordering, Unicode whitespace, URL/JSON-path forms outside a common subset) the model declines and the observation is not judged".into());
    rep.finish()
}

/// Coarse class of one argument: enough to tell a recorded deviation (say,
/// SUBSTR with a negative start on a non-ASCII string) from a new one on
/// ordinary arguments.
fn arg_class(c: &Cell) -> &'static str {
    match c {
        Cell::Null => "null",
        Cell::Int(0) => "zero",
        Cell::Int(i) if *i < 0 => "neg",
        Cell::Int(i) if *i < 64 => "small",
        Cell::Int(_) => "big",
        Cell::F(f) if f.is_nan() => "nan",
        Cell::F(f) if f.is_infinite() => "inf",
        Cell::F(f) if *f == 0.0 => "fzero",
        Cell::F(f) if *f < 0.0 => "fneg",
        Cell::F(_) => "fpos",
        Cell::S(s) if s.is_empty() => "empty",
        Cell::S(s) if s.is_ascii() => "ascii",
        Cell::S(_) => "nonascii",
        Cell::Date(_) => "date",
        Cell::Bool(true) => "true",
        Cell::Bool(false) => "false",
    }
}

/// One tag for the argument tuple, so that a recorded deviation on unusual
/// arguments does not hide a new one on ordinary arguments: position of the
/// first NULL for NULL handling; for wrong values the most unusual trait
/// present (non-ASCII text, non-finite, negative or zero numbers), else `plain`.
fn tuple_tag(kind: &str, args: &[Cell]) -> String {
    if kind == "null-handling" {
        return format!("arg{}", args.iter().position(|c| c.is_null()).unwrap_or(0));
    }
    if kind != "wrong-value" {
        return "any".into();
    }
    let cls: Vec<&str> = args.iter().map(arg_class).collect();
    for (t, tag) in [("nonascii", "nonascii"), ("nan", "nonfinite"), ("inf", "nonfinite"), ("neg", "negative"), ("fneg", "negative"), ("zero", "zero"), ("fzero", "zero")] {
        if cls.contains(&t) {
            return tag.into();
        }
    }
    "plain".into()
}

fn is_unbound(out: &Value) -> bool {
    out["err"].as_str().map(|e| {
        let l = e.to_lowercase();
        l.contains("unknown function") || l.contains("unsupported function") || l.contains("not supported") && l.contains("function") || l.contains("unknown scalar function") || l.contains("function not found")
    }).unwrap_or(false)
}
