//! C37 Vector encodings round-trip and SIMD kernels match Arrow.

use crate::report::{Report, Tier};
use crate::rng::Rng;
use arrow::array::*;
use arrow::datatypes::DataType;
use query_engine::arrow_ffi::array::encode_optimal;
use query_engine::arrow_ffi::codec::{add_simd, compare_simd, count_simd, filter_simd, multiply_simd, sum_simd, CompareOp, ScalarValue};
use serde_json::json;
use std::sync::Arc;

fn gen_array(rng: &mut Rng, ty: u64, n: usize) -> ArrayRef {
    let nullp = *rng.pick(&[0u64, 0, 15, 60, 100]);
    let shape = rng.below(4); // 0 random, 1 long runs, 2 constant, 3 few distinct
    let mut run_left = 0usize;
    let mut cur = 0i64;
    let mut next = |rng: &mut Rng| -> i64 {
        match shape {
            1 => {
                if run_left == 0 {
                    run_left = 1 + rng.usize(40);
                    cur = rng.range(-3, 3);
                }
                run_left -= 1;
                cur
            }
            2 => 7,
            3 => rng.range(0, 2),
            _ => {
                if rng.chance(1, 12) {
                    *rng.pick(&[i64::MAX, i64::MIN, i64::MAX - 1, 1 << 62, -(1 << 62), 3037000500])
                } else {
                    rng.range(-1000, 1000)
                }
            }
        }
    };
    // values that only differ in ways a careless equality misses: zeros of both
    // signs (IEEE == calls them equal), and strings that look like the text a
    // NULL is rendered as
    let hostile = rng.chance(1, 6);
    if hostile && ty == 1 {
        let only_zeros = rng.bool();
        return Arc::new(Float64Array::from(
            (0..n)
                .map(|_| {
                    if rng.below(100) < nullp {
                        None
                    } else if only_zeros || rng.bool() {
                        Some(if rng.bool() { 0.0 } else { -0.0 })
                    } else {
                        Some(*rng.pick(&[f64::NAN, -f64::NAN, 1.0, -1.0]))
                    }
                })
                .collect::<Vec<_>>(),
        ));
    }
    if hostile && ty == 2 {
        let pool: &[&str] = if rng.bool() { &["NULL"] } else { &["NULL", "null", "", "None", "NaN"] };
        return Arc::new(StringArray::from((0..n).map(|_| if rng.below(100) < nullp.max(20) { None } else { Some(rng.pick(pool).to_string()) }).collect::<Vec<_>>()));
    }
    let full: ArrayRef = match ty {
        0 => Arc::new(Int64Array::from((0..n).map(|_| { let v = next(rng); if rng.below(100) < nullp { None } else { Some(v) } }).collect::<Vec<_>>())),
        1 => Arc::new(Float64Array::from((0..n).map(|_| { let v = next(rng); if rng.below(100) < nullp { None } else if rng.chance(1, 20) { Some(*rng.pick(&[f64::NAN, -0.0, f64::INFINITY, 1e308])) } else { Some(v as f64 / 8.0) } }).collect::<Vec<_>>())),
        2 => Arc::new(StringArray::from((0..n).map(|_| { let v = next(rng); if rng.below(100) < nullp { None } else { Some(format!("s{}", v.rem_euclid(7))) } }).collect::<Vec<_>>())),
        3 => Arc::new(BooleanArray::from((0..n).map(|_| { let v = next(rng); if rng.below(100) < nullp { None } else { Some(v & 1 == 1) } }).collect::<Vec<_>>())),
        _ => Arc::new(Int32Array::from((0..n).map(|_| { let v = next(rng); if rng.below(100) < nullp { None } else { Some(v as i32) } }).collect::<Vec<_>>())),
    };
    full
}

/// Random slice at a non-zero offset half of the time.
fn sliced(rng: &mut Rng, a: ArrayRef) -> ArrayRef {
    if a.len() < 2 || rng.bool() {
        return a;
    }
    let off = 1 + rng.usize(a.len() - 1);
    let len = rng.usize(a.len() - off + 1);
    a.slice(off, len)
}

fn logical_eq(a: &ArrayRef, b: &ArrayRef) -> bool {
    let norm = |x: &ArrayRef| -> ArrayRef {
        match x.data_type() {
            DataType::Dictionary(_, v) => arrow::compute::cast(x.as_ref(), v).unwrap_or_else(|_| x.clone()),
            _ => x.clone(),
        }
    };
    let (a, b) = (norm(a), norm(b));
    if a.data_type() != b.data_type() || a.len() != b.len() {
        return false;
    }
    // bitwise for floats (NaN == NaN), logical nulls
    for i in 0..a.len() {
        if a.is_null(i) != b.is_null(i) {
            return false;
        }
    }
    if let (Some(x), Some(y)) = (a.as_any().downcast_ref::<Float64Array>(), b.as_any().downcast_ref::<Float64Array>()) {
        // bit patterns: -0.0 is not +0.0, every NaN equals itself
        return (0..x.len()).all(|i| x.is_null(i) || x.value(i).to_bits() == y.value(i).to_bits() || (x.value(i).is_nan() && y.value(i).is_nan()));
    }
    let opts = arrow::util::display::FormatOptions::default();
    let fa = arrow::util::display::ArrayFormatter::try_new(a.as_ref(), &opts);
    let fb = arrow::util::display::ArrayFormatter::try_new(b.as_ref(), &opts);
    let r = match (&fa, &fb) {
        (Ok(fa), Ok(fb)) => (0..a.len()).all(|i| a.is_null(i) || fa.value(i).to_string() == fb.value(i).to_string()),
        _ => false,
    };
    r
}

fn show(a: &ArrayRef) -> String {
    let opts = arrow::util::display::FormatOptions::default();
    let f = arrow::util::display::ArrayFormatter::try_new(a.as_ref(), &opts);
    let r = match &f {
        Ok(f) => format!("{:?}[{}]", a.data_type(), (0..a.len().min(24)).map(|i| if a.is_null(i) { "NULL".to_string() } else { f.value(i).to_string() }).collect::<Vec<_>>().join(",")),
        Err(_) => format!("{:?}", a),
    };
    r
}

fn guarded<T>(f: impl FnOnce() -> T) -> Result<T, String> {
    std::panic::catch_unwind(std::panic::AssertUnwindSafe(f)).map_err(|p| p.downcast_ref::<String>().cloned().or_else(|| p.downcast_ref::<&str>().map(|s| s.to_string())).unwrap_or_default())
}

pub fn run(tier: Tier, seed: u64) -> i32 {
    let mut rep = Report::new(
        "C37",
        tier,
        seed,
        "exploration",
        "Int64/Float64/Utf8/Boolean/Int32 arrays of lengths 0..5000 with NULL densities 0/15/60/100%, long runs, constants, few distinct values, overflow-adjacent integers, NaN/-0.0/inf, arrays of zeros with both signs, strings that spell NULL next to real NULLs, half of them sliced at a non-zero offset: encode_optimal(a).decode() must equal a logically; filter/compare/add/multiply/sum/count helpers must return what arrow::compute::{filter, cmp::*, numeric::{add,mul}, sum, count} return (value and Ok-vs-Err). distinct = distinct (helper, type, null class, shape, sliced) tuples",
    );
    let mut rng = Rng::new(seed ^ 0xC37);
    let n = tier.pick(6_000, 150_000);
    for case in 0..n {
        let ty = rng.below(5);
        let len = match rng.below(5) {
            0 => rng.usize(3),
            1 => rng.usize(20),
            2 => rng.usize(300),
            _ => rng.usize(tier.pick(1500, 5000)),
        };
        let full = gen_array(&mut rng, ty, len);
        let a = sliced(&mut rng, full);
        let has_nulls = a.null_count() > 0;
        let tyname = format!("{:?}", a.data_type());
        let class = |h: &str| format!("{}|{}|nulls={}|len={}", h, tyname, has_nulls, a.len().min(3));
        // ---- encode/decode
        rep.eval();
        rep.nontrivial(&class("encode"));
        match guarded(|| encode_optimal(a.clone()).map(|e| (e.encoding(), e.len(), e.decode()))) {
            Err(p) => rep.fail("encode-panic", &format!("encode_optimal panicked on {}: {}", show(&a), p), json!({"array": show(&a)})),
            Ok(Err(e)) => {
                if matches!(a.data_type(), DataType::Int64 | DataType::Float64 | DataType::Utf8 | DataType::Boolean) {
                    rep.fail("encode-error", &format!("encode_optimal failed on {}: {}", show(&a), e), json!({"array": show(&a)}));
                } else {
                    rep.inconclusive("encode-unsupported-type");
                }
            }
            Ok(Ok((enc, elen, d))) => {
                if elen != a.len() || !logical_eq(&d, &a) {
                    let sig = format!("roundtrip:{:?}:{}{}", enc, tyname, if has_nulls { ":nulls" } else { "" });
                    rep.fail(&sig, &format!("{:?} round trip of {} gave {}", enc, show(&a), show(&d)), json!({"array": show(&a), "decoded": show(&d), "encoding": format!("{:?}", enc)}));
                }
                if case < 3 {
                    rep.sample(json!({"array": show(&a), "encoding": format!("{:?}", enc)}));
                }
            }
        }
        // ---- count
        rep.eval();
        match guarded(|| count_simd(a.as_ref())) {
            Ok(Ok(c)) => {
                let want = (a.len() - a.null_count()) as i64;
                if c != want {
                    rep.fail("count", &format!("count_simd = {} vs arrow count {} on {}", c, want, show(&a)), json!({"array": show(&a)}));
                }
            }
            other => rep.fail("count-error", &format!("count_simd failed: {:?}", other.map(|r| r.map_err(|e| e.to_string()))), json!({"array": show(&a)})),
        }
        // ---- filter
        {
            let pred: Vec<bool> = (0..a.len()).map(|_| rng.bool()).collect();
            let want = arrow::compute::filter(a.as_ref(), &BooleanArray::from(pred.clone())).map_err(|e| e.to_string());
            rep.eval();
            rep.nontrivial(&class("filter"));
            match (guarded(|| filter_simd(a.as_ref(), &pred)), want) {
                (Err(p), _) => rep.fail("filter-panic", &p, json!({"array": show(&a)})),
                (Ok(Ok(g)), Ok(w)) => {
                    if !logical_eq(&g, &w) {
                        let sig = format!("filter:{}{}", tyname, if has_nulls { ":nulls" } else { "" });
                        rep.fail(&sig, &format!("filter_simd({}) = {} vs arrow {}", show(&a), show(&g), show(&w)), json!({"array": show(&a), "got": show(&g), "arrow": show(&w)}));
                    }
                }
                (Ok(Err(e)), Ok(_)) => rep.fail(&format!("filter-error:{}", tyname), &format!("filter_simd failed ({}) where arrow's filter succeeds on {}", e, tyname), json!({"array": show(&a)})),
                (Ok(Ok(_)), Err(e)) => rep.fail("filter-ok-arrow-err", &e, json!({"array": show(&a)})),
                (Ok(Err(_)), Err(_)) => {}
            }
            // length mismatch must be an error in both
            if a.len() > 0 && case % 50 == 0 {
                let short = &pred[..pred.len() - 1];
                if let Ok(Ok(_)) = guarded(|| filter_simd(a.as_ref(), short)) {
                    rep.fail("filter-length-mismatch-accepted", "a predicate shorter than the array was accepted", json!({"array": show(&a)}));
                }
            }
        }
        // ---- binary helpers need a second array of the same type and length
        let b = {
            let g = gen_array(&mut rng, ty, a.len() + 3);
            g.slice(if rng.bool() { 0 } else { 3 }, a.len())
        };
        let b_nulls = b.null_count() > 0;
        let nclass = if has_nulls || b_nulls { ":nulls" } else { "" };
        for (opn, op) in [("eq", CompareOp::Eq), ("ne", CompareOp::Ne), ("lt", CompareOp::Lt), ("le", CompareOp::Le), ("gt", CompareOp::Gt), ("ge", CompareOp::Ge)] {
            use arrow::compute::kernels::cmp;
            let want = match opn {
                "eq" => cmp::eq(&a, &b),
                "ne" => cmp::neq(&a, &b),
                "lt" => cmp::lt(&a, &b),
                "le" => cmp::lt_eq(&a, &b),
                "gt" => cmp::gt(&a, &b),
                _ => cmp::gt_eq(&a, &b),
            }
            .map_err(|e| e.to_string());
            rep.eval();
            rep.nontrivial(&class(&format!("cmp-{}", opn)));
            match (guarded(|| compare_simd(a.as_ref(), b.as_ref(), op)), want) {
                (Err(p), _) => rep.fail("compare-panic", &p, json!({"a": show(&a), "b": show(&b)})),
                (Ok(Ok(g)), Ok(w)) => {
                    let (g, w): (ArrayRef, ArrayRef) = (Arc::new(g), Arc::new(w));
                    if !logical_eq(&g, &w) {
                        let sig = format!("compare:{}{}", tyname, nclass);
                        rep.fail(&sig, &format!("compare_simd {} of {} and {} = {} vs arrow {}", opn, show(&a), show(&b), show(&g), show(&w)), json!({"op": opn, "a": show(&a), "b": show(&b), "got": show(&g), "arrow": show(&w)}));
                    }
                }
                (Ok(Err(e)), Ok(_)) => rep.fail(&format!("compare-error:{}", tyname), &format!("compare_simd failed ({}) where arrow's kernel succeeds on {}", e, tyname), json!({"a": show(&a)})),
                (Ok(Ok(_)), Err(e)) => rep.fail("compare-ok-arrow-err", &e, json!({"a": show(&a)})),
                _ => {}
            }
        }
        if matches!(a.data_type(), DataType::Int64 | DataType::Float64 | DataType::Int32) {
            use arrow::compute::kernels::numeric;
            for (opn, want) in [("add", numeric::add(&a, &b)), ("mul", numeric::mul(&a, &b))] {
                let want = want.map_err(|e| e.to_string());
                rep.eval();
                rep.nontrivial(&class(opn));
                let got = guarded(|| if opn == "add" { add_simd(a.as_ref(), b.as_ref()) } else { multiply_simd(a.as_ref(), b.as_ref()) });
                match (got, want) {
                    (Err(p), Err(_)) => rep.fail(&format!("{}-panic-on-overflow", opn), &format!("{}_simd panicked ({}) where arrow returns an error", opn, p), json!({"a": show(&a), "b": show(&b)})),
                    (Err(p), Ok(_)) => rep.fail(&format!("{}-panic", opn), &p, json!({"a": show(&a), "b": show(&b)})),
                    (Ok(Ok(g)), Ok(w)) => {
                        if !logical_eq(&g, &w) {
                            let sig = format!("{}:{}{}", opn, tyname, nclass);
                            rep.fail(&sig, &format!("{}_simd of {} and {} = {} vs arrow {}", opn, show(&a), show(&b), show(&g), show(&w)), json!({"a": show(&a), "b": show(&b), "got": show(&g), "arrow": show(&w)}));
                        }
                    }
                    (Ok(Ok(g)), Err(e)) => rep.fail(&format!("{}-overflow-not-reported", opn), &format!("{}_simd returned {} where arrow's kernel errors: {}", opn, show(&g), e), json!({"a": show(&a), "b": show(&b)})),
                    (Ok(Err(e)), Ok(_)) => rep.fail(&format!("{}-error:{}", opn, tyname), &format!("{}_simd failed ({}) where arrow succeeds", opn, e), json!({"a": show(&a)})),
                    (Ok(Err(_)), Err(_)) => {}
                }
            }
            // ---- sum
            rep.eval();
            rep.nontrivial(&class("sum"));
            let want: Option<f64> = match a.data_type() {
                DataType::Int64 => arrow::compute::sum(a.as_any().downcast_ref::<Int64Array>().unwrap()).map(|v| v as f64),
                DataType::Float64 => arrow::compute::sum(a.as_any().downcast_ref::<Float64Array>().unwrap()),
                _ => arrow::compute::sum(a.as_any().downcast_ref::<Int32Array>().unwrap()).map(|v| v as f64),
            };
            let want_exact: Option<i64> = if a.data_type() == &DataType::Int64 { arrow::compute::sum(a.as_any().downcast_ref::<Int64Array>().unwrap()) } else { None };
            match guarded(|| sum_simd(a.as_ref())) {
                Err(p) => rep.fail("sum-panic", &format!("sum_simd panicked: {} on {}", p, show(&a)), json!({"array": show(&a)})),
                Ok(Err(e)) => {
                    if a.data_type() != &DataType::Int32 {
                        rep.fail("sum-error", &e.to_string(), json!({"array": show(&a)}));
                    }
                }
                Ok(Ok(v)) => {
                    let ok = match (&v, want, want_exact) {
                        (ScalarValue::Int64(g), _, _) if a.data_type() == &DataType::Int64 => *g == want_exact,
                        (ScalarValue::Float64(g), w, _) => match (g, w) {
                            (None, None) => true,
                            (Some(x), Some(y)) => (x.is_nan() && y.is_nan()) || x == &y || (x - y).abs() <= 1e-9 * x.abs().max(y.abs()).max(1.0),
                            _ => false,
                        },
                        (ScalarValue::Null, None, _) => true,
                        _ => false,
                    };
                    if !ok {
                        let sig = if a.len() == a.null_count() { "sum:no-non-null-input".to_string() } else { format!("sum:{}", tyname) };
                        rep.fail(&sig, &format!("sum_simd({}) = {:?} vs arrow sum {:?}", show(&a), v, want), json!({"array": show(&a)}));
                    }
                }
            }
        }
    }
    crate::eng::take_panics();
    rep.finish()
}
