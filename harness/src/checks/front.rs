//! C35 The SQL front door decides and encodes consistently.
//! C34 Flight and HTTP return the same answer.
//!
//! Real nodes are started in-process with `distributed::server::spawn` on
//! loopback sockets (HTTP and Arrow Flight), loaded from generated Parquet
//! directories; the monitors talk to them the way clients do
//! (`http_client::post_text`, a tonic Flight client) and compare what comes
//! back with `ctx.sql` on a context of their own over the same files.

use crate::canon::{batches_to_rows, cell_eq, multiset_eq, row_eq, Row};
use crate::checks::dist::{dist_stmt, pq_ctx};
use crate::data::{Cell, PqOpts, Scratch, Table, Ty};
use crate::eng::{rt, Outcome};
use crate::qgen::{gen_db, GenQuery, SizeClass};
use crate::report::{Report, Tier};
use crate::rng::Rng;
use arrow::record_batch::RecordBatch;
use futures::TryStreamExt;
use query_engine::distributed::http_client::{self, HttpResponse};
use query_engine::distributed::server::{spawn, ServeOptions, ServerHandle, TableLoader};
use query_engine::ExecutionContext;
use serde_json::{json, Value};
use std::path::{Path, PathBuf};
use std::sync::Arc;
use std::time::Duration;

const T: Duration = Duration::from_secs(60);

fn opts(node_id: u64) -> ServeOptions {
    ServeOptions { bind: "127.0.0.1:0".into(), node_id: Some(node_id), discovery_interval: Duration::from_millis(40), probe_timeout: Duration::from_millis(1500), ..Default::default() }
}

fn loader_for(dir: PathBuf, names: Vec<String>) -> TableLoader {
    Box::new(move || {
        let mut ctx = ExecutionContext::new();
        for n in &names {
            ctx.register_parquet(n.clone(), dir.join(n))?;
        }
        Ok(ctx)
    })
}

fn header<'a>(r: &'a HttpResponse, name: &str) -> Option<&'a str> {
    r.headers.iter().find(|(k, _)| k == name).map(|(_, v)| v.as_str())
}

/// The x-qe-distribution header of a distributed answer lists the nodes that were given a
/// fragment; true when every one of them is the asked node itself.
fn peer_not_involved(r: &HttpResponse) -> bool {
    if header(r, "x-qe-distributed") != Some("true") {
        return false;
    }
    let Some(d) = header(r, "x-qe-distribution").and_then(|s| serde_json::from_str::<serde_json::Value>(s).ok()) else {
        return false;
    };
    match d["nodes"].as_array() {
        Some(ns) if !ns.is_empty() => ns.iter().all(|n| n["local"].as_bool() == Some(true)),
        _ => false,
    }
}

async fn wait_ready(addr: &str, want: bool, max: Duration) -> bool {
    let t0 = std::time::Instant::now();
    while t0.elapsed() < max {
        if let Ok(r) = http_client::get(addr, "/readyz", Duration::from_secs(5)).await {
            if (r.status == 200) == want {
                return true;
            }
        }
        tokio::time::sleep(Duration::from_millis(10)).await;
    }
    false
}

async fn members_up(addr: &str) -> usize {
    match http_client::get(addr, "/cluster", Duration::from_secs(5)).await {
        Ok(r) => serde_json::from_slice::<Value>(&r.body)
            .ok()
            .and_then(|v| v["members"].as_array().map(|a| a.iter().filter(|m| m["is_self"] == true || m["status"].as_str().map(|s| s.eq_ignore_ascii_case("up")).unwrap_or(false)).count()))
            .unwrap_or(0),
        Err(_) => 0,
    }
}

async fn wait_members(addr: &str, n: usize, max: Duration) -> bool {
    let t0 = std::time::Instant::now();
    while t0.elapsed() < max {
        if members_up(addr).await == n {
            return true;
        }
        tokio::time::sleep(Duration::from_millis(20)).await;
    }
    false
}

fn decode_arrow(body: &[u8]) -> Result<Vec<RecordBatch>, String> {
    let r = arrow::ipc::reader::StreamReader::try_new(std::io::Cursor::new(body), None).map_err(|e| e.to_string())?;
    r.collect::<Result<Vec<_>, _>>().map_err(|e| e.to_string())
}

fn same_answer(got: &[Row], want: &[Row], q: &GenQuery) -> Result<(), String> {
    if !q.keys.is_empty() && q.limit.is_some() {
        if got.len() == want.len() && got.iter().zip(want.iter()).all(|(x, y)| row_eq(x, y)) {
            return Ok(());
        }
        return Err(format!("sequence differs under a total order ({} vs {} rows)", got.len(), want.len()));
    }
    multiset_eq(got, want)
}

/// JSON body -> rows in the column order `names` (absent key = NULL).
fn json_rows(body: &[u8], names: &[String], types: &[arrow::datatypes::DataType]) -> Result<Vec<Row>, String> {
    let v: Value = serde_json::from_slice(body).map_err(|e| format!("JSON body does not parse: {}", e))?;
    let arr = v.as_array().ok_or("JSON body is not an array")?;
    let mut out = Vec::new();
    for o in arr {
        let o = o.as_object().ok_or("JSON row is not an object")?;
        let mut r = Vec::new();
        for (n, t) in names.iter().zip(types.iter()) {
            r.push(match o.get(n) {
                None | Some(Value::Null) => Cell::Null,
                Some(Value::Bool(b)) => Cell::Bool(*b),
                Some(Value::Number(x)) => {
                    if matches!(t, arrow::datatypes::DataType::Float64 | arrow::datatypes::DataType::Float32) {
                        Cell::F(x.as_f64().unwrap_or(f64::NAN))
                    } else if let Some(i) = x.as_i64() {
                        Cell::Int(i)
                    } else {
                        Cell::F(x.as_f64().unwrap_or(f64::NAN))
                    }
                }
                Some(Value::String(s)) => {
                    if matches!(t, arrow::datatypes::DataType::Date32) {
                        chrono::NaiveDate::parse_from_str(s, "%Y-%m-%d").map(|d| Cell::Date((d - chrono::NaiveDate::from_ymd_opt(1970, 1, 1).unwrap()).num_days() as i32)).unwrap_or(Cell::S(s.clone()))
                    } else {
                        Cell::S(s.clone())
                    }
                }
                Some(other) => Cell::S(other.to_string()),
            });
        }
        out.push(r);
    }
    Ok(out)
}

fn csv_rows(body: &[u8], names: &[String], types: &[arrow::datatypes::DataType], want: &[Row]) -> Result<Vec<Row>, String> {
    let text = String::from_utf8(body.to_vec()).map_err(|_| "CSV body is not UTF-8".to_string())?;
    let recs = crate::checks::cliout::parse_csv(&text)?;
    if recs.is_empty() {
        return if want.is_empty() { Ok(vec![]) } else { Err("empty CSV body".into()) };
    }
    if recs[0] != names {
        return Err(format!("CSV header {:?}, columns {:?}", recs[0], names));
    }
    let mut out = Vec::new();
    for rec in &recs[1..] {
        if rec.len() != names.len() {
            return Err(format!("CSV record with {} fields for {} columns", rec.len(), names.len()));
        }
        let mut r = Vec::new();
        for (f, t) in rec.iter().zip(types.iter()) {
            use arrow::datatypes::DataType as D;
            r.push(match t {
                D::Utf8 | D::LargeUtf8 => Cell::S(f.clone()), // NULL and '' are the same text in CSV: resolved by the comparison below
                _ if f.is_empty() => Cell::Null,
                D::Int64 | D::Int32 | D::Int16 | D::Int8 | D::UInt64 | D::UInt32 => f.parse::<i64>().map(Cell::Int).map_err(|_| format!("CSV field {:?} is not an integer", f))?,
                D::Float64 | D::Float32 => f.parse::<f64>().map(Cell::F).map_err(|_| format!("CSV field {:?} is not a number", f))?,
                D::Boolean => Cell::Bool(f == "true"),
                D::Date32 => chrono::NaiveDate::parse_from_str(f, "%Y-%m-%d").map(|d| Cell::Date((d - chrono::NaiveDate::from_ymd_opt(1970, 1, 1).unwrap()).num_days() as i32)).map_err(|_| format!("CSV field {:?} is not a date", f))?,
                _ => Cell::S(f.clone()),
            });
        }
        out.push(r);
    }
    Ok(out)
}

/// CSV cannot tell NULL from '': fold both to '' on both sides before comparing.
fn fold_null_strings(rows: &[Row], types: &[arrow::datatypes::DataType]) -> Vec<Row> {
    rows.iter()
        .map(|r| r.iter().zip(types.iter()).map(|(c, t)| if matches!(t, arrow::datatypes::DataType::Utf8 | arrow::datatypes::DataType::LargeUtf8) && c.is_null() { Cell::S(String::new()) } else { c.clone() }).collect())
        .collect()
}

struct Node {
    h: ServerHandle,
}

async fn start(n: usize, dirs: &[PathBuf], names: &[String]) -> Vec<Node> {
    let mut out = Vec::new();
    for i in 0..n {
        let h = spawn(opts(i as u64 + 1), loader_for(dirs[i % dirs.len()].clone(), names.to_vec())).await.expect("spawn node");
        out.push(Node { h });
    }
    let addrs: Vec<String> = out.iter().map(|x| x.h.address().to_string()).collect();
    for x in &out {
        x.h.set_peers(addrs.clone());
    }
    out
}

async fn stop(nodes: Vec<Node>) {
    for n in nodes {
        n.h.shutdown().await;
    }
}

pub fn run_c35(tier: Tier, seed: u64) -> i32 {
    let mut rep = Report::new(
        "C35",
        tier,
        seed,
        "exploration",
        "in-process nodes (server::spawn, loopback HTTP) over generated Parquet catalogs. (a) readiness: while a node's loader is blocked, and after a loader failed, POST /sql and POST /fragment must answer 503 and /readyz non-200; after the loader returns they answer. (b) encodings: statements of all distributed shapes with ?format=arrow|json|csv and distributed=0|auto|1 on 1-3 node clusters: the decoded body must hold exactly the rows ctx.sql returns on an independent context over the same files (sequence under a total ORDER BY with LIMIT) and x-qe-rows must equal the row count. (c) decisions in auto mode: x-qe-distributed must be false with a non-empty x-qe-distributed-skipped on a single node and after the peers are gone; every answer that auto mode did distribute must name >= 2 shards and (by (b)) equal the single-node answer exactly, which is what exactly-mergeable means observably; every local answer must carry its reason. (d) no local fallback: with a peer whose copy of a table differs (digest mismatch) or a peer that died while still listed Up, auto and distributed=1 must return an error status for statements that auto distributes, never 200. distinct = distinct (phase, format, mode, cluster size, statement skeleton)",
    );
    let scratch = Scratch::new("c35");
    let rounds = tier.pick(3usize, 24);
    let per_round = tier.pick(40usize, 120);
    let sp = scratch.path().to_path_buf();
    let result: Result<(), String> = rt().block_on(async {
        for round in 0..rounds {
            let mut rng = Rng::new(seed.wrapping_mul(7_000_003).wrapping_add(round as u64) ^ 0xC35);
            let mut db = gen_db(&mut rng, 2, if round % 2 == 0 { SizeClass::Small } else { SizeClass::Tiny });
            for t in db.iter_mut() {
                if t.rows.is_empty() {
                    let spec = crate::qgen::TableSpec { rows: 4, null_pct: 30, key: crate::qgen::KeyClass::DenseDup, not_null: false };
                    *t = crate::qgen::gen_table(&mut rng, &t.name.clone(), &spec);
                }
            }
            if round % 2 == 1 {
                // a table of one row is one split: only one member gets work, and when that is
                // the asked node itself no fragment travels at all
                let spec = crate::qgen::TableSpec { rows: 1, null_pct: 30, key: crate::qgen::KeyClass::DenseDup, not_null: false };
                let name = db[1].name.clone();
                db[1] = crate::qgen::gen_table(&mut rng, &name, &spec);
            }
            let names: Vec<String> = db.iter().map(|t| t.name.clone()).collect();
            let dir = sp.join(format!("r{}", round));
            let o = PqOpts { files: *rng.pick(&[1usize, 2, 3]), rg_rows: *rng.pick(&[20usize, 200, 1 << 20]), dictionary: rng.bool(), snappy: rng.bool(), stats: true };
            let Some(reference) = pq_ctx(&dir.join("data"), &db, &o) else { continue };
            // a differing copy: first table with one more row
            let mut db2 = db.clone();
            let extra = db2[0].rows[0].clone();
            db2[0].rows.push(extra);
            let _ = pq_ctx(&dir.join("data_differs"), &db2, &o);

            // ---- (a) readiness ------------------------------------------------
            {
                let (tx, rx) = std::sync::mpsc::channel::<bool>();
                let (d, nm) = (dir.join("data"), names.clone());
                let loader: TableLoader = Box::new(move || {
                    let ok = rx.recv().unwrap_or(false);
                    if !ok {
                        return Err(query_engine::QueryError::Storage("loader was told to fail".into()));
                    }
                    let mut ctx = ExecutionContext::new();
                    for n in &nm {
                        ctx.register_parquet(n.clone(), d.join(n))?;
                    }
                    Ok(ctx)
                });
                let fail = round % 3 == 2;
                let h = spawn(opts(90), loader).await.map_err(|e| e.to_string())?;
                let addr = h.local_addr().to_string();
                let sql = format!("SELECT COUNT(*) FROM {}", names[0]);
                for probe in 0..tier.pick(6, 30) {
                    for (path, body) in [("/sql", sql.clone()), ("/sql?distributed=1", sql.clone()), ("/sql?format=json", sql.clone()), ("/fragment", "{}".to_string())] {
                        rep.eval();
                        let r = if path == "/fragment" { http_client::post_json(&addr, path, body.as_bytes(), T).await } else { http_client::post_text(&addr, path, &body, T).await };
                        match r {
                            Ok(r) if r.status == 503 => rep.nontrivial(&("not-ready", path, probe % 3)),
                            Ok(r) => rep.fail(&format!("answered-before-loaded:{}", path.split('?').next().unwrap_or(path)), &format!("{} answered {} while the tables were still loading: {}", path, r.status, r.text().chars().take(120).collect::<String>()), json!({"path": path, "status": r.status, "body": r.text().chars().take(400).collect::<String>()})),
                            Err(e) => {
                                rep.inconclusive("http-client-error");
                                rep.set("http_error", json!(e.to_string()));
                            }
                        }
                    }
                    rep.eval();
                    if let Ok(r) = http_client::get(&addr, "/readyz", T).await {
                        if r.status == 200 {
                            rep.fail("ready-before-loaded", "/readyz said 200 while the loader had not returned", json!({"round": round}));
                        }
                    }
                }
                let _ = tx.send(!fail);
                if fail {
                    tokio::time::sleep(Duration::from_millis(150)).await;
                    for path in ["/sql", "/fragment"] {
                        rep.eval();
                        let r = if path == "/fragment" { http_client::post_json(&addr, path, b"{}", T).await } else { http_client::post_text(&addr, path, &sql, T).await };
                        match r {
                            Ok(r) if r.status == 503 => rep.nontrivial(&("load-failed", path)),
                            Ok(r) => rep.fail(&format!("answered-after-failed-load:{}", path), &format!("{} answered {} although the loader failed", path, r.status), json!({"path": path, "status": r.status, "body": r.text().chars().take(400).collect::<String>()})),
                            Err(_) => rep.inconclusive("http-client-error"),
                        }
                    }
                } else {
                    rep.eval();
                    if !wait_ready(&addr, true, Duration::from_secs(30)).await {
                        rep.fail("never-ready", "the node never became ready after its loader returned", json!({"round": round}));
                    } else {
                        match http_client::post_text(&addr, "/sql?format=json", &sql, T).await {
                            Ok(r) if r.status == 200 => rep.nontrivial(&("ready-answers", round % 2)),
                            Ok(r) => rep.fail("ready-but-refuses", &format!("ready node answered {} to a COUNT(*)", r.status), json!({"status": r.status, "body": r.text()})),
                            Err(_) => rep.inconclusive("http-client-error"),
                        }
                    }
                }
                h.shutdown().await;
            }

            // ---- (b)+(c) encodings and decisions on 1..3 nodes ---------------
            for n_nodes in [1usize, 2, 3] {
                let nodes = start(n_nodes, &[dir.join("data")], &names).await;
                let addr = nodes[0].h.local_addr().to_string();
                let mut ready = true;
                for n in &nodes {
                    ready &= wait_ready(&n.h.local_addr().to_string(), true, Duration::from_secs(30)).await;
                }
                if !ready || !wait_members(&addr, n_nodes, Duration::from_secs(20)).await {
                    rep.inconclusive("cluster-did-not-converge");
                    stop(nodes).await;
                    continue;
                }
                for qi in 0..per_round / 3 + 2 * n_nodes {
                    let mut qrng = rng.fork((n_nodes * 1000 + qi) as u64);
                    // the last statements of every cluster are directed: a plain select whose answer is
                    // empty (no shard has a row to ship), in auto and in forced mode, asked of every
                    // member in turn (one of them owns the only split of a one-row table)
                    let directed = qi >= per_round / 3;
                    let dk = qi.saturating_sub(per_round / 3);
                    let addr = if directed { nodes[dk / 2].h.local_addr().to_string() } else { addr.clone() };
                    let q = if directed {
                        let t = &db[1];
                        let core = format!("SELECT r0.id AS c0, r0.i1 AS c1 FROM {} AS r0 WHERE r0.id < -1000000", t.name);
                        GenQuery { sql: core.clone(), full_sql: core, keys: vec![], limit: None, offset: 0, tags: vec!["empty-answer".into()], ncols: 2 }
                    } else {
                        dist_stmt(&mut qrng, &db)
                    };
                    let sql = q.engine_sql();
                    let want = match crate::eng::run_sql_async(&reference, &sql).await {
                        Outcome::Ok(a) => a,
                        _ => {
                            rep.inconclusive("reference-context-refuses-statement");
                            continue;
                        }
                    };
                    let fmt = *qrng.pick(&["arrow", "json", "csv"]);
                    let mode = *qrng.pick(&["0", "auto", "auto", "1"]);
                    let mode = if directed { if dk % 2 == 0 { "auto" } else { "1" } } else { mode };
                    rep.eval();
                    let r = match http_client::post_text(&addr, &format!("/sql?format={}&distributed={}", fmt, mode), &sql, T).await {
                        Ok(r) => r,
                        Err(e) => {
                            rep.inconclusive("http-client-error");
                            rep.set("http_error", json!(e.to_string()));
                            continue;
                        }
                    };
                    let replay = |what: &str| json!({"sql": sql, "format": fmt, "mode": mode, "nodes": n_nodes, "what": what, "status": r.status, "headers": r.headers, "body_head": String::from_utf8_lossy(&r.body[..r.body.len().min(600)]), "expected_rows": crate::canon::rows_json(&want.rows, 20), "tables": crate::sqldiff::db_json(&db, 40)});
                    if r.status != 200 {
                        // a refusal is allowed for forced distribution of shapes the cluster cannot serve; for 0/auto the local engine answered the reference
                        if mode == "1" {
                            rep.inconclusive("forced-distribution-refused(allowed)");
                        } else {
                            rep.fail(&format!("front-door-refuses:{}:{}", mode, r.status), &format!("{} [format={} distributed={} nodes={}] :: HTTP {} but ctx.sql answers {} rows: {}", sql, fmt, mode, n_nodes, r.status, want.rows.len(), r.text().chars().take(160).collect::<String>()), replay("refused"));
                        }
                        continue;
                    }
                    let got: Result<Vec<Row>, String> = match fmt {
                        "arrow" => decode_arrow(&r.body).map(|b| batches_to_rows(&b)),
                        "json" => json_rows(&r.body, &want.names, &want.types),
                        _ => csv_rows(&r.body, &want.names, &want.types, &want.rows),
                    };
                    let distributed = header(&r, "x-qe-distributed");
                    let skipped = header(&r, "x-qe-distributed-skipped");
                    rep.nontrivial(&("answer", fmt, mode, n_nodes, q.skeleton()));
                    match got {
                        Err(e) => rep.fail(&format!("body-undecodable:{}", fmt), &format!("{} [format={}] :: {}", sql, fmt, e), replay(&e)),
                        Ok(rows) => {
                            let (a, b) = if fmt == "csv" { (fold_null_strings(&rows, &want.types), fold_null_strings(&want.rows, &want.types)) } else { (rows, want.rows.clone()) };
                            if let Err(why) = same_answer(&a, &b, &q) {
                                let kind = if distributed == Some("true") { "distributed" } else { "local" };
                                rep.fail(&format!("body-differs:{}:{}", fmt, kind), &format!("{} [format={} distributed={} nodes={} x-qe-distributed={:?}] :: {}", sql, fmt, mode, n_nodes, distributed, why), replay(&why));
                            }
                            if header(&r, "x-qe-rows").and_then(|s| s.parse::<usize>().ok()) != Some(b.len()) {
                                rep.fail("x-qe-rows-wrong", &format!("{} :: x-qe-rows = {:?}, the body holds {} rows", sql, header(&r, "x-qe-rows"), b.len()), replay("x-qe-rows"));
                            }
                        }
                    }
                    // decisions
                    match distributed {
                        None => rep.fail("decision-header-missing", &format!("{} :: no x-qe-distributed header", sql), replay("header")),
                        Some("true") => {
                            let shards = header(&r, "x-qe-shards").and_then(|s| s.parse::<usize>().ok()).unwrap_or(0);
                            if mode == "0" {
                                rep.fail("distributed-although-off", &format!("{} :: distributed=0 but x-qe-distributed=true", sql), replay("mode"));
                            } else if mode == "auto" && n_nodes < 2 {
                                rep.fail("auto-distributed:single-member", &format!("{} [nodes={}] :: auto mode distributed ({} shards)", sql, n_nodes, shards), replay("single-member"));
                            } else if mode == "auto" && shards < 2 {
                                // two members are up (the property's condition); a table of one split
                                // gives work to one of them only. Observed, not judged.
                                rep.count("auto_distributed_with_work_on_one_member_only", 1);
                            }
                            rep.count("answers_distributed", 1);
                        }
                        Some(_) => {
                            if mode == "1" {
                                rep.fail("local-although-forced", &format!("{} :: distributed=1 but x-qe-distributed=false", sql), replay("forced"));
                            } else if skipped.map(|s| s.trim().is_empty()).unwrap_or(true) {
                                rep.fail("local-without-reason", &format!("{} [distributed={}] :: answered locally without x-qe-distributed-skipped", sql, mode), replay("reason"));
                            }
                            rep.count("answers_local", 1);
                        }
                    }
                }
                // peers go away: auto must fall back to local WITH a reason once membership notices
                if n_nodes >= 2 {
                    let mut it = nodes.into_iter();
                    let first = it.next().unwrap();
                    for n in it {
                        n.h.shutdown().await;
                    }
                    let a0 = first.h.local_addr().to_string();
                    if wait_members(&a0, 1, Duration::from_secs(20)).await {
                        let sql = format!("SELECT COUNT(*) FROM {}", names[0]);
                        rep.eval();
                        if let Ok(r) = http_client::post_text(&a0, "/sql?format=json&distributed=auto", &sql, T).await {
                            if r.status != 200 || header(&r, "x-qe-distributed") != Some("false") || header(&r, "x-qe-distributed-skipped").is_none() {
                                rep.fail("auto-after-peers-left", &format!("status {} x-qe-distributed={:?} skipped={:?}", r.status, header(&r, "x-qe-distributed"), header(&r, "x-qe-distributed-skipped")), json!({"status": r.status, "headers": r.headers}));
                            } else {
                                rep.nontrivial(&("peers-left", n_nodes));
                            }
                        }
                    } else {
                        rep.inconclusive("membership-did-not-notice-departure");
                    }
                    first.h.shutdown().await;
                } else {
                    stop(nodes).await;
                }
            }

            // ---- (d) no local fallback after a distributed failure ------------
            for scenario in ["peer-data-differs", "peer-died-still-listed"] {
                let dirs = if scenario == "peer-data-differs" { vec![dir.join("data"), dir.join("data_differs")] } else { vec![dir.join("data")] };
                let mut nodes = Vec::new();
                for i in 0..2usize {
                    let mut o = opts(i as u64 + 1);
                    if scenario == "peer-died-still-listed" {
                        // one probe round, then none for an hour: the dead peer stays Up in the view
                        o.discovery_interval = Duration::from_secs(3600);
                    }
                    let h = spawn(o, loader_for(dirs[i % dirs.len()].clone(), names.clone())).await.map_err(|e| e.to_string())?;
                    nodes.push(Node { h });
                }
                let addrs: Vec<String> = nodes.iter().map(|x| x.h.address().to_string()).collect();
                for x in &nodes {
                    x.h.set_peers(addrs.clone());
                }
                let a0 = nodes[0].h.local_addr().to_string();
                let mut ok = true;
                for n in &nodes {
                    ok &= wait_ready(&n.h.local_addr().to_string(), true, Duration::from_secs(30)).await;
                }
                if !ok || !wait_members(&a0, 2, Duration::from_secs(20)).await {
                    rep.inconclusive("cluster-did-not-converge");
                    stop(nodes).await;
                    continue;
                }
                let mut peer = nodes.pop();
                if scenario == "peer-died-still-listed" {
                    if let Some(p) = peer.take() {
                        p.h.shutdown().await;
                    }
                }
                // statements over the table whose copies differ (names[0]); only shapes auto distributes matter
                for (k, sql) in [format!("SELECT COUNT(*) FROM {}", names[0]), format!("SELECT id FROM {} WHERE id >= 0", names[0]), format!("SELECT COUNT(*), MIN(id), MAX(id) FROM {}", names[0])].iter().enumerate() {
                    for mode in ["auto", "1"] {
                        rep.eval();
                        match http_client::post_text(&a0, &format!("/sql?format=json&distributed={}", mode), sql, T).await {
                            Ok(r) => {
                                if r.status == 200 && header(&r, "x-qe-distributed") == Some("false") && mode == "auto" && scenario == "peer-data-differs" {
                                    // auto decided not to distribute at all (capability reason given): nothing failed, nothing to fall back from
                                    rep.inconclusive("auto-chose-local-before-any-fan-out");
                                } else if r.status == 200 && peer_not_involved(&r) {
                                    // the table is one split and it went to the asked node itself: no fragment
                                    // was sent to the peer, so nothing failed
                                    rep.inconclusive("peer-got-no-work(nothing-failed)");
                                } else if r.status == 200 {
                                    rep.fail(&format!("answer-after-distributed-failure:{}:{}", scenario, mode), &format!("{} [distributed={} {}] :: HTTP 200 (x-qe-distributed={:?}, skipped={:?}) although the peer cannot serve its shard", sql, mode, scenario, header(&r, "x-qe-distributed"), header(&r, "x-qe-distributed-skipped")), json!({"sql": sql, "mode": mode, "scenario": scenario, "headers": r.headers, "body": r.text().chars().take(300).collect::<String>()}));
                                } else {
                                    rep.nontrivial(&("failure-surfaces", scenario, mode, k));
                                    rep.count("distributed_failures_surfaced", 1);
                                }
                            }
                            Err(_) => rep.inconclusive("http-client-error"),
                        }
                    }
                }
                if let Some(p) = peer.take() {
                    p.h.shutdown().await;
                }
                stop(nodes).await;
            }
            let _ = std::fs::remove_dir_all(&dir);
        }
        Ok(())
    });
    if let Err(e) = result {
        rep.inconclusive("harness-error");
        rep.set("harness_error", json!(e));
    }
    let dist = rep.extra.get("answers_distributed").and_then(|v| v.as_u64()).unwrap_or(0);
    let local = rep.extra.get("answers_local").and_then(|v| v.as_u64()).unwrap_or(0);
    let surfaced = rep.extra.get("distributed_failures_surfaced").and_then(|v| v.as_u64()).unwrap_or(0);
    rep.floor(dist > 0 && local > 0, "both distributed and local answers must be observed");
    rep.floor(surfaced > 0, "no distributed failure was provoked");
    rep.assumptions.push("whether a shape is exactly mergeable is judged by its distributed answer equalling the single-node answer, not by a syntactic classification (a first version flagged a correlated scalar subquery in the SELECT list, which every shard answers exactly from its full copy of the other table)".into());
    rep.assumptions.push("CSV cannot distinguish NULL from the empty string; both sides are folded before comparing".into());
    rep.finish()
}

// ---------------------------------------------------------------------------
// C34

use arrow_flight::decode::{DecodedPayload, FlightDataDecoder};
use arrow_flight::flight_service_client::FlightServiceClient;
use arrow_flight::{FlightDescriptor, Ticket};

struct FlightAnswer {
    schema_names: Vec<String>,
    schema_types: Vec<String>,
    rows: Vec<Row>,
    trailer: Option<Value>,
    info_schema: Vec<(String, String)>,
}

async fn connect_flight(addr: &str) -> Result<FlightServiceClient<tonic::transport::Channel>, String> {
    let ch = tonic::transport::Channel::from_shared(format!("http://{}", addr)).map_err(|e| format!("uri: {}", e))?.connect().await.map_err(|e| format!("connect: {}", e))?;
    Ok(FlightServiceClient::new(ch).max_decoding_message_size(64 << 20))
}

async fn flight_query(addr: &str, cmd: Vec<u8>) -> Result<FlightAnswer, String> {
    let mut c = connect_flight(addr).await?;
    let info = c.get_flight_info(FlightDescriptor::new_cmd(cmd)).await.map_err(|s| format!("GetFlightInfo: {:?}: {}", s.code(), s.message()))?.into_inner();
    let info_schema: Vec<(String, String)> = info.clone().try_decode_schema().map(|s| s.fields().iter().map(|f| (f.name().clone(), crate::checks::meta::erase(f.data_type()))).collect()).unwrap_or_default();
    let ep = info.endpoint.first().ok_or("FlightInfo without endpoint")?;
    let ticket = ep.ticket.clone().ok_or("endpoint without ticket")?;
    do_get(&mut c, ticket, info_schema).await
}

async fn do_get(c: &mut FlightServiceClient<tonic::transport::Channel>, ticket: Ticket, info_schema: Vec<(String, String)>) -> Result<FlightAnswer, String> {
    let stream = c.do_get(ticket).await.map_err(|s| format!("DoGet: {:?}: {}", s.code(), s.message()))?.into_inner();
    let mut dec = FlightDataDecoder::new(stream.map_err(|e| arrow_flight::error::FlightError::Tonic(Box::new(e))));
    let mut batches = Vec::new();
    let mut trailer = None;
    let (mut names, mut types) = (Vec::new(), Vec::new());
    while let Some(m) = dec.try_next().await.map_err(|e| format!("stream: {}", e))? {
        if !m.inner.app_metadata.is_empty() {
            trailer = serde_json::from_slice::<Value>(&m.inner.app_metadata).ok();
        }
        match m.payload {
            DecodedPayload::Schema(s) => {
                names = s.fields().iter().map(|f| f.name().clone()).collect();
                types = s.fields().iter().map(|f| crate::checks::meta::erase(f.data_type())).collect();
            }
            DecodedPayload::RecordBatch(b) => batches.push(b),
            DecodedPayload::None => {}
        }
    }
    Ok(FlightAnswer { schema_names: names, schema_types: types, rows: batches_to_rows(&batches), trailer, info_schema })
}

pub fn run_c34(tier: Tier, seed: u64) -> i32 {
    let mut rep = Report::new(
        "C34",
        tier,
        seed,
        "exploration",
        "in-process nodes (HTTP + Arrow Flight on loopback) over generated Parquet catalogs, single node and 2-3 node clusters; statements of all distributed shapes plus results of more than 4096 rows, empty results and failing statements, in modes auto/force/off: GetFlightInfo then DoGet on the returned ticket must give the schema and rows of POST /sql?format=arrow with the same mode (sequence under a total ORDER BY with LIMIT, multiset otherwise), GetFlightInfo's schema must equal the streamed schema, both doors must take the same distribution decision (trailer `distributed` vs x-qe-distributed) and the trailer's row count must equal the rows streamed; a statement one door refuses the other must refuse. Tickets that are not JSON, carry another version, an unknown mode, no sql, or exceed 1 MiB must be refused. distinct = distinct (statement skeleton, mode, cluster size, result-size class)",
    );
    let scratch = Scratch::new("c34");
    let rounds = tier.pick(3usize, 10);
    let per_round = tier.pick(36usize, 120);
    let sp = scratch.path().to_path_buf();
    let result: Result<(), String> = rt().block_on(async {
        for round in 0..rounds {
            let mut rng = Rng::new(seed.wrapping_mul(9_000_011).wrapping_add(round as u64) ^ 0xC34);
            let mut db = gen_db(&mut rng, 2, if round % 3 == 0 { SizeClass::Medium } else { SizeClass::Small });
            for t in db.iter_mut() {
                if t.rows.is_empty() {
                    let spec = crate::qgen::TableSpec { rows: 4, null_pct: 30, key: crate::qgen::KeyClass::DenseDup, not_null: false };
                    *t = crate::qgen::gen_table(&mut rng, &t.name.clone(), &spec);
                }
            }
            let names: Vec<String> = db.iter().map(|t| t.name.clone()).collect();
            let dir = sp.join(format!("r{}", round));
            let o = PqOpts { files: *rng.pick(&[1usize, 2]), rg_rows: *rng.pick(&[100usize, 1000, 1 << 20]), dictionary: rng.bool(), snappy: rng.bool(), stats: true };
            if pq_ctx(&dir.join("data"), &db, &o).is_none() {
                continue;
            }
            let n_nodes = 1 + round % 3;
            let nodes = start(n_nodes, &[dir.join("data")], &names).await;
            let http = nodes[0].h.local_addr().to_string();
            let Some(fl) = nodes[0].h.flight_addr().map(|a| a.to_string()) else {
                rep.inconclusive("no-flight-endpoint");
                stop(nodes).await;
                continue;
            };
            let mut ready = true;
            for n in &nodes {
                ready &= wait_ready(&n.h.local_addr().to_string(), true, Duration::from_secs(30)).await;
            }
            if !ready || !wait_members(&http, n_nodes, Duration::from_secs(20)).await {
                rep.inconclusive("cluster-did-not-converge");
                stop(nodes).await;
                continue;
            }
            let big = db.iter().max_by_key(|t| t.rows.len()).unwrap();
            for qi in 0..per_round {
                let mut qrng = rng.fork(qi as u64);
                let (q, sql, class): (Option<GenQuery>, String, &str) = match qi % 9 {
                    0 => (None, format!("SELECT * FROM {}", big.name), if big.rows.len() > 4096 { "more-than-4096-rows" } else { "full-table" }),
                    1 => (None, format!("SELECT id FROM {} WHERE id < 0", big.name), "empty"),
                    2 => (None, qrng.pick(&["SELECT nope FROM nowhere", "SELEC 1", "SELECT id FROM", "SELECT 1 +"]).to_string(), "error"),
                    3 => (None, format!("SELECT a.id, b.id FROM {} a, {} b WHERE a.id = b.id", big.name, big.name), "self-join"),
                    _ => {
                        let q = dist_stmt(&mut qrng, &db);
                        let s = q.engine_sql();
                        (Some(q), s, "generated")
                    }
                };
                let mode = *qrng.pick(&["auto", "auto", "force", "off"]);
                let http_mode = match mode {
                    "force" => "1",
                    "off" => "0",
                    _ => "auto",
                };
                rep.eval();
                let h = match http_client::post_text(&http, &format!("/sql?format=arrow&distributed={}", http_mode), &sql, T).await {
                    Ok(r) => r,
                    Err(_) => {
                        rep.inconclusive("http-client-error");
                        continue;
                    }
                };
                let cmd = json!({"sql": sql, "mode": mode}).to_string().into_bytes();
                let f = flight_query(&fl, cmd).await;
                let replay = |what: &str| json!({"sql": sql, "mode": mode, "nodes": n_nodes, "what": what, "http_status": h.status, "http_headers": h.headers, "tables": crate::sqldiff::db_json(&db, 30)});
                let skeleton = q.as_ref().map(|q| q.skeleton()).unwrap_or_else(|| class.to_string());
                match (h.status == 200, &f) {
                    (false, Err(_)) => {
                        rep.nontrivial(&("both-refuse", class, mode, n_nodes));
                    }
                    (false, Ok(a)) => rep.fail(&format!("flight-answers-http-refuses:{}", class), &format!("{} [{}] :: HTTP {} ({}), Flight returned {} rows", sql, mode, h.status, h.text().chars().take(120).collect::<String>(), a.rows.len()), replay("flight answers, http refuses")),
                    (true, Err(e)) => rep.fail(&format!("http-answers-flight-refuses:{}", class), &format!("{} [{}] :: HTTP 200, Flight: {}", sql, mode, e), replay(e)),
                    (true, Ok(a)) => {
                        rep.nontrivial(&(skeleton, mode, n_nodes, class));
                        let hb = match decode_arrow(&h.body) {
                            Ok(b) => b,
                            Err(e) => {
                                rep.fail("http-arrow-undecodable", &e, replay(&e));
                                continue;
                            }
                        };
                        let hrows = batches_to_rows(&hb);
                        let (hn, ht): (Vec<String>, Vec<String>) = arrow::ipc::reader::StreamReader::try_new(std::io::Cursor::new(&h.body[..]), None).map(|r| (r.schema().fields().iter().map(|f| f.name().clone()).collect(), r.schema().fields().iter().map(|f| crate::checks::meta::erase(f.data_type())).collect())).unwrap_or_default();
                        if hn != a.schema_names || ht != a.schema_types {
                            rep.fail("schema-differs", &format!("{} :: HTTP schema {:?}/{:?}, Flight schema {:?}/{:?}", sql, hn, ht, a.schema_names, a.schema_types), replay("schema"));
                        }
                        let streamed: Vec<(String, String)> = a.schema_names.iter().cloned().zip(a.schema_types.iter().cloned()).collect();
                        if !a.info_schema.is_empty() && a.info_schema != streamed {
                            rep.fail("flightinfo-schema-differs-from-stream", &format!("{} :: GetFlightInfo {:?}, DoGet stream {:?}", sql, a.info_schema, streamed), replay("flightinfo schema"));
                        }
                        let cmp = match &q {
                            Some(q) => same_answer(&a.rows, &hrows, q),
                            None => multiset_eq(&a.rows, &hrows),
                        };
                        if let Err(why) = cmp {
                            rep.fail(&format!("rows-differ:{}", class), &format!("{} [{} nodes={}] :: Flight vs HTTP: {}", sql, mode, n_nodes, why), replay(&why));
                        }
                        match &a.trailer {
                            None => rep.fail("trailer-missing", &format!("{} :: no app_metadata trailer on the Flight stream", sql), replay("trailer")),
                            Some(t) => {
                                if t["rows"].as_u64() != Some(a.rows.len() as u64) {
                                    rep.fail("trailer-row-count", &format!("{} :: trailer rows = {}, streamed {}", sql, t["rows"], a.rows.len()), replay("trailer rows"));
                                }
                                let hd = header(&h, "x-qe-distributed") == Some("true");
                                if t["distributed"].as_bool() != Some(hd) {
                                    rep.fail("decision-differs", &format!("{} [{}] :: HTTP x-qe-distributed={}, Flight trailer distributed={}", sql, mode, hd, t["distributed"]), replay("decision"));
                                }
                                if hd {
                                    rep.count("compared_distributed", 1);
                                } else {
                                    rep.count("compared_local", 1);
                                }
                            }
                        }
                        if a.rows.len() > 4096 {
                            rep.count("results_over_4096_rows", 1);
                        }
                        if a.rows.is_empty() {
                            rep.count("empty_results", 1);
                        }
                    }
                }
            }
            // malformed tickets
            if let Ok(mut c) = connect_flight(&fl).await {
                let good_sql = format!("SELECT COUNT(*) FROM {}", names[0]);
                let tickets: Vec<(&str, Vec<u8>)> = vec![
                    ("not-json", b"SELECT 1".to_vec()),
                    ("empty", Vec::new()),
                    ("other-version", json!({"v": 2, "sql": good_sql, "mode": "auto"}).to_string().into_bytes()),
                    ("version-zero", json!({"v": 0, "sql": good_sql}).to_string().into_bytes()),
                    ("no-version", json!({"sql": good_sql}).to_string().into_bytes()),
                    ("no-sql", json!({"v": 1, "mode": "auto"}).to_string().into_bytes()),
                    ("unknown-mode", json!({"v": 1, "sql": good_sql, "mode": "sometimes"}).to_string().into_bytes()),
                    ("oversized", json!({"v": 1, "sql": format!("SELECT '{}'", "x".repeat(1_100_000)), "mode": "auto"}).to_string().into_bytes()),
                    ("truncated-json", json!({"v": 1, "sql": good_sql}).to_string().into_bytes()[..12].to_vec()),
                    ("binary", vec![0xff, 0xfe, 0x00, 0x01]),
                ];
                for (kind, t) in tickets {
                    rep.eval();
                    match do_get(&mut c, Ticket::new(t), Vec::new()).await {
                        Err(_) => rep.nontrivial(&("ticket-refused", kind)),
                        Ok(a) => rep.fail(&format!("bad-ticket-served:{}", kind), &format!("a {} ticket was served: {} rows", kind, a.rows.len()), json!({"ticket": kind, "rows": a.rows.len()})),
                    }
                }
                // positive control: the well-formed ticket is served
                rep.eval();
                match do_get(&mut c, Ticket::new(json!({"v": 1, "sql": good_sql, "mode": "auto"}).to_string().into_bytes()), Vec::new()).await {
                    Ok(_) => rep.count("wellformed_tickets_served", 1),
                    Err(e) => rep.fail("good-ticket-refused", &e, json!({"error": e})),
                }
            }
            stop(nodes).await;
            let _ = std::fs::remove_dir_all(&dir);
        }
        Ok(())
    });
    if let Err(e) = result {
        rep.inconclusive("harness-error");
        rep.set("harness_error", json!(e));
    }
    let d = rep.extra.get("compared_distributed").and_then(|v| v.as_u64()).unwrap_or(0);
    let l = rep.extra.get("compared_local").and_then(|v| v.as_u64()).unwrap_or(0);
    rep.floor(d > 0 && l > 0, "both distributed and local answers must be compared");
    rep.floor(rep.extra.get("wellformed_tickets_served").and_then(|v| v.as_u64()).unwrap_or(0) > 0, "the well-formed ticket control was never served");
    rep.finish()
}

#[allow(dead_code)]
fn _unused(_: &Path, _: &Table, _: Ty, _: Arc<ExecutionContext>) {
    let _ = cell_eq;
}
