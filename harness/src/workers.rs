//! Per-configuration worker processes (DESIGN.md 2.1).
//!
//! Several engine knobs are latched per process (QE_COMPILE, QE_IPC_CACHE,
//! QE_MORSEL, RAYON_NUM_THREADS). A check that compares configurations spawns
//! one worker process of this same binary per configuration; each worker
//! regenerates the same seeded cases, runs them under its environment and
//! prints one JSON line per executed statement. The driver compares the lines.

use crate::canon::Row;
use crate::data::Cell;
use crate::eng::Outcome;
use crate::report::Tier;
use serde_json::{json, Value};
use std::collections::BTreeMap;
use std::io::Write;

pub fn cell_to_wire(c: &Cell) -> Value {
    match c {
        Cell::Null => Value::Null,
        Cell::Int(i) => json!(i),
        Cell::F(f) => {
            if f.is_finite() {
                json!({"f": f})
            } else {
                json!({"f": format!("{}", f)})
            }
        }
        Cell::S(s) => json!(s),
        Cell::Date(d) => json!({"d": d}),
        Cell::Bool(b) => json!(b),
    }
}

pub fn cell_from_wire(v: &Value) -> Cell {
    match v {
        Value::Null => Cell::Null,
        Value::Bool(b) => Cell::Bool(*b),
        Value::Number(n) => Cell::Int(n.as_i64().unwrap_or(0)),
        Value::String(s) => Cell::S(s.clone()),
        Value::Object(o) => {
            if let Some(f) = o.get("f") {
                match f {
                    Value::Number(n) => Cell::F(n.as_f64().unwrap_or(0.0)),
                    Value::String(s) => Cell::F(match s.as_str() {
                        "NaN" => f64::NAN,
                        "inf" => f64::INFINITY,
                        "-inf" => f64::NEG_INFINITY,
                        _ => 0.0,
                    }),
                    _ => Cell::Null,
                }
            } else if let Some(d) = o.get("d") {
                Cell::Date(d.as_i64().unwrap_or(0) as i32)
            } else {
                Cell::Null
            }
        }
        _ => Cell::Null,
    }
}

pub fn outcome_to_wire(o: &Outcome) -> Value {
    match o {
        Outcome::Ok(a) => json!({"ok": a.rows.iter().map(|r| Value::Array(r.iter().map(cell_to_wire).collect())).collect::<Vec<_>>(), "names": a.names, "types": a.types.iter().map(|t| format!("{:?}", t)).collect::<Vec<_>>()}),
        Outcome::Err(e) => json!({"err": e}),
        Outcome::Panic(e) => json!({"panic": e}),
        Outcome::Timeout => json!({"timeout": true}),
    }
}

#[derive(Clone, Debug)]
pub enum WireOutcome {
    Ok { rows: Vec<Row>, names: Vec<String>, types: Vec<String> },
    Err(String),
    Panic(String),
    Timeout,
}

impl WireOutcome {
    pub fn short(&self) -> String {
        match self {
            WireOutcome::Ok { rows, .. } => format!("ok({} rows)", rows.len()),
            WireOutcome::Err(e) => format!("err({})", e.chars().take(160).collect::<String>()),
            WireOutcome::Panic(e) => format!("panic({})", e.chars().take(160).collect::<String>()),
            WireOutcome::Timeout => "timeout".into(),
        }
    }
    pub fn json(&self, max: usize) -> Value {
        match self {
            WireOutcome::Ok { rows, .. } => json!({"ok": crate::canon::rows_json(rows, max), "n": rows.len()}),
            WireOutcome::Err(e) => json!({"err": e}),
            WireOutcome::Panic(e) => json!({"panic": e}),
            WireOutcome::Timeout => json!("timeout"),
        }
    }
}

pub fn outcome_from_wire(v: &Value) -> WireOutcome {
    if let Some(rows) = v.get("ok").and_then(|x| x.as_array()) {
        WireOutcome::Ok {
            rows: rows.iter().map(|r| r.as_array().map(|a| a.iter().map(cell_from_wire).collect()).unwrap_or_default()).collect(),
            names: v["names"].as_array().map(|a| a.iter().map(|x| x.as_str().unwrap_or("").to_string()).collect()).unwrap_or_default(),
            types: v["types"].as_array().map(|a| a.iter().map(|x| x.as_str().unwrap_or("").to_string()).collect()).unwrap_or_default(),
        }
    } else if let Some(e) = v.get("err") {
        WireOutcome::Err(e.as_str().unwrap_or("").to_string())
    } else if let Some(e) = v.get("panic") {
        WireOutcome::Panic(e.as_str().unwrap_or("").to_string())
    } else {
        WireOutcome::Timeout
    }
}

/// Called by worker-side code for every executed statement.
pub struct Emitter {
    out: std::io::BufWriter<std::io::Stdout>,
}

impl Emitter {
    pub fn new() -> Self {
        Emitter { out: std::io::BufWriter::new(std::io::stdout()) }
    }
    pub fn emit(&mut self, key: &str, sql: &str, o: &Outcome, extra: Value) {
        let line = json!({"key": key, "sql": sql, "out": outcome_to_wire(o), "extra": extra});
        let _ = writeln!(self.out, "{}", line);
    }
    pub fn emit_value(&mut self, key: &str, v: Value) {
        let line = json!({"key": key, "value": v});
        let _ = writeln!(self.out, "{}", line);
    }
    pub fn done(mut self) {
        let _ = writeln!(self.out, "{}", json!({"done": true, "counters": counters_json()}));
        let _ = self.out.flush();
    }
}

pub fn counters_json() -> Value {
    let m: BTreeMap<String, u64> = query_engine::verif::counters().into_iter().collect();
    json!(m)
}

#[derive(Clone, Debug)]
pub struct WorkerSpec {
    pub name: String,
    pub env: Vec<(String, String)>,
}

impl WorkerSpec {
    pub fn new(name: &str, env: &[(&str, &str)]) -> Self {
        WorkerSpec { name: name.to_string(), env: env.iter().map(|(k, v)| (k.to_string(), v.to_string())).collect() }
    }
}

#[derive(Clone, Debug)]
pub struct Line {
    pub sql: String,
    pub out: WireOutcome,
    pub extra: Value,
    pub value: Value,
}

pub struct WorkerResult {
    pub lines: BTreeMap<String, Line>,
    pub counters: BTreeMap<String, u64>,
    pub completed: bool,
    pub exit: Option<i32>,
    pub stderr_tail: String,
}

/// Spawn one worker per (spec, shard); returns spec name -> merged result.
pub fn run_workers(check: &str, tier: Tier, seed: u64, specs: &[WorkerSpec], shards: usize, extra_args: &[String]) -> BTreeMap<String, WorkerResult> {
    let exe = crate::eng::self_exe();
    let base = std::env::var("QE_VERIF_SCRATCH").unwrap_or_else(|_| "/var/tmp".into());
    let mut children = Vec::new();
    for spec in specs {
        for sh in 0..shards {
            let tmp = std::path::PathBuf::from(&base).join(format!("qe-verif.w.{}.{}.{}.{}", std::process::id(), check, spec.name, sh));
            let _ = std::fs::remove_dir_all(&tmp);
            std::fs::create_dir_all(&tmp).unwrap();
            let mut c = std::process::Command::new(&exe);
            c.arg("worker").arg(check).arg(tier.name()).arg(seed.to_string()).arg(sh.to_string()).arg(shards.to_string());
            for a in extra_args {
                c.arg(a);
            }
            c.env("TMPDIR", &tmp).env("QE_VERIF_SCRATCH", &tmp);
            for (k, v) in &spec.env {
                if v == "<unset>" {
                    c.env_remove(k);
                } else {
                    c.env(k, v);
                }
            }
            c.stdout(std::process::Stdio::piped()).stderr(std::process::Stdio::piped());
            let ch = c.spawn().expect("spawn worker");
            children.push((spec.name.clone(), tmp, ch));
        }
    }
    let mut out: BTreeMap<String, WorkerResult> = BTreeMap::new();
    for (name, tmp, ch) in children {
        let o = ch.wait_with_output().expect("worker output");
        let _ = std::fs::remove_dir_all(&tmp);
        let e = out.entry(name).or_insert(WorkerResult { lines: BTreeMap::new(), counters: BTreeMap::new(), completed: true, exit: Some(0), stderr_tail: String::new() });
        let mut done = false;
        for l in String::from_utf8_lossy(&o.stdout).lines() {
            let Ok(v) = serde_json::from_str::<Value>(l) else { continue };
            if v.get("done").is_some() {
                done = true;
                if let Some(c) = v["counters"].as_object() {
                    for (k, n) in c {
                        *e.counters.entry(k.clone()).or_insert(0) += n.as_u64().unwrap_or(0);
                    }
                }
                continue;
            }
            let key = v["key"].as_str().unwrap_or("").to_string();
            e.lines.insert(
                key,
                Line { sql: v["sql"].as_str().unwrap_or("").to_string(), out: outcome_from_wire(&v["out"]), extra: v["extra"].clone(), value: v["value"].clone() },
            );
        }
        if !done {
            e.completed = false;
            e.exit = o.status.code();
            let se = String::from_utf8_lossy(&o.stderr);
            e.stderr_tail = se.lines().rev().take(15).collect::<Vec<_>>().into_iter().rev().collect::<Vec<_>>().join("\n");
        }
    }
    out
}
