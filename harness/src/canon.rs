//! Canonical rows and result comparison (DESIGN.md 2.4).

use crate::data::Cell;
use arrow::array::*;
use arrow::datatypes::*;
use arrow::record_batch::RecordBatch;
use std::cmp::Ordering;

pub type Row = Vec<Cell>;

fn cell_of(a: &dyn Array, i: usize) -> Cell {
    if a.is_null(i) {
        return Cell::Null;
    }
    macro_rules! prim {
        ($t:ty, $f:expr) => {{
            let v = a.as_any().downcast_ref::<PrimitiveArray<$t>>().unwrap().value(i);
            $f(v)
        }};
    }
    match a.data_type() {
        DataType::Null => Cell::Null,
        DataType::Boolean => Cell::Bool(a.as_any().downcast_ref::<BooleanArray>().unwrap().value(i)),
        DataType::Int8 => prim!(Int8Type, |v| Cell::Int(v as i64)),
        DataType::Int16 => prim!(Int16Type, |v| Cell::Int(v as i64)),
        DataType::Int32 => prim!(Int32Type, |v| Cell::Int(v as i64)),
        DataType::Int64 => prim!(Int64Type, |v| Cell::Int(v)),
        DataType::UInt8 => prim!(UInt8Type, |v| Cell::Int(v as i64)),
        DataType::UInt16 => prim!(UInt16Type, |v| Cell::Int(v as i64)),
        DataType::UInt32 => prim!(UInt32Type, |v| Cell::Int(v as i64)),
        DataType::UInt64 => prim!(UInt64Type, |v: u64| if v <= i64::MAX as u64 {
            Cell::Int(v as i64)
        } else {
            Cell::F(v as f64)
        }),
        DataType::Float32 => prim!(Float32Type, |v| Cell::F(v as f64)),
        DataType::Float64 => prim!(Float64Type, |v| Cell::F(v)),
        DataType::Date32 => prim!(Date32Type, |v| Cell::Date(v)),
        DataType::Date64 => prim!(Date64Type, |v: i64| Cell::Date((v.div_euclid(86_400_000)) as i32)),
        DataType::Utf8 => Cell::S(a.as_any().downcast_ref::<StringArray>().unwrap().value(i).to_string()),
        DataType::LargeUtf8 => {
            Cell::S(a.as_any().downcast_ref::<LargeStringArray>().unwrap().value(i).to_string())
        }
        DataType::Utf8View => {
            Cell::S(a.as_any().downcast_ref::<StringViewArray>().unwrap().value(i).to_string())
        }
        DataType::Decimal128(_, scale) => {
            let v = a.as_any().downcast_ref::<Decimal128Array>().unwrap().value(i);
            Cell::F(v as f64 / 10f64.powi(*scale as i32))
        }
        DataType::Dictionary(_, v) => {
            let c = arrow::compute::cast(&a.slice(i, 1), v).expect("dict cast");
            cell_of(c.as_ref(), 0)
        }
        _ => {
            let s = arrow::util::display::array_value_to_string(a, i).unwrap_or_else(|_| "?".into());
            Cell::S(s)
        }
    }
}

pub fn batches_to_rows(batches: &[RecordBatch]) -> Vec<Row> {
    let mut out = Vec::new();
    for b in batches {
        for i in 0..b.num_rows() {
            out.push(b.columns().iter().map(|c| cell_of(c.as_ref(), i)).collect());
        }
    }
    out
}

pub const REL_TOL: f64 = 1e-9;

fn f_eq(a: f64, b: f64) -> bool {
    if a.is_nan() && b.is_nan() {
        return true;
    }
    if a == b {
        return true;
    }
    if a.is_infinite() || b.is_infinite() {
        return false;
    }
    (a - b).abs() <= REL_TOL * 1f64.max(a.abs()).max(b.abs())
}

pub fn cell_eq(a: &Cell, b: &Cell) -> bool {
    match (a, b) {
        (Cell::Null, Cell::Null) => true,
        (Cell::Int(x), Cell::Int(y)) => x == y,
        (Cell::Int(x), Cell::F(y)) | (Cell::F(y), Cell::Int(x)) => f_eq(*x as f64, *y),
        (Cell::F(x), Cell::F(y)) => f_eq(*x, *y),
        (Cell::S(x), Cell::S(y)) => x == y,
        (Cell::Date(x), Cell::Date(y)) => x == y,
        (Cell::Bool(x), Cell::Bool(y)) => x == y,
        // the SQLite arbiter stores dates as ISO text
        (Cell::Date(d), Cell::S(s)) | (Cell::S(s), Cell::Date(d)) => crate::data::date_to_string(*d) == *s,
        // booleans may come back as 0/1 integers from some paths
        (Cell::Bool(x), Cell::Int(y)) | (Cell::Int(y), Cell::Bool(x)) => (*x as i64) == *y,
        _ => false,
    }
}

fn rank(c: &Cell) -> u8 {
    match c {
        Cell::Null => 0,
        Cell::Bool(_) => 1,
        Cell::Int(_) | Cell::F(_) => 1,
        Cell::S(_) => 3,
        Cell::Date(_) => 3,
    }
}

/// Total order used only to line rows up for multiset comparison.
pub fn cell_cmp(a: &Cell, b: &Cell) -> Ordering {
    let (ra, rb) = (rank(a), rank(b));
    if ra != rb {
        return ra.cmp(&rb);
    }
    match (a, b) {
        (Cell::Int(x), Cell::Int(y)) => x.cmp(y),
        (Cell::S(x), Cell::S(y)) => x.cmp(y),
        (Cell::Date(x), Cell::Date(y)) => x.cmp(y),
        (Cell::Date(x), Cell::S(y)) => crate::data::date_to_string(*x).cmp(y),
        (Cell::S(x), Cell::Date(y)) => x.cmp(&crate::data::date_to_string(*y)),
        (Cell::Null, Cell::Null) => Ordering::Equal,
        _ => {
            let fx = match a {
                Cell::Bool(b) => *b as i64 as f64,
                _ => a.as_f64().unwrap_or(0.0),
            };
            let fy = match b {
                Cell::Bool(b) => *b as i64 as f64,
                _ => b.as_f64().unwrap_or(0.0),
            };
            // Round to tolerance granularity so near-equal floats sort together.
            fx.total_cmp(&fy)
        }
    }
}

pub fn row_cmp(a: &Row, b: &Row) -> Ordering {
    for (x, y) in a.iter().zip(b.iter()) {
        let o = cell_cmp(x, y);
        if o != Ordering::Equal {
            return o;
        }
    }
    a.len().cmp(&b.len())
}

pub fn row_eq(a: &Row, b: &Row) -> bool {
    a.len() == b.len() && a.iter().zip(b.iter()).all(|(x, y)| cell_eq(x, y))
}

/// Multiset equality of rows. Returns Err(description) on mismatch.
pub fn multiset_eq(got: &[Row], want: &[Row]) -> Result<(), String> {
    if got.len() != want.len() {
        return Err(format!("row count {} != expected {}", got.len(), want.len()));
    }
    let mut g: Vec<&Row> = got.iter().collect();
    let mut w: Vec<&Row> = want.iter().collect();
    g.sort_by(|a, b| row_cmp(a, b));
    w.sort_by(|a, b| row_cmp(a, b));
    if g.iter().zip(w.iter()).all(|(a, b)| row_eq(a, b)) {
        return Ok(());
    }
    // Sorting can mis-pair rows whose float cells are within tolerance; fall
    // back to greedy matching for small results before declaring a mismatch.
    if g.len() <= 3000 {
        let mut used = vec![false; w.len()];
        'outer: for a in &g {
            for (j, b) in w.iter().enumerate() {
                if !used[j] && row_eq(a, b) {
                    used[j] = true;
                    continue 'outer;
                }
            }
            return Err(format!("row {} has no counterpart in expected", fmt_row(a)));
        }
        return Ok(());
    }
    for (a, b) in g.iter().zip(w.iter()) {
        if !row_eq(a, b) {
            return Err(format!("row {} vs expected {}", fmt_row(a), fmt_row(b)));
        }
    }
    Ok(())
}

/// `sub` is a sub-multiset of `sup`.
pub fn sub_multiset(sub: &[Row], sup: &[Row]) -> Result<(), String> {
    let mut used = vec![false; sup.len()];
    let mut s: Vec<&Row> = sup.iter().collect();
    s.sort_by(|a, b| row_cmp(a, b));
    'outer: for a in sub {
        // binary search the neighbourhood then scan
        for (j, b) in s.iter().enumerate() {
            if !used[j] && row_eq(a, b) {
                used[j] = true;
                continue 'outer;
            }
        }
        return Err(format!("row {} not in the full answer (or too many copies)", fmt_row(a)));
    }
    Ok(())
}

pub fn fmt_row(r: &Row) -> String {
    let cells: Vec<String> = r
        .iter()
        .map(|c| match c {
            Cell::Null => "NULL".into(),
            Cell::Int(i) => i.to_string(),
            Cell::F(f) => format!("{:?}", f),
            Cell::S(s) => format!("{:?}", s),
            Cell::Date(d) => crate::data::date_to_string(*d),
            Cell::Bool(b) => b.to_string(),
        })
        .collect();
    format!("({})", cells.join(", "))
}

pub fn rows_json(rows: &[Row], max: usize) -> serde_json::Value {
    serde_json::Value::Array(
        rows.iter()
            .take(max)
            .map(|r| serde_json::Value::Array(r.iter().map(|c| c.json()).collect()))
            .collect(),
    )
}

/// Sort key specification for ordered comparison: column index in the output,
/// descending?, nulls first?
#[derive(Clone, Debug)]
pub struct SortKey {
    pub col: usize,
    pub desc: bool,
    pub nulls_first: bool,
}

pub fn key_cmp(a: &Row, b: &Row, keys: &[SortKey]) -> Ordering {
    for k in keys {
        let (x, y) = (&a[k.col], &b[k.col]);
        let o = match (x.is_null(), y.is_null()) {
            (true, true) => Ordering::Equal,
            (true, false) => {
                if k.nulls_first {
                    Ordering::Less
                } else {
                    Ordering::Greater
                }
            }
            (false, true) => {
                if k.nulls_first {
                    Ordering::Greater
                } else {
                    Ordering::Less
                }
            }
            (false, false) => {
                let o = if cell_eq(x, y) { Ordering::Equal } else { cell_cmp(x, y) };
                if k.desc {
                    o.reverse()
                } else {
                    o
                }
            }
        };
        if o != Ordering::Equal {
            return o;
        }
    }
    Ordering::Equal
}

/// Ordered comparison with LIMIT/OFFSET semantics against the FULL
/// (un-limited, un-ordered) expected answer:
///  * `got` must be sorted by `keys`;
///  * `got` must be one of the legal windows [offset, offset+limit) of some
///    stable arrangement of `full` sorted by `keys` (ties free).
pub fn ordered_window_check(
    got: &[Row],
    full: &[Row],
    keys: &[SortKey],
    offset: usize,
    limit: Option<usize>,
) -> Result<(), String> {
    // 1. sortedness of the engine's own output
    for w in got.windows(2) {
        if key_cmp(&w[0], &w[1], keys) == Ordering::Greater {
            return Err(format!("output not ordered: {} before {}", fmt_row(&w[0]), fmt_row(&w[1])));
        }
    }
    // 2. expected count
    let n = full.len();
    let start = offset.min(n);
    let end = match limit {
        Some(l) => (start + l).min(n),
        None => n,
    };
    if got.len() != end - start {
        return Err(format!("row count {} != expected {} (full {}, offset {}, limit {:?})", got.len(), end - start, n, offset, limit));
    }
    if got.is_empty() {
        return Ok(());
    }
    // 3. per tie group membership
    let mut sorted: Vec<&Row> = full.iter().collect();
    sorted.sort_by(|a, b| key_cmp(a, b, keys));
    // walk tie groups of `sorted`, tracking positions
    let mut gi = 0usize; // index into got
    let mut i = 0usize;
    while i < n {
        let mut j = i + 1;
        while j < n && key_cmp(sorted[i], sorted[j], keys) == Ordering::Equal {
            j += 1;
        }
        // group occupies positions [i, j); window overlap:
        let lo = i.max(start);
        let hi = j.min(end);
        if lo < hi {
            let cnt = hi - lo;
            let grp: Vec<Row> = sorted[i..j].iter().map(|r| (*r).clone()).collect();
            let part: Vec<Row> = got[gi..gi + cnt].to_vec();
            // each row of `part` must have key equal to the group's key
            for r in &part {
                if key_cmp(r, sorted[i], keys) != Ordering::Equal {
                    return Err(format!(
                        "row {} at output position {} has a sort key outside the expected tie group of {}",
                        fmt_row(r),
                        gi,
                        fmt_row(sorted[i])
                    ));
                }
            }
            if cnt == j - i {
                multiset_eq(&part, &grp).map_err(|e| format!("tie group of {}: {}", fmt_row(sorted[i]), e))?;
            } else {
                sub_multiset(&part, &grp).map_err(|e| format!("boundary tie group of {}: {}", fmt_row(sorted[i]), e))?;
            }
            gi += cnt;
        }
        i = j;
    }
    Ok(())
}
