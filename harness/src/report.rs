//! Verdict bookkeeping, evidence files, replay files, known findings.

use serde_json::{json, Map, Value};
use std::collections::{BTreeMap, HashSet};
use std::hash::{Hash, Hasher};
use std::path::PathBuf;
use std::time::Instant;

#[derive(Clone, Copy, Debug, PartialEq, Eq)]
pub enum Tier {
    Quick,
    Thorough,
}

impl Tier {
    pub fn name(self) -> &'static str {
        match self {
            Tier::Quick => "quick",
            Tier::Thorough => "thorough",
        }
    }
    pub fn pick<T>(self, q: T, t: T) -> T {
        match self {
            Tier::Quick => q,
            Tier::Thorough => t,
        }
    }
}

pub fn verif_root() -> PathBuf {
    PathBuf::from(std::env::var("QE_VERIF_ROOT").unwrap_or_else(|_| "/verif".into()))
}

pub fn hash_of<T: Hash>(t: &T) -> u64 {
    let mut h = std::collections::hash_map::DefaultHasher::new();
    t.hash(&mut h);
    h.finish()
}

#[derive(Clone, Debug)]
pub struct Finding {
    pub property: String,
    pub signature: String,
    pub what: String,
}

pub fn load_known_findings() -> Vec<Finding> {
    let p = verif_root().join("known_findings.json");
    let Ok(s) = std::fs::read_to_string(&p) else { return vec![] };
    let Ok(v) = serde_json::from_str::<Value>(&s) else { return vec![] };
    let mut out = Vec::new();
    if let Some(a) = v.get("findings").and_then(|x| x.as_array()) {
        for f in a {
            out.push(Finding {
                property: f["property"].as_str().unwrap_or("").to_string(),
                signature: f["signature"].as_str().unwrap_or("").to_string(),
                what: f["what"].as_str().unwrap_or("").to_string(),
            });
        }
    }
    out
}

pub struct Report {
    pub id: String,
    pub tier: Tier,
    pub seed: u64,
    pub level: &'static str,
    start: Instant,
    pub evaluations: u64,
    distinct: HashSet<u64>,
    pub rule: String,
    samples: Vec<Value>,
    pub max_samples: usize,
    violations: u64,
    violation_sigs: HashSet<String>,
    known: BTreeMap<String, (u64, String)>,
    findings: Vec<Finding>,
    inconclusive: BTreeMap<String, u64>,
    pub extra: Map<String, Value>,
    pub assumptions: Vec<String>,
    pub exhaustive: Option<bool>,
    floor_failures: Vec<String>,
}

impl Report {
    pub fn new(id: &str, tier: Tier, seed: u64, level: &'static str, rule: &str) -> Self {
        let _ = std::fs::create_dir_all(verif_root().join("evidence"));
        Report {
            id: id.to_string(),
            tier,
            seed,
            level,
            start: Instant::now(),
            evaluations: 0,
            distinct: HashSet::new(),
            rule: rule.to_string(),
            samples: Vec::new(),
            max_samples: 6,
            violations: 0,
            violation_sigs: HashSet::new(),
            known: BTreeMap::new(),
            findings: load_known_findings().into_iter().filter(|f| f.property == id).collect(),
            inconclusive: BTreeMap::new(),
            extra: Map::new(),
            assumptions: Vec::new(),
            exhaustive: None,
            floor_failures: Vec::new(),
        }
    }

    pub fn elapsed_s(&self) -> f64 {
        self.start.elapsed().as_secs_f64()
    }

    /// One executed case.
    pub fn eval(&mut self) {
        self.evaluations += 1;
    }
    pub fn evals(&mut self, n: u64) {
        self.evaluations += n;
    }
    /// Register a distinct non-trivial case by its signature.
    pub fn nontrivial<T: Hash>(&mut self, sig: &T) {
        self.distinct.insert(hash_of(sig));
    }
    pub fn distinct_count(&self) -> usize {
        self.distinct.len()
    }
    pub fn sample(&mut self, v: Value) {
        if self.samples.len() < self.max_samples {
            self.samples.push(v);
        }
    }
    pub fn inconclusive(&mut self, kind: &str) {
        *self.inconclusive.entry(kind.to_string()).or_insert(0) += 1;
    }
    pub fn inconclusive_count(&self, kind: &str) -> u64 {
        self.inconclusive.get(kind).copied().unwrap_or(0)
    }
    pub fn count(&mut self, key: &str, n: u64) {
        let e = self.extra.entry(key.to_string()).or_insert(json!(0));
        *e = json!(e.as_u64().unwrap_or(0) + n);
    }
    pub fn set(&mut self, key: &str, v: Value) {
        self.extra.insert(key.to_string(), v);
    }
    /// Coverage floor: when `ok` is false the run ends inconclusive (exit 2).
    pub fn floor(&mut self, ok: bool, what: &str) {
        if !ok {
            self.floor_failures.push(what.to_string());
        }
    }

    /// Is this failure signature a listed known finding?
    pub fn is_known(&self, signature: &str) -> bool {
        self.findings.iter().any(|f| f.signature == signature)
    }

    /// Report a failing case. `signature` identifies the failure class (used
    /// to match known findings and to dedupe output); `replay` is written to
    /// /verif/replays/<id>/.
    pub fn fail(&mut self, signature: &str, summary: &str, replay: Value) {
        if let Some(f) = self.findings.iter().find(|f| f.signature == signature) {
            let e = self.known.entry(signature.to_string()).or_insert((0, f.what.clone()));
            e.0 += 1;
            if e.0 == 1 {
                // keep one witness for the record (not a violation)
                let dir = verif_root().join("replays").join(&self.id);
                let _ = std::fs::create_dir_all(&dir);
                let p = dir.join(format!("known-{}.json", sanitize(signature)));
                let _ = std::fs::write(&p, serde_json::to_string_pretty(&json!({"property": self.id, "known_finding": signature, "summary": summary, "case": replay})).unwrap());
            }
            return;
        }
        self.violations += 1;
        if let Ok(p) = std::env::var("QE_VERIF_DEBUG") {
            use std::io::Write;
            if let Ok(mut f) = std::fs::OpenOptions::new().create(true).append(true).open(p) {
                let _ = writeln!(f, "{}\t{}\t{}\t{}", self.violations, self.id, signature, summary.replace('\n', " "));
                let d = format!("{}.d", std::env::var("QE_VERIF_DEBUG").unwrap());
                let _ = std::fs::create_dir_all(&d);
                let _ = std::fs::write(format!("{}/{}.json", d, self.violations), serde_json::to_string_pretty(&replay).unwrap());
            }
        }
        let first_of_sig = self.violation_sigs.insert(signature.to_string());
        if first_of_sig && self.violation_sigs.len() <= 20 {
            let dir = verif_root().join("replays").join(&self.id);
            let _ = std::fs::create_dir_all(&dir);
            let p = dir.join(format!("{}-seed{}-{}.json", sanitize(signature), self.seed, self.violations));
            let body = json!({"property": self.id, "signature": signature, "summary": summary, "seed": self.seed, "tier": self.tier.name(), "case": replay});
            let _ = std::fs::write(&p, serde_json::to_string_pretty(&body).unwrap());
            println!("VIOLATION property={} replay={}", self.id, p.display());
            println!("  {} :: {}", signature, summary.chars().take(600).collect::<String>());
        }
    }

    pub fn violations(&self) -> u64 {
        self.violations
    }

    /// Write evidence and return the process exit code.
    pub fn finish(mut self) -> i32 {
        for (sig, (n, what)) in &self.known {
            println!("KNOWN-FINDING: property={} {} [{} x{}]", self.id, what, sig, n);
        }
        let wall = self.start.elapsed().as_secs_f64();
        let mut cov = Map::new();
        cov.insert("evaluations".into(), json!(self.evaluations));
        cov.insert("distinct_nontrivial".into(), json!(self.distinct.len()));
        cov.insert("rule".into(), json!(self.rule));
        if self.samples.is_empty() {
            self.samples.push(json!("no sample recorded"));
        }
        cov.insert("samples".into(), Value::Array(self.samples.clone()));
        if let Some(e) = self.exhaustive {
            cov.insert("exhaustive".into(), json!(e));
        }
        cov.insert("inconclusive".into(), json!(self.inconclusive));
        cov.insert(
            "known_findings_matched".into(),
            json!(self.known.iter().map(|(k, v)| (k.clone(), v.0)).collect::<BTreeMap<_, _>>()),
        );
        cov.insert("violation_signatures".into(), json!(self.violation_sigs.iter().collect::<Vec<_>>()));
        if !self.floor_failures.is_empty() {
            cov.insert("coverage_floor_not_met".into(), json!(self.floor_failures));
        }
        for (k, v) in &self.extra {
            cov.insert(k.clone(), v.clone());
        }
        let ev = json!({
            "property_id": self.id,
            "tier": self.tier.name(),
            "seed": self.seed,
            "level": self.level,
            "coverage": Value::Object(cov),
            "assumptions": self.assumptions,
            "wall_s": wall,
            "violations": self.violations,
        });
        let p = verif_root().join("evidence").join(format!("{}.json", self.id));
        std::fs::write(&p, serde_json::to_string_pretty(&ev).unwrap()).expect("write evidence");
        let verdict = if self.violations > 0 {
            "VIOLATED"
        } else if !self.floor_failures.is_empty() {
            "INCONCLUSIVE"
        } else {
            "HELD"
        };
        println!(
            "{} {} tier={} seed={} evaluations={} distinct_nontrivial={} violations={} known={} inconclusive={:?} wall={:.1}s",
            self.id,
            verdict,
            self.tier.name(),
            self.seed,
            self.evaluations,
            self.distinct.len(),
            self.violations,
            self.known.len(),
            self.inconclusive,
            wall
        );
        if self.violations > 0 {
            1
        } else if !self.floor_failures.is_empty() {
            println!("coverage floor not met: {:?}", self.floor_failures);
            2
        } else {
            0
        }
    }
}

pub fn sanitize(s: &str) -> String {
    s.chars().map(|c| if c.is_ascii_alphanumeric() || c == '-' || c == '_' { c } else { '_' }).take(60).collect()
}
