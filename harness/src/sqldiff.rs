//! Differential SQL monitoring: engine answer vs reference answer.

use crate::canon::{multiset_eq, ordered_window_check, rows_json, sub_multiset, Row};
use crate::data::Table;
use crate::eng::{Answer, Outcome};
use crate::qgen::GenQuery;
use crate::report::Report;
use serde_json::{json, Value};
use std::sync::Mutex;

/// What one evaluated case contributes to the report.
#[derive(Default)]
pub struct CaseResult {
    pub nontrivial: Option<String>,
    pub fail: Option<(String, String, Value)>,
    pub inconclusive: Option<String>,
    pub sample: Option<Value>,
    pub counts: Vec<(String, u64)>,
}

impl CaseResult {
    pub fn count(&mut self, k: &str) {
        self.counts.push((k.to_string(), 1));
    }
}

pub fn fold(rep: &mut Report, r: CaseResult) {
    rep.eval();
    if let Some(s) = r.nontrivial {
        rep.nontrivial(&s);
    }
    if let Some((sig, summary, replay)) = r.fail {
        rep.fail(&sig, &summary, replay);
    }
    if let Some(k) = r.inconclusive {
        rep.inconclusive(&k);
    }
    if let Some(s) = r.sample {
        rep.sample(s);
    }
    for (k, n) in r.counts {
        rep.count(&k, n);
    }
}

/// Run `f(seed)` for every seed on `threads` worker threads and fold the
/// results into the report in seed order (deterministic output).
pub fn par_run<F>(rep: &mut Report, seeds: Vec<u64>, threads: usize, f: F)
where
    F: Fn(u64) -> Vec<CaseResult> + Sync,
{
    let next = std::sync::atomic::AtomicUsize::new(0);
    let out: Mutex<Vec<(usize, Vec<CaseResult>)>> = Mutex::new(Vec::new());
    std::thread::scope(|s| {
        for _ in 0..threads.max(1) {
            s.spawn(|| loop {
                let i = next.fetch_add(1, std::sync::atomic::Ordering::SeqCst);
                if i >= seeds.len() {
                    break;
                }
                let r = match std::panic::catch_unwind(std::panic::AssertUnwindSafe(|| f(seeds[i]))) {
                    Ok(r) => r,
                    Err(p) => {
                        let msg = p.downcast_ref::<String>().cloned().or_else(|| p.downcast_ref::<&str>().map(|s| s.to_string())).unwrap_or_default();
                        let mut c = CaseResult::default();
                        c.inconclusive = Some(format!("harness-panic: {}", msg.chars().take(120).collect::<String>()));
                        vec![c]
                    }
                };
                out.lock().unwrap().push((i, r));
            });
        }
    });
    let mut v = out.into_inner().unwrap();
    v.sort_by_key(|x| x.0);
    for (_, rs) in v {
        for r in rs {
            fold(rep, r);
        }
    }
}

pub fn default_threads() -> usize {
    std::env::var("QE_VERIF_THREADS").ok().and_then(|s| s.parse().ok()).unwrap_or(12)
}

/// Judge an engine answer against the reference's answer to the FULL statement
/// (no top-level ORDER BY / LIMIT / OFFSET).
pub fn judge(got: &[Row], full: &[Row], q: &GenQuery) -> Result<(), String> {
    if !q.keys.is_empty() {
        ordered_window_check(got, full, &q.keys, q.offset, q.limit)
    } else if q.limit.is_some() || q.offset > 0 {
        let n = full.len();
        let start = q.offset.min(n);
        let end = q.limit.map(|l| (start + l).min(n)).unwrap_or(n);
        if got.len() != end - start {
            return Err(format!("row count {} != expected {}", got.len(), end - start));
        }
        sub_multiset(got, full)
    } else {
        multiset_eq(got, full)
    }
}

pub fn db_json(db: &[Table], max_rows: usize) -> Value {
    Value::Array(db.iter().map(|t| t.json(max_rows)).collect())
}

pub fn replay_json(db: &[Table], q: &GenQuery, engine: &Outcome, reference: &Result<Answer, String>, extra: Value) -> Value {
    json!({
        "tables": db_json(db, 2000),
        "engine_sql": q.engine_sql(),
        "reference_sql_full": q.ref_full_sql(),
        "order_keys": q.keys.iter().map(|k| format!("c{}{}{}", k.col, if k.desc {" DESC"} else {""}, if k.nulls_first {" NULLS FIRST"} else {" NULLS LAST"})).collect::<Vec<_>>(),
        "limit": q.limit, "offset": q.offset,
        "engine": engine.json(60),
        "reference_full": match reference { Ok(a) => json!({"ok": rows_json(&a.rows, 60), "n": a.rows.len()}), Err(e) => json!({"err": e}) },
        "extra": extra,
    })
}

/// Greedy row shrinking: drop rows from each table while `still_fails` holds.
pub fn shrink_rows(db: &[Table], mut still_fails: impl FnMut(&[Table]) -> bool, budget: std::time::Duration) -> Vec<Table> {
    let t0 = std::time::Instant::now();
    let mut cur: Vec<Table> = db.to_vec();
    for ti in 0..cur.len() {
        // halving
        let mut chunk = (cur[ti].rows.len() / 2).max(1);
        while chunk >= 1 && !cur[ti].rows.is_empty() {
            let mut i = 0;
            let mut progressed = false;
            while i < cur[ti].rows.len() {
                if t0.elapsed() > budget {
                    return cur;
                }
                let mut cand = cur.clone();
                let hi = (i + chunk).min(cand[ti].rows.len());
                cand[ti].rows.drain(i..hi);
                if still_fails(&cand) {
                    cur = cand;
                    progressed = true;
                } else {
                    i += chunk;
                }
            }
            if chunk == 1 && !progressed {
                break;
            }
            chunk = if chunk == 1 { if progressed { 1 } else { 0 } } else { chunk / 2 };
            if chunk == 0 {
                break;
            }
        }
    }
    cur
}
