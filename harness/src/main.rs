//! qe-verif: runtime monitors for afilipchik/iceberg-query-engine.
//!
//!   qe-verif check <ID> <quick|thorough>     run one property's monitor
//!   qe-verif replay <path>                   re-execute a recorded case
//!   qe-verif worker ...                      internal: per-configuration worker
//!
//! VERIF_SEED selects the random stream (default 1).

mod arbiter;
mod canon;
mod checks;
mod data;
mod eng;
mod qgen;
mod sqldiff;
mod workers;
mod report;
mod rng;

use report::Tier;

fn main() {
    let args: Vec<String> = std::env::args().collect();
    if args.len() < 2 {
        eprintln!("usage: qe-verif check <ID> <quick|thorough> | replay <path> | list");
        std::process::exit(2);
    }
    eng::install_panic_hook();
    // Safety net for the sandbox (no swap): cap this process's address space so
    // a runaway query kills its own process, not the machine. A worker that
    // dies this way is reported as inconclusive by the driver.
    {
        let gb: u64 = std::env::var("QE_VERIF_AS_LIMIT_GB").ok().and_then(|s| s.parse().ok()).unwrap_or(if args[1] == "worker" { 10 } else { 28 });
        let lim = libc::rlimit { rlim_cur: gb << 30, rlim_max: gb << 30 };
        unsafe {
            libc::setrlimit(libc::RLIMIT_AS, &lim);
        }
    }
    let seed: u64 = std::env::var("VERIF_SEED").ok().and_then(|s| s.trim().parse().ok()).unwrap_or(1);
    match args[1].as_str() {
        "check" => {
            let id = args.get(2).map(|s| s.as_str()).unwrap_or("");
            let tier = match args.get(3).map(|s| s.as_str()).or(std::env::var("VERIF_TIER").ok().as_deref().map(|_| "")) {
                Some("thorough") => Tier::Thorough,
                _ => match std::env::var("VERIF_TIER").ok().as_deref() {
                    Some("thorough") if args.get(3).is_none() => Tier::Thorough,
                    _ => Tier::Quick,
                },
            };
            let code = checks::run(id, tier, seed);
            // Background tasks of timed-out cases may still be running; do not
            // wait for them.
            std::process::exit(code);
        }
        "list" => {
            for id in checks::ids() {
                println!("{}", id);
            }
        }
        "worker" => {
            let code = checks::worker(&args[2..]);
            std::process::exit(code);
        }
        "probe" => {
            // qe-verif probe <replay.json> [sql]  — run engine and reference on a recorded case
            let p = args.get(2).expect("path");
            let v: serde_json::Value = serde_json::from_str(&std::fs::read_to_string(p).expect("read")).expect("json");
            let case = if v.get("case").is_some() { &v["case"] } else { &v };
            let tables: Vec<data::Table> = case["tables"].as_array().expect("tables").iter().filter_map(data::Table::from_json).collect();
            let sql = args.get(3).cloned().unwrap_or_else(|| case["engine_sql"].as_str().unwrap_or("").to_string());
            let rsql = args.get(4).cloned().or_else(|| args.get(3).cloned()).unwrap_or_else(|| case["reference_sql_full"].as_str().unwrap_or("").to_string());
            let ctx = match std::env::var("MEM").ok().and_then(|s| s.parse::<usize>().ok()) {
                Some(limit) => {
                    let mut c = query_engine::ExecutionContext::with_memory_limit(limit);
                    for t in &tables {
                        c.register_table(t.name.clone(), t.schema(), t.even_batches((t.rows.len() / 5).max(1)));
                    }
                    std::sync::Arc::new(c)
                }
                None => eng::mem_ctx(&tables),
            };
            if std::env::var("SEQ").is_ok() {
                // several statements (separated by ;;) on ONE context: row counts and pool usage after each
                for one in sql.split(";;") {
                    let o = eng::run_sql(&ctx, one.trim());
                    println!("{:<60} -> {}   [pool used {} of {:?}]", one.trim().chars().take(60).collect::<String>(), o.short().chars().take(90).collect::<String>(), ctx.memory_used(), ctx.memory_available());
                }
                return;
            }
            let dfc = eng::df_ctx(&tables);
            println!("engine   : {}", sql);
            match eng::run_sql(&ctx, &sql) {
                eng::Outcome::Ok(a) => {
                    for r in &a.rows {
                        println!("   {}", canon::fmt_row(r));
                    }
                }
                o => println!("   {}", o.short()),
            }
            println!("reference: {}", rsql);
            match eng::run_df(&dfc, &rsql) {
                Ok(a) => {
                    for r in &a.rows {
                        println!("   {}", canon::fmt_row(r));
                    }
                }
                Err(e) => println!("   err {}", e),
            }
            if std::env::var("PLAN").is_ok() {
                println!("BOUND:\n{}", ctx.logical_plan(&sql).map(|p| p.to_string()).unwrap_or_else(|e| e.to_string()));
                println!("OPTIMIZED:\n{}", ctx.optimized_plan(&sql).map(|p| p.to_string()).unwrap_or_else(|e| e.to_string()));
                if let Ok(rule) = std::env::var("RULE") {
                    let r: Vec<_> = eng::production_rules().into_iter().filter(|x| x.name() == rule).take(1).collect();
                    let o = query_engine::optimizer::Optimizer::with_rules(r);
                    println!("RULE {}:\n{}", rule, ctx.logical_plan(&sql).and_then(|p| o.optimize(p)).map(|p| p.to_string()).unwrap_or_else(|e| e.to_string()));
                }
            }
        }
        "replay" => {
            let p = args.get(2).expect("path");
            std::process::exit(checks::replay(p));
        }
        other => {
            eprintln!("unknown command {}", other);
            std::process::exit(2);
        }
    }
}
