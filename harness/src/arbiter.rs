//! SQLite (python3 stdlib) as the arbiter between the engine and DataFusion.

use crate::canon::Row;
use crate::data::{Cell, Table};
use serde_json::{json, Value};
use std::io::Write;

/// Render a statement of the shared dialect for SQLite.
pub fn to_sqlite(sql: &str) -> String {
    let mut s = sql.replace("DATE '", "'");
    for (a, b) in [("TRUE", "1"), ("FALSE", "0")] {
        // whole-word replacement outside string literals
        let mut out = String::new();
        let mut in_str = false;
        let chars: Vec<char> = s.chars().collect();
        let mut i = 0;
        while i < chars.len() {
            let c = chars[i];
            if c == '\'' {
                in_str = !in_str;
                out.push(c);
                i += 1;
                continue;
            }
            if !in_str && s[s.char_indices().nth(i).map(|x| x.0).unwrap_or(0)..].starts_with(a) {
                let before_ok = i == 0 || !(chars[i - 1].is_alphanumeric() || chars[i - 1] == '_');
                let after = chars.get(i + a.len());
                let after_ok = after.map(|c| !(c.is_alphanumeric() || *c == '_')).unwrap_or(true);
                if before_ok && after_ok {
                    out.push_str(b);
                    i += a.len();
                    continue;
                }
            }
            out.push(c);
            i += 1;
        }
        s = out;
    }
    s
}

pub fn run_sqlite(db: &[Table], sql: &str) -> Result<Vec<Row>, String> {
    let req = json!({"tables": db.iter().map(|t| t.json(usize::MAX)).collect::<Vec<_>>(), "sql": to_sqlite(sql)});
    let script = crate::report::verif_root().join("py").join("sqlite_arbiter.py");
    let mut ch = std::process::Command::new("python3")
        .arg(script)
        .stdin(std::process::Stdio::piped())
        .stdout(std::process::Stdio::piped())
        .stderr(std::process::Stdio::null())
        .spawn()
        .map_err(|e| e.to_string())?;
    ch.stdin.take().unwrap().write_all(req.to_string().as_bytes()).map_err(|e| e.to_string())?;
    let out = ch.wait_with_output().map_err(|e| e.to_string())?;
    let v: Value = serde_json::from_slice(&out.stdout).map_err(|e| format!("arbiter output: {}", e))?;
    if let Some(e) = v.get("err") {
        return Err(e.as_str().unwrap_or("").to_string());
    }
    let rows = v["ok"].as_array().ok_or("no rows")?;
    Ok(rows
        .iter()
        .map(|r| {
            r.as_array()
                .map(|a| {
                    a.iter()
                        .map(|c| match c {
                            Value::Null => Cell::Null,
                            Value::Bool(b) => Cell::Bool(*b),
                            Value::Number(n) => {
                                if let Some(i) = n.as_i64() {
                                    Cell::Int(i)
                                } else {
                                    Cell::F(n.as_f64().unwrap_or(0.0))
                                }
                            }
                            Value::String(s) => Cell::S(s.clone()),
                            _ => Cell::Null,
                        })
                        .collect()
                })
                .unwrap_or_default()
        })
        .collect())
}
