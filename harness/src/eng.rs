//! Running the engine under test (and DataFusion as the reference) and
//! turning what comes out into canonical rows.

use crate::canon::{batches_to_rows, Row};
use crate::data::Table;
use arrow::datatypes::{DataType, SchemaRef};
use arrow::record_batch::RecordBatch;
use futures::TryStreamExt;
use query_engine::optimizer::Optimizer;
use query_engine::physical::{PhysicalOperator, PhysicalPlanner};
use query_engine::planner::LogicalPlan;
use query_engine::ExecutionContext;
use std::sync::{Arc, Mutex, OnceLock};
use std::time::Duration;

pub fn rt() -> &'static tokio::runtime::Runtime {
    static RT: OnceLock<tokio::runtime::Runtime> = OnceLock::new();
    RT.get_or_init(|| {
        let n = std::env::var("QE_VERIF_TOKIO_THREADS").ok().and_then(|s| s.parse().ok()).unwrap_or(4usize);
        tokio::runtime::Builder::new_multi_thread()
            .worker_threads(n)
            // 8 MB by default (the monitors' own recursion); C29's workers ask for
            // tokio's default 2 MB, which is what the engine's server runtime has
            .thread_stack_size(std::env::var("QE_VERIF_TOKIO_STACK_MB").ok().and_then(|s| s.parse::<usize>().ok()).unwrap_or(8) << 20)
            .enable_all()
            .build()
            .expect("tokio runtime")
    })
}

/// Path of this binary for spawning workers. When the file was replaced while
/// the process runs (a rebuild), Linux reports "<path> (deleted)"; the new file
/// at <path> is the same program one build later and is used instead.
pub fn self_exe() -> std::path::PathBuf {
    let p = std::env::current_exe().expect("current exe");
    let s = p.to_string_lossy().to_string();
    match s.strip_suffix(" (deleted)") {
        Some(t) => std::path::PathBuf::from(t),
        None => p,
    }
}

static PANICS: Mutex<Vec<String>> = Mutex::new(Vec::new());

/// Install a panic hook that records every panic message (including ones the
/// engine later converts into errors) instead of printing it.
pub fn install_panic_hook() {
    std::panic::set_hook(Box::new(|info| {
        let msg = if let Some(s) = info.payload().downcast_ref::<&str>() {
            s.to_string()
        } else if let Some(s) = info.payload().downcast_ref::<String>() {
            s.clone()
        } else {
            "<non-string panic>".to_string()
        };
        let loc = info.location().map(|l| format!("{}:{}", l.file(), l.line())).unwrap_or_default();
        if loc.starts_with("src/") || std::env::var("QE_VERIF_SHOW_PANICS").is_ok() || std::thread::current().name() == Some("main") {
            // a bug in the harness itself: never swallow it
            eprintln!("HARNESS PANIC: {} @ {}", msg, loc);
        }
        let mut p = PANICS.lock().unwrap_or_else(|e| e.into_inner());
        if p.len() < 10_000 {
            p.push(format!("{} @ {}", msg, loc));
        }
    }));
}

pub fn take_panics() -> Vec<String> {
    std::mem::take(&mut *PANICS.lock().unwrap_or_else(|e| e.into_inner()))
}

#[derive(Clone, Debug)]
pub struct Answer {
    pub rows: Vec<Row>,
    pub names: Vec<String>,
    pub types: Vec<DataType>,
    /// names/types of the first returned batch, if any
    pub batch_schema: Option<(Vec<String>, Vec<DataType>)>,
}

#[derive(Clone, Debug)]
pub enum Outcome {
    Ok(Answer),
    Err(String),
    Panic(String),
    Timeout,
}

impl Outcome {
    pub fn rows(&self) -> Option<&Vec<Row>> {
        match self {
            Outcome::Ok(a) => Some(&a.rows),
            _ => None,
        }
    }
    pub fn short(&self) -> String {
        match self {
            Outcome::Ok(a) => format!("ok({} rows)", a.rows.len()),
            Outcome::Err(e) => format!("err({})", e.chars().take(200).collect::<String>()),
            Outcome::Panic(e) => format!("panic({})", e.chars().take(200).collect::<String>()),
            Outcome::Timeout => "timeout".into(),
        }
    }
    pub fn json(&self, max_rows: usize) -> serde_json::Value {
        match self {
            Outcome::Ok(a) => serde_json::json!({"ok": crate::canon::rows_json(&a.rows, max_rows), "n": a.rows.len()}),
            Outcome::Err(e) => serde_json::json!({"err": e}),
            Outcome::Panic(e) => serde_json::json!({"panic": e}),
            Outcome::Timeout => serde_json::json!("timeout"),
        }
    }
}

fn schema_parts(s: &SchemaRef) -> (Vec<String>, Vec<DataType>) {
    (
        s.fields().iter().map(|f| f.name().clone()).collect(),
        s.fields().iter().map(|f| f.data_type().clone()).collect(),
    )
}

pub fn answer_of(schema: &SchemaRef, batches: &[RecordBatch]) -> Answer {
    let (names, types) = schema_parts(schema);
    Answer {
        rows: batches_to_rows(batches),
        names,
        types,
        batch_schema: batches.first().map(|b| schema_parts(&b.schema())),
    }
}

pub const DEFAULT_TIMEOUT: Duration = Duration::from_secs(75);

/// `ctx.sql(sql)` with panic capture and a watchdog.
pub fn run_sql(ctx: &Arc<ExecutionContext>, sql: &str) -> Outcome {
    run_sql_t(ctx, sql, DEFAULT_TIMEOUT)
}

pub fn run_sql_t(ctx: &Arc<ExecutionContext>, sql: &str, timeout: Duration) -> Outcome {
    let ctx = ctx.clone();
    let sql = sql.to_string();
    let h = rt().spawn(async move { ctx.sql(&sql).await });
    finish(h, timeout, |r| answer_of(&r.schema, &r.batches))
}

/// `run_sql` for callers that already run on the harness runtime.
pub async fn run_sql_async(ctx: &Arc<ExecutionContext>, sql: &str) -> Outcome {
    let ctx = ctx.clone();
    let sql = sql.to_string();
    let h = rt().spawn(async move { ctx.sql(&sql).await });
    let abort = h.abort_handle();
    match tokio::time::timeout(DEFAULT_TIMEOUT, h).await {
        Ok(Ok(Ok(r))) => Outcome::Ok(answer_of(&r.schema, &r.batches)),
        Ok(Ok(Err(e))) => Outcome::Err(e.to_string()),
        Ok(Err(join)) => {
            if join.is_panic() {
                Outcome::Panic("panic in ctx.sql".into())
            } else {
                Outcome::Err(format!("task cancelled: {}", join))
            }
        }
        Err(_) => {
            abort.abort();
            Outcome::Timeout
        }
    }
}

pub fn run_sql_batches(ctx: &Arc<ExecutionContext>, sql: &str) -> Result<(SchemaRef, Vec<RecordBatch>), String> {
    let ctx = ctx.clone();
    let sql = sql.to_string();
    let h = rt().spawn(async move { ctx.sql(&sql).await });
    match rt().block_on(async { tokio::time::timeout(DEFAULT_TIMEOUT, h).await }) {
        Ok(Ok(Ok(r))) => Ok((r.schema, r.batches)),
        Ok(Ok(Err(e))) => Err(e.to_string()),
        Ok(Err(e)) => Err(format!("panic: {}", e)),
        Err(_) => Err("timeout".into()),
    }
}

fn finish<T: Send + 'static>(
    h: tokio::task::JoinHandle<query_engine::Result<T>>,
    timeout: Duration,
    f: impl FnOnce(T) -> Answer,
) -> Outcome {
    let abort = h.abort_handle();
    match rt().block_on(async { tokio::time::timeout(timeout, h).await }) {
        Ok(Ok(Ok(r))) => Outcome::Ok(f(r)),
        Ok(Ok(Err(e))) => Outcome::Err(e.to_string()),
        Ok(Err(join)) => {
            if join.is_panic() {
                let p = join.into_panic();
                let msg = if let Some(s) = p.downcast_ref::<&str>() {
                    s.to_string()
                } else if let Some(s) = p.downcast_ref::<String>() {
                    s.clone()
                } else {
                    "<panic>".into()
                };
                Outcome::Panic(msg)
            } else {
                Outcome::Err(format!("task cancelled: {}", join))
            }
        }
        Err(_) => {
            abort.abort();
            Outcome::Timeout
        }
    }
}

/// Execute a physical plan the way `ctx.sql` does: all partitions
/// concurrently, concatenated in partition order.
pub async fn drive(physical: Arc<dyn PhysicalOperator>) -> query_engine::Result<(SchemaRef, Vec<RecordBatch>)> {
    let n = physical.output_partitions().max(1);
    let futs: Vec<_> = (0..n)
        .map(|p| {
            let ph = physical.clone();
            async move {
                let s = ph.execute(p).await?;
                let v: Vec<RecordBatch> = s.try_collect().await?;
                Ok::<_, query_engine::QueryError>(v)
            }
        })
        .collect();
    let parts = futures::future::join_all(futs).await;
    let mut all = Vec::new();
    for p in parts {
        all.extend(p?);
    }
    Ok((physical.schema(), all))
}

/// Lower a logical plan with the context's tables, pool and config and run it.
pub fn run_logical(ctx: &Arc<ExecutionContext>, plan: &LogicalPlan) -> Outcome {
    let ctx = ctx.clone();
    let plan = plan.clone();
    let h = rt().spawn(async move {
        let mut planner = PhysicalPlanner::with_config(ctx.memory_pool().clone(), ctx.config().clone());
        for name in ctx.table_names() {
            if let Some(p) = ctx.table_provider(&name) {
                planner.register_table(name.clone(), p);
            }
        }
        planner.enable_subquery_execution();
        let physical = planner.create_physical_plan(&plan)?;
        drive(physical).await
    });
    finish(h, DEFAULT_TIMEOUT, |(s, b)| answer_of(&s, &b))
}

/// The optimizer `ctx.sql` would use (statistics-aware when tables have any).
pub fn stats_of(ctx: &ExecutionContext) -> std::collections::HashMap<String, query_engine::physical::operators::TableStatistics> {
    let mut m = std::collections::HashMap::new();
    for n in ctx.table_names() {
        if let Some(p) = ctx.table_provider(&n) {
            if let Some(s) = p.statistics() {
                m.insert(n, s);
            }
        }
    }
    m
}

pub fn production_optimizer(ctx: &ExecutionContext) -> Optimizer {
    let st = stats_of(ctx);
    if st.is_empty() {
        Optimizer::new()
    } else {
        Optimizer::new().with_table_statistics(st)
    }
}

// ---------------------------------------------------------------------------
// engine contexts

pub fn mem_ctx(tables: &[Table]) -> Arc<ExecutionContext> {
    let mut ctx = ExecutionContext::new();
    for t in tables {
        ctx.register_table(t.name.clone(), t.schema(), vec![t.one_batch()]);
    }
    Arc::new(ctx)
}

pub fn mem_ctx_batches(tables: &[(&Table, Vec<RecordBatch>)]) -> Arc<ExecutionContext> {
    let mut ctx = ExecutionContext::new();
    for (t, b) in tables {
        ctx.register_table(t.name.clone(), t.schema(), b.clone());
    }
    Arc::new(ctx)
}

// ---------------------------------------------------------------------------
// DataFusion reference

use datafusion::prelude::{SessionConfig, SessionContext};

pub fn df_ctx(tables: &[Table]) -> SessionContext {
    let cfg = SessionConfig::new().with_target_partitions(1).with_batch_size(8192);
    let ctx = SessionContext::new_with_config(cfg);
    for t in tables {
        let mt = datafusion::datasource::MemTable::try_new(t.schema(), vec![vec![t.one_batch()]]).expect("memtable");
        ctx.register_table(t.name.as_str(), Arc::new(mt)).expect("register");
    }
    ctx
}

pub fn run_df(ctx: &SessionContext, sql: &str) -> Result<Answer, String> {
    let ctx = ctx.clone();
    let sql = sql.to_string();
    let h = rt().spawn(async move {
        let df = ctx.sql(&sql).await.map_err(|e| e.to_string())?;
        let schema: SchemaRef = Arc::new(df.schema().as_arrow().clone());
        let batches = df.collect().await.map_err(|e| e.to_string())?;
        Ok::<_, String>((schema, batches))
    });
    match rt().block_on(async { tokio::time::timeout(DEFAULT_TIMEOUT, h).await }) {
        Ok(Ok(Ok((s, b)))) => Ok(answer_of(&s, &b)),
        Ok(Ok(Err(e))) => Err(e),
        Ok(Err(e)) => Err(format!("datafusion panicked: {}", e)),
        Err(_) => Err("datafusion timeout".into()),
    }
}

// ---------------------------------------------------------------------------
// custom optimizer pipelines (C03, C23, C31, explainers)

use query_engine::optimizer::OptimizerRule;

/// The production rule list of `Optimizer::new()`, in order, as (name, rule).
/// Statistics-aware constructors are substituted by `Optimizer::optimize`
/// itself when statistics are attached, exactly as in production.
pub fn production_rules() -> Vec<Arc<dyn OptimizerRule>> {
    use query_engine::optimizer as o;
    vec![
        Arc::new(o::ConstantFolding),
        Arc::new(o::DeriveOrPredicates),
        Arc::new(o::PredicatePushdown),
        Arc::new(o::FlattenDependentJoin),
        Arc::new(o::SubqueryDecorrelation),
        Arc::new(o::SemiJoinPushdown),
        Arc::new(o::JoinReorder::new()),
        Arc::new(o::PredicatePushdown),
        Arc::new(o::HavingTotalCse),
        Arc::new(o::GroupKeyReduction::new()),
        Arc::new(o::EagerAggregation::new()),
        Arc::new(o::PackedGroupKeys::new()),
        Arc::new(o::PackedJoinKeys::new()),
        Arc::new(o::ProjectionPushdown),
        Arc::new(o::VectorSearchPushdown),
    ]
}

pub fn optimizer_without(ctx: &ExecutionContext, drop: &[&str]) -> Optimizer {
    let rules: Vec<Arc<dyn OptimizerRule>> = production_rules().into_iter().filter(|r| !drop.contains(&r.name())).collect();
    let o = Optimizer::with_rules(rules);
    let st = stats_of(ctx);
    if st.is_empty() {
        o
    } else {
        o.with_table_statistics(st)
    }
}

/// Bind, optimize with `opt`, lower and run — `ctx.sql` with another optimizer.
pub fn run_sql_with(ctx: &Arc<ExecutionContext>, sql: &str, opt: &Optimizer) -> Outcome {
    let plan = match ctx.logical_plan(sql) {
        Ok(p) => p,
        Err(e) => return Outcome::Err(e.to_string()),
    };
    let optimized = match std::panic::catch_unwind(std::panic::AssertUnwindSafe(|| opt.optimize(plan))) {
        Ok(Ok(p)) => p,
        Ok(Err(e)) => return Outcome::Err(format!("optimizer: {}", e)),
        Err(_) => return Outcome::Panic("optimizer panicked".into()),
    };
    run_logical(ctx, &optimized)
}

/// `ctx.sql`, except that statements which would trip the recorded C03 finding
/// (GroupKeyReduction on a non-unique NULL-free key over Parquet, whose
/// ANY_VALUE choice is also schedule-dependent) run through the production
/// pipeline minus that one rule. Used by checks whose subject is not the
/// optimizer, so that one known defect does not drown their signal.
pub fn run_sql_avoiding_gkr(ctx: &Arc<ExecutionContext>, sql: &str, db: &[Table], parquet: bool) -> Outcome {
    if parquet && crate::checks::c03::groups_by_nonunique_nullfree_key(sql, db) {
        run_sql_with(ctx, sql, &optimizer_without(ctx, &["GroupKeyReduction"]))
    } else {
        run_sql(ctx, sql)
    }
}
