//! Small deterministic PRNG (SplitMix64). Every random choice in the harness
//! goes through this so that VERIF_SEED reproduces a run.

#[derive(Clone, Debug)]
pub struct Rng(pub u64);

impl Rng {
    pub fn new(seed: u64) -> Self {
        Rng(seed.wrapping_mul(0x9E3779B97F4A7C15) ^ 0xD1B54A32D192ED03)
    }
    /// Derive an independent stream for a sub-case.
    pub fn fork(&mut self, tag: u64) -> Rng {
        let a = self.next();
        Rng::new(a ^ tag.wrapping_mul(0xA24BAED4963EE407))
    }
    pub fn next(&mut self) -> u64 {
        self.0 = self.0.wrapping_add(0x9E3779B97F4A7C15);
        let mut z = self.0;
        z = (z ^ (z >> 30)).wrapping_mul(0xBF58476D1CE4E5B9);
        z = (z ^ (z >> 27)).wrapping_mul(0x94D049BB133111EB);
        z ^ (z >> 31)
    }
    /// Uniform in [0, n). n == 0 returns 0.
    pub fn below(&mut self, n: u64) -> u64 {
        if n == 0 {
            0
        } else {
            self.next() % n
        }
    }
    pub fn usize(&mut self, n: usize) -> usize {
        self.below(n as u64) as usize
    }
    /// Uniform in [lo, hi] inclusive.
    pub fn range(&mut self, lo: i64, hi: i64) -> i64 {
        if hi <= lo {
            return lo;
        }
        let span = (hi as i128 - lo as i128 + 1) as u128;
        (lo as i128 + (self.next() as u128 % span) as i128) as i64
    }
    pub fn chance(&mut self, num: u64, den: u64) -> bool {
        self.below(den) < num
    }
    pub fn bool(&mut self) -> bool {
        self.next() & 1 == 1
    }
    pub fn pick<'a, T>(&mut self, xs: &'a [T]) -> &'a T {
        &xs[self.usize(xs.len())]
    }
    pub fn shuffle<T>(&mut self, xs: &mut [T]) {
        for i in (1..xs.len()).rev() {
            let j = self.usize(i + 1);
            xs.swap(i, j);
        }
    }
    pub fn f64_unit(&mut self) -> f64 {
        (self.next() >> 11) as f64 / (1u64 << 53) as f64
    }
}
