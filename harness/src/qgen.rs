//! Seeded, typed SQL workload generator (DESIGN.md 2.2).
//!
//! One statement text serves the engine and DataFusion; the only dialect
//! difference that is rendered is the engine's ORDER BY default (NULLS LAST in
//! both directions), spelled out for the reference via the `{NL}` placeholder.

use crate::canon::SortKey;
use crate::data::{Cell, Col, Table, Ty};
use crate::rng::Rng;

pub const STRS: &[&str] = &["", "a", "b", "ab", "A", "B", "abc", "é", "a%", "a_b", "x,y", "it's", "zz", " a"];

pub fn epoch_days(y: i32, m: u32, d: u32) -> i32 {
    (chrono::NaiveDate::from_ymd_opt(y, m, d).unwrap() - chrono::NaiveDate::from_ymd_opt(1970, 1, 1).unwrap()).num_days() as i32
}

pub fn dates() -> Vec<i32> {
    vec![
        epoch_days(1969, 12, 31),
        epoch_days(1970, 1, 1),
        epoch_days(1970, 1, 2),
        epoch_days(1999, 12, 31),
        epoch_days(2000, 2, 29),
        epoch_days(2000, 3, 1),
        epoch_days(2020, 2, 29),
        epoch_days(2021, 1, 31),
        epoch_days(2021, 12, 31),
    ]
}

#[derive(Clone, Copy, Debug, PartialEq)]
pub enum KeyClass {
    /// 0..k with duplicates
    DenseDup,
    /// unique 1..n
    Unique,
    /// range larger than the row count but values repeat ([1,1,5]-like)
    WideDup,
    /// sparse over +/-2^40
    Sparse,
    AllNull,
}

#[derive(Clone, Debug)]
pub struct TableSpec {
    pub rows: usize,
    /// percent of NULLs in nullable columns
    pub null_pct: u64,
    pub key: KeyClass,
    /// all columns NOT NULL in the schema (and no NULLs generated)
    pub not_null: bool,
}

/// Standard column set: id (unique, not null), i0 (key), i1, j0 (int32), f0, s0, d0, b0.
pub fn gen_table(rng: &mut Rng, name: &str, spec: &TableSpec) -> Table {
    let nullable = !spec.not_null;
    let cols = vec![
        Col { name: "id".into(), ty: Ty::I64, nullable: false },
        Col { name: "i0".into(), ty: Ty::I64, nullable },
        Col { name: "i1".into(), ty: Ty::I64, nullable },
        Col { name: "j0".into(), ty: Ty::I32, nullable },
        Col { name: "f0".into(), ty: Ty::F64, nullable },
        Col { name: "s0".into(), ty: Ty::Str, nullable },
        Col { name: "d0".into(), ty: Ty::Date, nullable },
        Col { name: "b0".into(), ty: Ty::Bool, nullable },
    ];
    let ds = dates();
    let n = spec.rows;
    let kdom = 1 + rng.usize(6) as i64;
    let mut rows = Vec::with_capacity(n);
    for r in 0..n {
        let null = |rng: &mut Rng| nullable && rng.below(100) < spec.null_pct;
        let key = match spec.key {
            KeyClass::DenseDup => Cell::Int(rng.range(0, kdom)),
            KeyClass::Unique => Cell::Int(r as i64 + 1),
            KeyClass::WideDup => Cell::Int(*rng.pick(&[1i64, 1, 5, (n as i64) * 3 + 7, 5, 2])),
            KeyClass::Sparse => Cell::Int(*rng.pick(&[-(1i64 << 40), -7, 0, 3, 1 << 33, 1 << 40])),
            KeyClass::AllNull => Cell::Null,
        };
        let mut row = vec![Cell::Int(r as i64 + 1)];
        row.push(if matches!(spec.key, KeyClass::AllNull) && nullable { Cell::Null } else if null(rng) { Cell::Null } else if matches!(key, Cell::Null) { Cell::Int(0) } else { key });
        row.push(if null(rng) { Cell::Null } else { Cell::Int(rng.range(-3, 8)) });
        row.push(if null(rng) { Cell::Null } else { Cell::Int(rng.range(-2, 5)) });
        row.push(if null(rng) { Cell::Null } else { Cell::F(rng.range(-32, 32) as f64 / 8.0) });
        row.push(if null(rng) { Cell::Null } else { Cell::S(rng.pick(STRS).to_string()) });
        row.push(if null(rng) { Cell::Null } else { Cell::Date(*rng.pick(&ds)) });
        row.push(if null(rng) { Cell::Null } else { Cell::Bool(rng.bool()) });
        rows.push(row);
    }
    Table { name: name.to_string(), cols, rows }
}

#[derive(Clone, Copy, Debug, PartialEq)]
pub enum SizeClass {
    Tiny,
    Small,
    Medium,
    Large,
}

pub fn rows_for(rng: &mut Rng, sc: SizeClass) -> usize {
    match sc {
        SizeClass::Tiny => rng.usize(13),
        SizeClass::Small => 50 + rng.usize(350),
        SizeClass::Medium => 2000 + rng.usize(18_000),
        SizeClass::Large => 120_000 + rng.usize(180_000),
    }
}

pub fn gen_db(rng: &mut Rng, n_tables: usize, sc: SizeClass) -> Vec<Table> {
    let null_pct = *rng.pick(&[0u64, 10, 10, 30, 50, 100]);
    (0..n_tables)
        .map(|i| {
            let key = *rng.pick(&[KeyClass::DenseDup, KeyClass::DenseDup, KeyClass::Unique, KeyClass::WideDup, KeyClass::Sparse, KeyClass::AllNull]);
            let key = if null_pct == 0 && key == KeyClass::AllNull { KeyClass::DenseDup } else { key };
            let spec = TableSpec { rows: rows_for(rng, sc), null_pct, key, not_null: null_pct == 0 && rng.bool() };
            gen_table(rng, &format!("t{}", i), &spec)
        })
        .collect()
}

// ---------------------------------------------------------------------------

#[derive(Clone, Debug)]
pub struct Feats {
    pub and_or: bool,
    pub not: bool,
    pub like: bool,
    pub case: bool,
    pub in_list: bool,
    pub between: bool,
    pub funcs: bool,
    pub float: bool,
    pub strings: bool,
    pub dates: bool,
    pub bools: bool,
    pub outer_joins: bool,
    pub cross_join: bool,
    pub distinct: bool,
    pub having: bool,
    pub count_distinct: bool,
    pub order_default_nulls: bool,
    pub limit: bool,
}

impl Feats {
    pub fn all() -> Self {
        Feats {
            and_or: true,
            not: true,
            like: true,
            case: true,
            in_list: true,
            between: true,
            funcs: true,
            float: true,
            strings: true,
            dates: true,
            bools: true,
            outer_joins: true,
            cross_join: true,
            distinct: true,
            having: true,
            count_distinct: true,
            order_default_nulls: true,
            limit: true,
        }
    }
}

/// A relation visible in a scope: alias and its columns.
#[derive(Clone, Debug)]
pub struct Rel {
    pub alias: String,
    pub cols: Vec<(String, Ty)>,
}

impl Rel {
    pub fn of(t: &Table, alias: &str) -> Rel {
        Rel { alias: alias.to_string(), cols: t.cols.iter().map(|c| (c.name.clone(), c.ty)).collect() }
    }
}

#[derive(Clone, Debug, Default)]
pub struct GenQuery {
    /// statement with `{NL}` placeholders
    pub sql: String,
    /// same statement without top-level ORDER BY / LIMIT / OFFSET
    pub full_sql: String,
    pub keys: Vec<SortKey>,
    pub limit: Option<usize>,
    pub offset: usize,
    pub tags: Vec<String>,
    pub ncols: usize,
}

impl GenQuery {
    pub fn engine_sql(&self) -> String {
        self.sql.replace("{NL}", "")
    }
    pub fn ref_sql(&self) -> String {
        self.sql.replace("{NL}", " NULLS LAST")
    }
    pub fn ref_full_sql(&self) -> String {
        self.full_sql.replace("{NL}", " NULLS LAST")
    }
    pub fn engine_full_sql(&self) -> String {
        self.full_sql.replace("{NL}", "")
    }
    /// Skeleton: statement with literals abstracted (for distinct counting).
    pub fn skeleton(&self) -> String {
        skeleton(&self.sql)
    }
}

pub fn skeleton(sql: &str) -> String {
    let mut out = String::new();
    let mut chars = sql.chars().peekable();
    while let Some(c) = chars.next() {
        if c == '\'' {
            // string literal
            loop {
                match chars.next() {
                    Some('\'') => {
                        if chars.peek() == Some(&'\'') {
                            chars.next();
                        } else {
                            break;
                        }
                    }
                    None => break,
                    _ => {}
                }
            }
            out.push('?');
        } else if c.is_ascii_digit() && !out.chars().last().map(|p| p.is_ascii_alphanumeric() || p == '_').unwrap_or(false) {
            while chars.peek().map(|d| d.is_ascii_digit() || *d == '.').unwrap_or(false) {
                chars.next();
            }
            out.push('#');
        } else {
            out.push(c);
        }
    }
    out
}

pub const JOIN_ROW_CAP: f64 = 150_000.0;

fn cell_key(c: &Cell) -> Option<String> {
    match c {
        Cell::Null => None,
        Cell::Int(i) => Some(format!("i{}", i)),
        Cell::F(f) => Some(format!("f{}", f)),
        Cell::S(s) => Some(format!("s{}", s)),
        Cell::Date(d) => Some(format!("d{}", d)),
        Cell::Bool(b) => Some(format!("b{}", b)),
    }
}

/// Exact size of the equi-join of two base tables on one column pair.
pub fn pair_est(l: &Table, lc: &str, r: &Table, rc: &str) -> f64 {
    let (Some(li), Some(ri)) = (l.col_index(lc), r.col_index(rc)) else { return f64::INFINITY };
    let mut h: std::collections::HashMap<String, u64> = std::collections::HashMap::new();
    for row in &l.rows {
        if let Some(k) = cell_key(&row[li]) {
            *h.entry(k).or_insert(0) += 1;
        }
    }
    let mut total = 0f64;
    for row in &r.rows {
        if let Some(k) = cell_key(&row[ri]) {
            total += *h.get(&k).unwrap_or(&0) as f64;
        }
    }
    total
}

pub struct G<'a> {
    pub rng: &'a mut Rng,
    pub f: Feats,
    pub tags: Vec<String>,
    /// When set, a LIMIT is only emitted under an ORDER BY over ALL output
    /// columns, so the limited answer is determined up to identical rows
    /// (needed when two engine configurations are compared without a
    /// reference for the un-limited answer).
    pub total_order_limit: bool,
}

impl<'a> G<'a> {
    pub fn new(rng: &'a mut Rng, f: Feats) -> Self {
        G { rng, f, tags: Vec::new(), total_order_limit: false }
    }
    fn tag(&mut self, t: &str) {
        if !self.tags.iter().any(|x| x == t) {
            self.tags.push(t.to_string());
        }
    }

    pub fn col_of(&mut self, rels: &[Rel], pred: impl Fn(Ty) -> bool) -> Option<(String, Ty)> {
        let mut cands = Vec::new();
        for r in rels {
            for (c, t) in &r.cols {
                if pred(*t) {
                    cands.push((format!("{}.{}", r.alias, c), *t));
                }
            }
        }
        if cands.is_empty() {
            None
        } else {
            Some(cands[self.rng.usize(cands.len())].clone())
        }
    }

    pub fn int_lit(&mut self) -> String {
        self.rng.range(-3, 8).to_string()
    }

    pub fn int_expr(&mut self, rels: &[Rel], depth: u32) -> String {
        let k = if depth == 0 { self.rng.below(3) } else { self.rng.below(9) };
        match k {
            0 | 1 => self.col_of(rels, |t| t.is_int()).map(|c| c.0).unwrap_or_else(|| self.int_lit()),
            2 => self.int_lit(),
            3 => format!("({} + {})", self.int_expr(rels, depth - 1), self.int_expr(rels, depth - 1)),
            4 => format!("({} - {})", self.int_expr(rels, depth - 1), self.int_expr(rels, depth - 1)),
            5 => format!("({} * {})", self.int_expr(rels, depth - 1), self.rng.range(-2, 3)),
            6 if self.f.case => {
                self.tag("case");
                let p = self.pred(rels, depth - 1);
                if self.rng.bool() {
                    format!("CASE WHEN {} THEN {} ELSE {} END", p, self.int_expr(rels, depth - 1), self.int_expr(rels, depth - 1))
                } else {
                    format!("CASE WHEN {} THEN {} END", p, self.int_expr(rels, depth - 1))
                }
            }
            7 if self.f.funcs => {
                self.tag("func");
                match self.rng.below(3) {
                    0 => format!("COALESCE({}, {})", self.int_expr(rels, depth - 1), self.int_expr(rels, depth - 1)),
                    1 => format!("NULLIF({}, {})", self.int_expr(rels, depth - 1), self.int_lit()),
                    _ => format!("ABS({})", self.int_expr(rels, depth - 1)),
                }
            }
            _ => self.col_of(rels, |t| t.is_int()).map(|c| c.0).unwrap_or_else(|| self.int_lit()),
        }
    }

    pub fn float_lit(&mut self) -> String {
        format!("{:.3}", self.rng.range(-16, 16) as f64 / 8.0)
    }

    pub fn float_expr(&mut self, rels: &[Rel], depth: u32) -> String {
        let k = if depth == 0 { self.rng.below(2) } else { self.rng.below(6) };
        match k {
            0 => self.col_of(rels, |t| t == Ty::F64).map(|c| c.0).unwrap_or_else(|| self.float_lit()),
            1 => self.float_lit(),
            2 => format!("({} + {})", self.float_expr(rels, depth - 1), self.float_expr(rels, depth - 1)),
            3 => format!("({} * {})", self.float_expr(rels, depth - 1), self.rng.pick(&["2.0", "0.5", "-1.0", "4.0"])),
            4 => format!("({} - {})", self.float_expr(rels, depth - 1), self.float_lit()),
            _ => self.col_of(rels, |t| t == Ty::F64).map(|c| c.0).unwrap_or_else(|| self.float_lit()),
        }
    }

    pub fn str_lit(&mut self) -> String {
        Cell::S(self.rng.pick(STRS).to_string()).sql()
    }

    pub fn str_expr(&mut self, rels: &[Rel], depth: u32) -> String {
        let k = if depth == 0 { self.rng.below(2) } else { self.rng.below(6) };
        match k {
            0 => self.col_of(rels, |t| t == Ty::Str).map(|c| c.0).unwrap_or_else(|| self.str_lit()),
            1 => self.str_lit(),
            2 => format!("({} || {})", self.str_expr(rels, depth - 1), self.str_expr(rels, depth - 1)),
            3 if self.f.funcs => {
                self.tag("func");
                format!("{}({})", self.rng.pick(&["UPPER", "LOWER"]), self.str_expr(rels, depth - 1))
            }
            4 if self.f.funcs => {
                self.tag("func");
                format!("COALESCE({}, {})", self.str_expr(rels, depth - 1), self.str_lit())
            }
            _ => self.col_of(rels, |t| t == Ty::Str).map(|c| c.0).unwrap_or_else(|| self.str_lit()),
        }
    }

    pub fn date_lit(&mut self) -> String {
        let ds = dates();
        Cell::Date(*self.rng.pick(&ds)).sql()
    }

    /// A scalar expression of a random allowed type. Returns (text, type).
    pub fn scalar(&mut self, rels: &[Rel], depth: u32) -> (String, Ty) {
        let mut kinds = vec![Ty::I64, Ty::I64];
        if self.f.float {
            kinds.push(Ty::F64);
        }
        if self.f.strings {
            kinds.push(Ty::Str);
        }
        if self.f.dates {
            kinds.push(Ty::Date);
        }
        if self.f.bools {
            kinds.push(Ty::Bool);
        }
        let t = *self.rng.pick(&kinds);
        match t {
            Ty::I64 | Ty::I32 => (self.int_expr(rels, depth), Ty::I64),
            Ty::F64 => (self.float_expr(rels, depth), Ty::F64),
            Ty::Str => (self.str_expr(rels, depth), Ty::Str),
            Ty::Date => (self.col_of(rels, |t| t == Ty::Date).map(|c| c.0).unwrap_or_else(|| self.date_lit()), Ty::Date),
            Ty::Bool => {
                if self.rng.bool() {
                    (self.col_of(rels, |t| t == Ty::Bool).map(|c| c.0).unwrap_or_else(|| "TRUE".into()), Ty::Bool)
                } else {
                    (format!("({})", self.pred(rels, depth.min(1))), Ty::Bool)
                }
            }
        }
    }

    pub fn cmp_op(&mut self) -> &'static str {
        *self.rng.pick(&["=", "<>", "<", "<=", ">", ">="])
    }

    pub fn atom(&mut self, rels: &[Rel], depth: u32) -> String {
        let d = depth.min(1);
        loop {
            match self.rng.below(12) {
                0 | 1 | 2 => return format!("{} {} {}", self.int_expr(rels, d), self.cmp_op(), self.int_expr(rels, d)),
                3 if self.f.float => return format!("{} {} {}", self.float_expr(rels, 0), self.cmp_op(), self.float_expr(rels, 0)),
                4 if self.f.strings => return format!("{} {} {}", self.str_expr(rels, 0), self.cmp_op(), self.str_expr(rels, 0)),
                5 if self.f.dates => {
                    if let Some((c, _)) = self.col_of(rels, |t| t == Ty::Date) {
                        return format!("{} {} {}", c, self.cmp_op(), self.date_lit());
                    }
                }
                6 => {
                    self.tag("isnull");
                    let (e, _) = self.scalar(rels, 0);
                    return format!("{} IS {}NULL", e, if self.rng.bool() { "NOT " } else { "" });
                }
                7 if self.f.in_list => {
                    self.tag("inlist");
                    let e = self.int_expr(rels, 0);
                    let n = 1 + self.rng.usize(4);
                    let mut items: Vec<String> = (0..n).map(|_| self.int_lit()).collect();
                    if self.rng.chance(1, 4) {
                        items.push("NULL".into());
                        self.tag("inlist-null");
                    }
                    let not = if self.rng.chance(1, 3) { "NOT " } else { "" };
                    return format!("{} {}IN ({})", e, not, items.join(", "));
                }
                8 if self.f.between => {
                    self.tag("between");
                    let not = if self.rng.chance(1, 4) { "NOT " } else { "" };
                    return format!("{} {}BETWEEN {} AND {}", self.int_expr(rels, 0), not, self.int_expr(rels, 0), self.int_expr(rels, 0));
                }
                9 if self.f.like && self.f.strings => {
                    self.tag("like");
                    if let Some((c, _)) = self.col_of(rels, |t| t == Ty::Str) {
                        let not = if self.rng.chance(1, 4) { "NOT " } else { "" };
                        return format!("{} {}LIKE '{}'", c, not, self.rng.pick(&["a%", "%b", "_", "%", "a_", "%a%", "", "ab", "_b%"]));
                    }
                }
                10 if self.f.bools => {
                    if let Some((c, _)) = self.col_of(rels, |t| t == Ty::Bool) {
                        return c;
                    }
                }
                _ => {}
            }
        }
    }

    pub fn pred(&mut self, rels: &[Rel], depth: u32) -> String {
        if depth == 0 || !(self.f.and_or || self.f.not) {
            return self.atom(rels, depth);
        }
        match self.rng.below(8) {
            0 | 1 if self.f.and_or => {
                self.tag("and");
                format!("({} AND {})", self.pred(rels, depth - 1), self.pred(rels, depth - 1))
            }
            2 | 3 if self.f.and_or => {
                self.tag("or");
                format!("({} OR {})", self.pred(rels, depth - 1), self.pred(rels, depth - 1))
            }
            4 if self.f.not => {
                self.tag("not");
                format!("(NOT {})", self.pred(rels, depth - 1))
            }
            _ => self.atom(rels, depth),
        }
    }

    /// Aggregate call over the scope. Returns (text, is_float_result).
    pub fn agg(&mut self, rels: &[Rel]) -> String {
        loop {
            match self.rng.below(10) {
                0 => return "COUNT(*)".into(),
                1 => {
                    let (e, _) = self.scalar(rels, 0);
                    return format!("COUNT({})", e);
                }
                2 | 3 => return format!("SUM({})", self.int_expr(rels, 1)),
                4 if self.f.float => return format!("SUM({})", self.float_expr(rels, 0)),
                5 => {
                    return format!("AVG({})", if self.f.float && self.rng.bool() { self.float_expr(rels, 0) } else { self.int_expr(rels, 0) });
                }
                6 | 7 => {
                    let f = *self.rng.pick(&["MIN", "MAX"]);
                    let e = match self.rng.below(4) {
                        0 if self.f.strings => self.col_of(rels, |t| t == Ty::Str).map(|c| c.0),
                        1 if self.f.dates => self.col_of(rels, |t| t == Ty::Date).map(|c| c.0),
                        2 if self.f.float => Some(self.float_expr(rels, 0)),
                        _ => Some(self.int_expr(rels, 1)),
                    };
                    if let Some(e) = e {
                        return format!("{}({})", f, e);
                    }
                }
                8 if self.f.count_distinct => {
                    self.tag("count-distinct");
                    return format!("COUNT(DISTINCT {})", self.col_of(rels, |t| t.is_int() || t == Ty::Str).map(|c| c.0).unwrap_or("1".into()));
                }
                _ => {}
            }
        }
    }

    /// FROM clause over 1..=max_rels of the given tables. Returns (text, rels).
    /// Join conditions are chosen so that the estimated join output stays
    /// under `JOIN_ROW_CAP` rows (a harness safety bound, not a property).
    pub fn from_clause(&mut self, tables: &[Table], max_rels: usize) -> (String, Vec<Rel>) {
        let n = 1 + self.rng.usize(max_rels.max(1));
        let mut rels: Vec<Rel> = Vec::new();
        let mut rel_tables: Vec<&Table> = Vec::new();
        let mut text = String::new();
        let mut est: f64 = 0.0;
        for i in 0..n {
            let t = &tables[self.rng.usize(tables.len())];
            let alias = format!("r{}", i);
            let rel = Rel::of(t, &alias);
            if i == 0 {
                text = format!("{} AS {}", t.name, alias);
                rels.push(rel);
                rel_tables.push(t);
                est = t.rows.len() as f64;
                continue;
            }
            let jt = loop {
                match self.rng.below(8) {
                    0..=3 => break "JOIN",
                    4 if self.f.outer_joins => break "LEFT JOIN",
                    5 if self.f.outer_joins => break "RIGHT JOIN",
                    6 if self.f.outer_joins => break "FULL JOIN",
                    7 if self.f.cross_join => break "CROSS JOIN",
                    _ => {}
                }
            };
            let jt = if jt == "CROSS JOIN" && est * t.rows.len() as f64 > JOIN_ROW_CAP { "JOIN" } else { jt };
            self.tag(jt);
            if jt == "CROSS JOIN" {
                text = format!("{} CROSS JOIN {} AS {}", text, t.name, alias);
                est *= t.rows.len() as f64;
                rels.push(rel);
                rel_tables.push(t);
                continue;
            }
            // equi keys between the new relation and one earlier relation
            let oi = self.rng.usize(rels.len());
            let other = rels[oi].clone();
            let ot = rel_tables[oi];
            let nk = 1 + self.rng.usize(2);
            let mut conds = Vec::new();
            let mut growth = f64::INFINITY;
            for _ in 0..nk {
                let pairs: Vec<(&str, &str)> = vec![("i0", "i0"), ("i0", "i1"), ("i1", "i0"), ("j0", "i0"), ("i0", "j0"), ("s0", "s0"), ("d0", "d0"), ("id", "i0"), ("i0", "id")];
                let (a, b) = *self.rng.pick(&pairs);
                if (a == "s0" && !self.f.strings) || (a == "d0" && !self.f.dates) {
                    continue;
                }
                growth = growth.min(pair_est(ot, a, t, b) / (ot.rows.len().max(1) as f64));
                conds.push(format!("{}.{} = {}.{}", other.alias, a, alias, b));
            }
            if conds.is_empty() {
                growth = pair_est(ot, "i0", t, "i0") / (ot.rows.len().max(1) as f64);
                conds.push(format!("{}.i0 = {}.i0", other.alias, alias));
            }
            // outer joins keep unmatched rows of either side
            let floor = match jt {
                "FULL JOIN" | "RIGHT JOIN" => t.rows.len() as f64,
                _ => 0.0,
            };
            if est * growth + floor > JOIN_ROW_CAP {
                // fall back to a key join on the unique id
                conds = vec![format!("{}.id = {}.id", other.alias, alias)];
                growth = 1.0;
            }
            est = (est * growth).max(floor).max(1.0);
            let mut all = rels.clone();
            all.push(rel.clone());
            if self.rng.chance(1, 3) {
                // residual predicate touching left only, right only, or both
                self.tag("residual-on");
                let scope: Vec<Rel> = match self.rng.below(3) {
                    0 => vec![other.clone()],
                    1 => vec![rel.clone()],
                    _ => vec![other.clone(), rel.clone()],
                };
                conds.push(self.atom(&scope, 0));
            }
            text = format!("{} {} {} AS {} ON {}", text, jt, t.name, alias, conds.join(" AND "));
            rels.push(rel);
            rel_tables.push(t);
        }
        (text, rels)
    }

    /// ORDER BY over output aliases c0..c{n-1}; returns (text, keys).
    pub fn order_by(&mut self, ncols: usize, all_cols: bool) -> (String, Vec<SortKey>) {
        let mut idx: Vec<usize> = (0..ncols).collect();
        self.rng.shuffle(&mut idx);
        let nk = if all_cols { ncols } else { 1 + self.rng.usize(ncols.min(3)) };
        let mut parts = Vec::new();
        let mut keys = Vec::new();
        for &c in idx.iter().take(nk) {
            let desc = self.rng.bool();
            let (suffix, nulls_first) = match self.rng.below(3) {
                0 if self.f.order_default_nulls => ("{NL}".to_string(), false),
                1 => (" NULLS FIRST".to_string(), true),
                _ => (" NULLS LAST".to_string(), false),
            };
            parts.push(format!("c{}{}{}", c, if desc { " DESC" } else { "" }, suffix));
            keys.push(SortKey { col: c, desc, nulls_first });
        }
        (format!(" ORDER BY {}", parts.join(", ")), keys)
    }

    pub fn decorate(&mut self, core: String, ncols: usize, q: &mut GenQuery) {
        q.ncols = ncols;
        q.full_sql = core.clone();
        q.sql = core;
        if self.rng.chance(1, 2) {
            self.tag("order-by");
            let want_limit = self.f.limit && self.rng.chance(1, 2);
            let (ob, keys) = self.order_by(ncols, want_limit && self.total_order_limit);
            q.sql.push_str(&ob);
            q.keys = keys;
            if want_limit {
                self.tag("limit");
                let l = *self.rng.pick(&[0usize, 1, 2, 3, 5, 10, 1000]);
                q.limit = Some(l);
                q.sql.push_str(&format!(" LIMIT {}", l));
                if self.rng.chance(1, 3) {
                    self.tag("offset");
                    let o = *self.rng.pick(&[0usize, 1, 2, 5, 1000]);
                    q.offset = o;
                    q.sql.push_str(&format!(" OFFSET {}", o));
                }
            }
        }
    }

    /// Plain select-project-filter(-join).
    pub fn q_simple(&mut self, tables: &[Table], max_rels: usize) -> GenQuery {
        let mut q = GenQuery::default();
        let (from, rels) = self.from_clause(tables, max_rels);
        let n = 1 + self.rng.usize(4);
        let mut items = Vec::new();
        for i in 0..n {
            let (e, _) = self.scalar(&rels, 2);
            items.push(format!("{} AS c{}", e, i));
        }
        let distinct = self.f.distinct && self.rng.chance(1, 6);
        if distinct {
            self.tag("distinct");
        }
        let mut core = format!("SELECT {}{} FROM {}", if distinct { "DISTINCT " } else { "" }, items.join(", "), from);
        if self.rng.chance(2, 3) {
            self.tag("where");
            core.push_str(&format!(" WHERE {}", self.pred(&rels, 2)));
        }
        self.decorate(core, n, &mut q);
        q.tags = self.tags.clone();
        q
    }

    /// Grouped or global aggregate.
    pub fn q_agg(&mut self, tables: &[Table], max_rels: usize) -> GenQuery {
        let mut q = GenQuery::default();
        let (from, rels) = self.from_clause(tables, max_rels);
        let nkeys = self.rng.usize(3);
        let mut items = Vec::new();
        let mut keys_txt = Vec::new();
        for _ in 0..nkeys {
            let k = match self.rng.below(6) {
                0 if self.f.strings => self.col_of(&rels, |t| t == Ty::Str).map(|c| c.0),
                1 if self.f.dates => self.col_of(&rels, |t| t == Ty::Date).map(|c| c.0),
                2 if self.f.bools => self.col_of(&rels, |t| t == Ty::Bool).map(|c| c.0),
                3 => Some(self.int_expr(&rels, 1)),
                _ => self.col_of(&rels, |t| t.is_int()).map(|c| c.0),
            };
            // a bare literal in GROUP BY is an ordinal in SQL; keys must name a column
            let k = k.filter(|k| k.contains('.'));
            if let Some(k) = k {
                if !keys_txt.contains(&k) {
                    items.push(format!("{} AS c{}", k, items.len()));
                    keys_txt.push(k);
                }
            }
        }
        let naggs = 1 + self.rng.usize(3);
        let mut aggs = Vec::new();
        for _ in 0..naggs {
            let a = self.agg(&rels);
            items.push(format!("{} AS c{}", a, items.len()));
            aggs.push(a);
        }
        self.tag(if keys_txt.is_empty() { "global-agg" } else { "group-by" });
        let mut core = format!("SELECT {} FROM {}", items.join(", "), from);
        if self.rng.chance(1, 2) {
            self.tag("where");
            core.push_str(&format!(" WHERE {}", self.pred(&rels, 1)));
        }
        if !keys_txt.is_empty() {
            core.push_str(&format!(" GROUP BY {}", keys_txt.join(", ")));
        }
        if self.f.having && self.rng.chance(1, 3) {
            self.tag("having");
            let a = if self.rng.bool() { aggs[0].clone() } else { self.agg(&rels) };
            core.push_str(&format!(" HAVING {} {} {}", a, self.cmp_op(), self.int_lit()));
        }
        let n = items.len();
        self.decorate(core, n, &mut q);
        q.tags = self.tags.clone();
        q
    }
}
