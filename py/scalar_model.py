#!/usr/bin/env python3
"""Reference model for C36 (scalar functions), python3 stdlib only.

usage: scalar_model.py <observations.jsonl>
Each input line: {"f": NAME, "args": [cell...], "out": cell | {"err": msg}, "path": "column"|"literal", "id": n}
A cell is null, int, {"f": float | "NaN" | "inf" | "-inf"}, string, {"d": days-since-epoch}, bool.
Output lines (JSON): {"id", "f", "verdict": "ok"|"mismatch"|"unmodelled"|"skip", "want", "why"}
The model states the documented Trino value. WANT_ERR means Trino raises an error
(the engine must not return a value); SKIP means the documentation leaves it open
or the stdlib cannot compute it reliably.
"""
import sys, json, math, re, hashlib, base64, zlib, hmac, struct, unicodedata, datetime, urllib.parse

class Err(Exception):
    pass
class Skip(Exception):
    pass

I64_MIN, I64_MAX = -2**63, 2**63 - 1

def chk_i64(v):
    if v < I64_MIN or v > I64_MAX:
        raise Err("bigint out of range")
    return v

def dec(c):
    if c is None or isinstance(c, (bool, int, str)):
        return c
    if isinstance(c, dict):
        if "f" in c:
            v = c["f"]
            if isinstance(v, str):
                return {"NaN": math.nan, "inf": math.inf, "-inf": -math.inf}[v]
            return float(v)
        if "d" in c:
            return datetime.date(1970, 1, 1) + datetime.timedelta(days=c["d"])
        if "err" in c:
            return c
    return c

def is_f(x):
    return isinstance(x, float)

def jround(x):
    """Trino round(double): half away from zero."""
    if math.isnan(x) or math.isinf(x):
        return x
    return math.copysign(math.floor(abs(x) + 0.5), x)

def trunc_div(a, b):
    q = abs(a) // abs(b)
    return q if (a >= 0) == (b >= 0) else -q

def f_abs(x):
    if is_f(x):
        return abs(x)
    if x == I64_MIN:
        raise Err("abs of bigint minimum")
    return abs(x)

def f_mod(a, b):
    if is_f(a) or is_f(b):
        a, b = float(a), float(b)
        if b == 0 or math.isinf(a) or math.isnan(a) or math.isnan(b):
            return math.nan
        return math.fmod(a, b)
    if b == 0:
        raise Err("division by zero")
    return a - b * trunc_div(a, b)

def f_sign(x):
    if is_f(x):
        if math.isnan(x):
            return math.nan
        return 0.0 if x == 0 else math.copysign(1.0, x)
    return (x > 0) - (x < 0)

def f_round(x, d=None):
    if d is None or d == 0:
        return jround(x) if is_f(x) else x
    if not is_f(x):
        if d > 0:
            return x
        f = 10 ** (-d)
        if f > 10**19:
            return 0
        q = abs(x) // f
        r = abs(x) - q * f
        if r * 2 >= f:
            q += 1
        return chk_i64(int(math.copysign(1, x)) * q * f if x != 0 else 0)
    if math.isnan(x) or math.isinf(x):
        return x
    # only exactly decidable cases: the scaled value must be exactly representable
    f = 10.0 ** d
    s = x * f
    if abs(s) > 2**52 or abs(d) > 15:
        raise Skip("scaled value not exact")
    frac = abs(s) - math.floor(abs(s))
    if abs(frac - 0.5) < 1e-6 and frac != 0.5:
        raise Skip("too close to a tie to decide in binary floating point")
    return jround(s) / f

def f_trunc(x, d=None):
    if d is None:
        return float(math.trunc(x)) if is_f(x) and math.isfinite(x) else x
    raise Skip("truncate(x, d)")

def f_ln(x):
    x = float(x)
    if math.isnan(x):
        return math.nan
    if x == 0:
        return -math.inf
    if x < 0:
        return math.nan
    return math.log(x) if math.isfinite(x) else x

def f_logb(fn):
    def g(x):
        x = float(x)
        if math.isnan(x) or x < 0:
            return math.nan
        if x == 0:
            return -math.inf
        if math.isinf(x):
            return x
        return fn(x)
    return g

def f_sqrt(x):
    x = float(x)
    if math.isnan(x) or x < 0:
        return math.nan
    return math.sqrt(x) if math.isfinite(x) else x

def f_power(a, b):
    a, b = float(a), float(b)
    try:
        return math.pow(a, b)
    except OverflowError:
        raise Skip("overflow sign")
    except ValueError:
        # Python raises where IEEE 754 / Java Math.pow define a result
        if a == 0.0 and b < 0:
            odd = b == math.floor(b) and abs(b) < 2**53 and int(b) % 2 != 0
            return -math.inf if (odd and math.copysign(1.0, a) < 0) else math.inf
        return math.nan

def f_exp(x):
    try:
        return math.exp(float(x))
    except OverflowError:
        return math.inf

def trig(fn):
    def g(*a):
        a = [float(x) for x in a]
        if any(math.isnan(x) for x in a):
            return math.nan
        try:
            return fn(*a)
        except (ValueError, OverflowError):
            if fn in (math.sinh, math.cosh):
                raise Skip("overflow")
            return math.nan
    return g

def f_cbrt(x):
    x = float(x)
    if not math.isfinite(x):
        return x
    return math.copysign(abs(x) ** (1.0 / 3.0), x)

def f_from_base(s, radix):
    if radix < 2 or radix > 36:
        raise Err("radix")
    try:
        v = int(s, radix)
    except ValueError:
        raise Err("not a number in that base")
    if not re.fullmatch(r"[+-]?[0-9a-zA-Z]+", s):
        raise Err("not a number in that base")
    return chk_i64(v)

def f_to_base(v, radix):
    if radix < 2 or radix > 36:
        raise Err("radix")
    digs = "0123456789abcdefghijklmnopqrstuvwxyz"
    if v == 0:
        return "0"
    n, out = abs(v), ""
    while n:
        out = digs[n % radix] + out
        n //= radix
    return ("-" if v < 0 else "") + out

def f_width_bucket(x, b1, b2, n):
    x, b1, b2 = float(x), float(b1), float(b2)
    if n <= 0:
        raise Err("bucket count")
    if math.isnan(x) or not math.isfinite(b1) or not math.isfinite(b2) or b1 == b2:
        raise Err("bounds")
    if b1 > b2:
        raise Skip("descending bounds")
    lo, hi = min(b1, b2), max(b1, b2)
    if x < lo:
        r = 0
    elif x >= hi:
        r = n + 1
    else:
        r = int(n * (x - lo) / (hi - lo)) + 1
    if b1 > b2:
        r = n + 1 - r
        if x == hi:  # descending: upper bound is inclusive on the first bucket side
            raise Skip("descending bound edge")
    return r

def cp_len(s):
    return len(s)

def f_substr(s, start, length=None):
    n = len(s)
    if start == 0:
        return ""
    if start > 0:
        i = start - 1
    else:
        i = n + start
        if i < 0:
            return ""
    if i >= n:
        return ""
    if length is None:
        return s[i:]
    if length <= 0:
        return ""
    return s[i:i + length]

def f_strpos(s, sub):
    return s.find(sub) + 1

def f_pad(left):
    def g(s, size, pad):
        if size < 0 or size > 2**31 - 1:
            raise Err("size")
        if pad == "":
            raise Err("empty padding")
        if size <= len(s):
            return s[:size]
        need = size - len(s)
        p = (pad * (need // len(pad) + 1))[:need]
        return p + s if left else s + p
    return g

def f_split_part(s, d, idx):
    if idx <= 0:
        raise Err("index")
    if d == "":
        # Trino: every character is a field
        parts = list(s)
        return parts[idx - 1] if idx <= len(parts) else None
    parts = s.split(d)
    return parts[idx - 1] if idx <= len(parts) else None

def f_chr(n):
    if n < 0 or n > 0x10FFFF or 0xD800 <= n <= 0xDFFF:
        raise Err("code point")
    return chr(n)

def f_codepoint(s):
    if len(s) != 1:
        raise Err("not a single character")
    return ord(s)

def f_concat(*a):
    if any(x is None for x in a):
        return None
    return "".join(a)

def f_concat_ws(sep, *a):
    if sep is None:
        return None
    return sep.join(x for x in a if x is not None)

def f_hamming(a, b):
    if len(a) != len(b):
        raise Err("length")
    return sum(1 for x, y in zip(a, b) if x != y)

def f_lev(a, b):
    prev = list(range(len(b) + 1))
    for i, ca in enumerate(a, 1):
        cur = [i]
        for j, cb in enumerate(b, 1):
            cur.append(min(prev[j] + 1, cur[j - 1] + 1, prev[j - 1] + (ca != cb)))
        prev = cur
    return prev[-1]

def f_translate(s, frm, to):
    m = {}
    for i, ch in enumerate(frm):
        if ch not in m:
            m[ch] = to[i] if i < len(to) else None
    return "".join(m.get(ch, ch) if ch in m and m[ch] is not None else ("" if ch in m else ch) for ch in s)

def f_luhn(s):
    if s == "" or not s.isascii() or not s.isdigit():
        raise Err("not digits")
    tot = 0
    for i, ch in enumerate(reversed(s)):
        d = int(ch)
        if i % 2 == 1:
            d *= 2
            if d > 9:
                d -= 9
        tot += d
    return tot % 10 == 0

def f_soundex(s):
    codes = {}
    for g, c in (("BFPV", "1"), ("CGJKQSXZ", "2"), ("DT", "3"), ("L", "4"), ("MN", "5"), ("R", "6")):
        for ch in g:
            codes[ch] = c
    t = [ch for ch in s.upper() if ch.isascii() and ch.isalpha()]
    if not t or len(t) != len(s):
        raise Skip("non-letters")
    out = t[0]
    last = codes.get(t[0], "")
    for ch in t[1:]:
        c = codes.get(ch, "")
        if c and c != last:
            out += c
        if ch not in "HW":
            last = c
    return (out + "000")[:4]

# --- dates -----------------------------------------------------------------
def need_date(d):
    if not isinstance(d, datetime.date):
        raise Skip("not a date")
    return d

def f_week(d):
    return need_date(d).isocalendar()[1]
def f_yow(d):
    return need_date(d).isocalendar()[0]
def f_dow(d):
    return need_date(d).isoweekday()
def f_doy(d):
    return need_date(d).timetuple().tm_yday

def last_dom(y, m):
    return (datetime.date(y + (m == 12), m % 12 + 1, 1) - datetime.timedelta(days=1)).day

def add_months(d, n):
    t = d.year * 12 + (d.month - 1) + n
    y, m = divmod(t, 12)
    m += 1
    if y < 1 or y > 9999:
        raise Skip("year range")
    return datetime.date(y, m, min(d.day, last_dom(y, m)))

def f_date_add(unit, n, d):
    d = need_date(d)
    u = unit.lower()
    try:
        if u == "day":
            return d + datetime.timedelta(days=n)
        if u == "week":
            return d + datetime.timedelta(days=7 * n)
        if u == "month":
            return add_months(d, n)
        if u == "quarter":
            return add_months(d, 3 * n)
        if u == "year":
            return add_months(d, 12 * n)
    except OverflowError:
        raise Skip("range")
    raise Err("unit not valid for a date")

def f_date_diff(unit, a, b):
    a, b = need_date(a), need_date(b)
    u = unit.lower()
    days = (b - a).days
    if u == "day":
        return days
    if u == "week":
        return trunc_div(days, 7) if days else 0
    if u in ("month", "quarter", "year"):
        m = (b.year - a.year) * 12 + (b.month - a.month)
        # whole months: step back when the day of month has not been reached
        if m > 0 and add_months(a, m) > b:
            m -= 1
        elif m < 0 and add_months(a, m) < b:
            m += 1
        k = {"month": 1, "quarter": 3, "year": 12}[u]
        return trunc_div(m, k) if m else 0
    raise Err("unit")

def f_date_trunc(unit, d):
    d = need_date(d)
    u = unit.lower()
    if u == "day":
        return d
    if u == "week":
        return d - datetime.timedelta(days=d.isoweekday() - 1)
    if u == "month":
        return d.replace(day=1)
    if u == "quarter":
        return datetime.date(d.year, (d.month - 1) // 3 * 3 + 1, 1)
    if u == "year":
        return datetime.date(d.year, 1, 1)
    raise Err("unit")

def f_last_day(d):
    d = need_date(d)
    return datetime.date(d.year, d.month, last_dom(d.year, d.month))

def f_from_iso_date(s):
    m = re.fullmatch(r"(\d{4})-(\d{2})-(\d{2})", s)
    if not m:
        wk = re.fullmatch(r"(\d{4})-W(\d{2})(?:-(\d))?", s)
        if wk:
            try:
                return datetime.date.fromisocalendar(int(wk.group(1)), int(wk.group(2)), int(wk.group(3) or 1))
            except ValueError:
                raise Err("bad date")
        raise Skip("other ISO forms")
    try:
        return datetime.date(int(m.group(1)), int(m.group(2)), int(m.group(3)))
    except ValueError:
        raise Err("bad date")

# --- conditional --------------------------------------------------------------
def f_coalesce(*a):
    for x in a:
        if x is not None:
            return x
    return None

def f_nullif(a, b):
    if a is None:
        return None
    if b is None:
        return a
    return None if a == b else a

def f_if(c, a, b=None):
    return a if c is True else b

def f_greatest(*a):
    if any(x is None for x in a):
        return None
    if any(is_f(x) and math.isnan(x) for x in a):
        raise Skip("NaN ordering")
    return max(a)

def f_least(*a):
    if any(x is None for x in a):
        return None
    if any(is_f(x) and math.isnan(x) for x in a):
        raise Skip("NaN ordering")
    return min(a)

# --- regex (patterns are restricted by the generator to a common subset) -----
def jrepl(r):
    return re.sub(r"\$(\d)", lambda m: "\\g<%s>" % m.group(1), r.replace("\\", "\\\\"))

def no_empty_match(p):
    # what a scan does after an empty match (advance, allow an empty match right
    # after a non-empty one, ...) differs between regex engines and is not documented
    if re.fullmatch(p, "") is not None or re.search(p, "") is not None:
        raise Skip("pattern can match the empty string")

def f_regexp_like(s, p):
    return re.search(p, s) is not None

def f_regexp_extract(s, p, g=0):
    m = re.search(p, s)
    if not m:
        return None
    if g > (m.re.groups):
        raise Err("group")
    return m.group(g)

def f_regexp_replace(s, p, r=""):
    no_empty_match(p)
    return re.sub(p, jrepl(r), s)

def f_regexp_count(s, p):
    no_empty_match(p)
    return sum(1 for _ in re.finditer(p, s))

def f_regexp_position(s, p):
    m = re.search(p, s)
    return m.start() + 1 if m else -1

# --- encodings (observed through TO_HEX / FROM_UTF8 wrappers) -----------------
def b_utf8(s):
    return s.encode("utf-8")

def hexu(b):
    return b.hex().upper()

# --- bitwise -----------------------------------------------------------------------
def tw(v):
    return v & (2**64 - 1)
def sg(v):
    v &= 2**64 - 1
    return v - 2**64 if v >= 2**63 else v

def f_bit_count(x, bits):
    if bits < 2 or bits > 64:
        raise Err("bits")
    if bits < 64 and not (-(2 ** (bits - 1)) <= x < 2 ** (bits - 1)):
        raise Err("does not fit")
    return bin(x & (2**bits - 1)).count("1")

def f_shl(v, s):
    if s < 0 or s >= 64:
        raise Skip("shift outside 0..63 is not documented")
    return 0 if s >= 64 else sg(tw(v) << s)
def f_shr(v, s):
    if s < 0 or s >= 64:
        raise Skip("shift outside 0..63 is not documented")
    return 0 if s >= 64 else sg(tw(v) >> s)
def f_sar(v, s):
    if s < 0 or s >= 64:
        raise Skip("shift outside 0..63 is not documented")
    return (-1 if v < 0 else 0) if s >= 64 else v >> s

# --- URL -----------------------------------------------------------------------------
def url_parts(u):
    # Trino uses java.net.URI; restrict to URLs both parsers treat alike
    if not re.fullmatch(r"[a-z][a-z0-9+.-]*://[A-Za-z0-9.-]+(:\d+)?(/[A-Za-z0-9._~/%-]*)?(\?[A-Za-z0-9._~&=%+-]*)?(#[A-Za-z0-9._~%-]*)?", u):
        raise Skip("URL outside the common subset")
    return urllib.parse.urlsplit(u)

def f_url_host(u):
    return url_parts(u).hostname
def f_url_path(u):
    p = url_parts(u).path
    if p == "":
        raise Skip("empty path")
    return p
def f_url_port(u):
    return url_parts(u).port
def f_url_protocol(u):
    return url_parts(u).scheme
def f_url_query(u):
    p = url_parts(u)
    return p.query if "?" in u else None
def f_url_fragment(u):
    p = url_parts(u)
    return p.fragment if "#" in u else None
def f_url_param(u, name):
    p = url_parts(u)
    if "?" not in u:
        return None
    for kv in p.query.split("&"):
        k, _, v = kv.partition("=")
        if urllib.parse.unquote_plus(k) == name:
            return urllib.parse.unquote_plus(v)
    return None

def f_url_encode(s):
    # java.net.URLEncoder / Trino: letters, digits and -_.* stay, space -> '+'
    out = []
    for b in s.encode("utf-8"):
        ch = chr(b)
        if ch.isascii() and (ch.isalnum() or ch in "-_.*"):
            out.append(ch)
        elif ch == " ":
            out.append("+")
        else:
            out.append("%%%02X" % b)
    return "".join(out)

def f_url_decode(s):
    if re.search(r"%(?![0-9A-Fa-f]{2})", s):
        raise Err("bad escape")
    try:
        return urllib.parse.unquote_plus(s, errors="strict")
    except UnicodeDecodeError:
        raise Skip("invalid UTF-8 after decoding")

# --- JSON ------------------------------------------------------------------------------
def jpath(path):
    if not path.startswith("$"):
        raise Err("path")
    toks = re.findall(r"\.([A-Za-z_][A-Za-z0-9_]*)|\[(\d+)\]|\[\"([^\"]*)\"\]", path[1:])
    if "".join(("." + a) if a else ("[%s]" % b if b else '["%s"]' % c) for a, b, c in toks) != path[1:]:
        raise Skip("path syntax outside the modelled subset")
    return [a if a else (int(b) if b else c) for a, b, c in toks]

def jget(doc, path):
    try:
        v = json.loads(doc)
    except ValueError:
        return ("invalid", None)
    for t in jpath(path):
        if isinstance(t, int):
            if isinstance(v, list) and t < len(v):
                v = v[t]
            else:
                return ("missing", None)
        else:
            if isinstance(v, dict) and t in v:
                v = v[t]
            else:
                return ("missing", None)
    return ("ok", v)

def f_json_extract_scalar(doc, path):
    st, v = jget(doc, path)
    if st != "ok" or isinstance(v, (list, dict)) or v is None:
        return None
    if isinstance(v, bool):
        return "true" if v else "false"
    if isinstance(v, float):
        raise Skip("number formatting")
    return str(v)

def f_json_array_length(doc):
    try:
        v = json.loads(doc)
    except ValueError:
        return None
    return len(v) if isinstance(v, list) else None

def f_json_size(doc, path):
    st, v = jget(doc, path)
    if st != "ok":
        return None
    return len(v) if isinstance(v, (list, dict)) else 0

def f_json_array_contains(doc, x):
    try:
        v = json.loads(doc)
    except ValueError:
        raise Skip("not JSON")
    if not isinstance(v, list):
        raise Skip("not an array")
    for e in v:
        if type(e) == type(x) and e == x:
            return True
        if isinstance(e, (int, float)) and not isinstance(e, bool) and isinstance(x, (int, float)) and not isinstance(x, bool) and e == x:
            return True
    return False

def null_in_null_out(fn):
    def g(*a):
        if any(x is None for x in a):
            return None
        return fn(*a)
    return g

N = null_in_null_out
MODEL = {
    "ABS": N(f_abs), "CEIL": N(lambda x: float(math.ceil(x)) if is_f(x) and math.isfinite(x) else x), "CEILING": N(lambda x: float(math.ceil(x)) if is_f(x) and math.isfinite(x) else x),
    "FLOOR": N(lambda x: float(math.floor(x)) if is_f(x) and math.isfinite(x) else x), "ROUND": N(f_round), "TRUNCATE": N(f_trunc),
    "POWER": N(f_power), "POW": N(f_power), "SQRT": N(f_sqrt), "MOD": N(f_mod), "SIGN": N(f_sign),
    "LN": N(f_ln), "LOG2": N(f_logb(math.log2)), "LOG10": N(f_logb(math.log10)), "EXP": N(f_exp), "CBRT": N(f_cbrt),
    "SIN": N(trig(math.sin)), "COS": N(trig(math.cos)), "TAN": N(trig(math.tan)), "ASIN": N(trig(math.asin)), "ACOS": N(trig(math.acos)), "ATAN": N(trig(math.atan)),
    "ATAN2": N(trig(math.atan2)), "SINH": N(trig(math.sinh)), "COSH": N(trig(math.cosh)), "TANH": N(trig(math.tanh)), "DEGREES": N(trig(math.degrees)), "RADIANS": N(trig(math.radians)),
    "IS_NAN": N(lambda x: math.isnan(float(x))), "IS_FINITE": N(lambda x: math.isfinite(float(x))), "IS_INFINITE": N(lambda x: math.isinf(float(x))),
    "FROM_BASE": N(f_from_base), "TO_BASE": N(f_to_base), "WIDTH_BUCKET": N(f_width_bucket),
    "UPPER": N(lambda s: s.upper()), "LOWER": N(lambda s: s.lower()), "LENGTH": N(cp_len), "CHARACTER_LENGTH": N(cp_len),
    "TRIM": N(lambda s: s.strip(" \t\n\r\x0b\x0c") if s.isascii() else (_ for _ in ()).throw(Skip("unicode whitespace"))),
    "LTRIM": N(lambda s: s.lstrip(" \t\n\r\x0b\x0c") if s.isascii() else (_ for _ in ()).throw(Skip("unicode whitespace"))),
    "RTRIM": N(lambda s: s.rstrip(" \t\n\r\x0b\x0c") if s.isascii() else (_ for _ in ()).throw(Skip("unicode whitespace"))),
    "SUBSTR": N(f_substr), "SUBSTRING": N(f_substr), "REPLACE": N(lambda s, a, b="": s.replace(a, b)), "STRPOS": N(f_strpos), "POSITION": N(lambda sub, s: f_strpos(s, sub)),
    "REVERSE": N(lambda s: s[::-1]), "LPAD": N(f_pad(True)), "RPAD": N(f_pad(False)), "SPLIT_PART": N(f_split_part),
    "STARTS_WITH": N(lambda s, p: s.startswith(p)), "ENDS_WITH": N(lambda s, p: s.endswith(p)), "CHR": N(f_chr), "CODEPOINT": N(f_codepoint),
    "CONCAT": f_concat, "CONCAT_WS": f_concat_ws, "HAMMING_DISTANCE": N(f_hamming), "LEVENSHTEIN_DISTANCE": N(f_lev), "TRANSLATE": N(f_translate),
    "LUHN_CHECK": N(f_luhn), "SOUNDEX": N(f_soundex), "NORMALIZE": N(lambda s: unicodedata.normalize("NFC", s)),
    "YEAR": N(lambda d: need_date(d).year), "MONTH": N(lambda d: need_date(d).month), "DAY": N(lambda d: need_date(d).day), "QUARTER": N(lambda d: (need_date(d).month - 1) // 3 + 1),
    "WEEK": N(f_week), "YEAR_OF_WEEK": N(f_yow), "DAY_OF_WEEK": N(f_dow), "DAYOFWEEK": N(f_dow), "DAY_OF_YEAR": N(f_doy), "DAYOFYEAR": N(f_doy),
    "DATE_ADD": N(f_date_add), "DATE_DIFF": N(f_date_diff), "DATEDIFF": N(f_date_diff), "DATE_TRUNC": N(f_date_trunc), "LAST_DAY_OF_MONTH": N(f_last_day), "FROM_ISO8601_DATE": N(f_from_iso_date),
    "TO_ISO8601": N(lambda d: need_date(d).isoformat()),
    "COALESCE": f_coalesce, "NULLIF": f_nullif, "IF": f_if, "GREATEST": f_greatest, "LEAST": f_least,
    "REGEXP_LIKE": N(f_regexp_like), "REGEXP_EXTRACT": N(f_regexp_extract), "REGEXP_REPLACE": N(f_regexp_replace), "REGEXP_COUNT": N(f_regexp_count), "REGEXP_POSITION": N(f_regexp_position),
    # composites named by the generator: the wrapper is part of the name
    "TO_HEX(TO_UTF8": N(lambda s: hexu(b_utf8(s))), "FROM_UTF8(FROM_HEX": N(lambda h: bytes.fromhex(h).decode("utf-8") if len(h) % 2 == 0 and re.fullmatch(r"[0-9A-Fa-f]*", h) else (_ for _ in ()).throw(Err("hex"))),
    "TO_HEX(MD5(TO_UTF8": N(lambda s: hexu(hashlib.md5(b_utf8(s)).digest())), "TO_HEX(SHA1(TO_UTF8": N(lambda s: hexu(hashlib.sha1(b_utf8(s)).digest())),
    "TO_HEX(SHA256(TO_UTF8": N(lambda s: hexu(hashlib.sha256(b_utf8(s)).digest())), "TO_HEX(SHA512(TO_UTF8": N(lambda s: hexu(hashlib.sha512(b_utf8(s)).digest())),
    "CRC32(TO_UTF8": N(lambda s: zlib.crc32(b_utf8(s))), "TO_BASE64(TO_UTF8": N(lambda s: base64.b64encode(b_utf8(s)).decode()),
    "TO_BASE64URL(TO_UTF8": N(lambda s: base64.urlsafe_b64encode(b_utf8(s)).decode()), "TO_BASE32(TO_UTF8": N(lambda s: base64.b32encode(b_utf8(s)).decode()),
    "FROM_UTF8(FROM_BASE64(TO_BASE64(TO_UTF8": N(lambda s: s), "FROM_UTF8(FROM_BASE32(TO_BASE32(TO_UTF8": N(lambda s: s), "FROM_UTF8(FROM_BASE64URL(TO_BASE64URL(TO_UTF8": N(lambda s: s),
    "TO_HEX(HMAC_SHA256(TO_UTF8": N(lambda s, k: hexu(hmac.new(b_utf8(k), b_utf8(s), hashlib.sha256).digest())), "TO_HEX(HMAC_MD5(TO_UTF8": N(lambda s, k: hexu(hmac.new(b_utf8(k), b_utf8(s), hashlib.md5).digest())),
    "TO_HEX(HMAC_SHA1(TO_UTF8": N(lambda s, k: hexu(hmac.new(b_utf8(k), b_utf8(s), hashlib.sha1).digest())), "TO_HEX(HMAC_SHA512(TO_UTF8": N(lambda s, k: hexu(hmac.new(b_utf8(k), b_utf8(s), hashlib.sha512).digest())),
    "TO_HEX(TO_BIG_ENDIAN_64": N(lambda v: hexu(struct.pack(">q", v))), "TO_HEX(TO_BIG_ENDIAN_32": N(lambda v: hexu(struct.pack(">i", v)) if -2**31 <= v < 2**31 else (_ for _ in ()).throw(Err("int range"))),
    "FROM_BIG_ENDIAN_64(TO_BIG_ENDIAN_64": N(lambda v: v), "TO_HEX(TO_IEEE754_64": N(lambda x: hexu(struct.pack(">d", float(x))) if not math.isnan(float(x)) else (_ for _ in ()).throw(Skip("NaN payload"))),
    "FROM_IEEE754_64(TO_IEEE754_64": N(lambda x: float(x)),
    "BITWISE_AND": N(lambda a, b: a & b), "BITWISE_OR": N(lambda a, b: a | b), "BITWISE_XOR": N(lambda a, b: a ^ b), "BITWISE_NOT": N(lambda a: ~a), "BIT_COUNT": N(f_bit_count),
    "BITWISE_LEFT_SHIFT": N(f_shl), "BITWISE_RIGHT_SHIFT": N(f_shr), "BITWISE_RIGHT_SHIFT_ARITHMETIC": N(f_sar),
    "URL_EXTRACT_HOST": N(f_url_host), "URL_EXTRACT_PATH": N(f_url_path), "URL_EXTRACT_PORT": N(f_url_port), "URL_EXTRACT_PROTOCOL": N(f_url_protocol), "URL_EXTRACT_QUERY": N(f_url_query),
    "URL_EXTRACT_FRAGMENT": N(f_url_fragment), "URL_EXTRACT_PARAMETER": N(f_url_param), "URL_ENCODE": N(f_url_encode), "URL_DECODE": N(f_url_decode),
    "JSON_EXTRACT_SCALAR": N(f_json_extract_scalar), "JSON_ARRAY_LENGTH": N(f_json_array_length), "JSON_SIZE": N(f_json_size), "JSON_ARRAY_CONTAINS": N(f_json_array_contains),
}

TRANSCENDENTAL = {"LN", "LOG2", "LOG10", "EXP", "CBRT", "SIN", "COS", "TAN", "ASIN", "ACOS", "ATAN", "ATAN2", "SINH", "COSH", "TANH", "POWER", "POW", "SQRT", "DEGREES", "RADIANS"}

def same(f, got, want):
    if want is None or got is None:
        return want is None and got is None
    if isinstance(want, bool) or isinstance(got, bool):
        return isinstance(got, bool) and isinstance(want, bool) and got == want
    if isinstance(want, float) or isinstance(got, float):
        if isinstance(got, (str, datetime.date)) or isinstance(want, (str, datetime.date)):
            return False
        g, w = float(got), float(want)
        if math.isnan(w) or math.isnan(g):
            return math.isnan(w) and math.isnan(g)
        if math.isinf(w) or math.isinf(g):
            return g == w
        tol = 1e-9 if f in TRANSCENDENTAL else 1e-12
        return abs(g - w) <= tol * max(1.0, abs(w))
    return type(got) == type(want) and got == want

def enc(v):
    if isinstance(v, float):
        return {"f": v if math.isfinite(v) else ("NaN" if math.isnan(v) else ("inf" if v > 0 else "-inf"))}
    if isinstance(v, datetime.date):
        return {"d": (v - datetime.date(1970, 1, 1)).days}
    return v

def main():
    for line in open(sys.argv[1]):
        o = json.loads(line)
        f = o["f"]
        res = {"id": o["id"], "f": f}
        fn = MODEL.get(f)
        if fn is None:
            res["verdict"] = "unmodelled"
            print(json.dumps(res)); continue
        args = [dec(a) for a in o["args"]]
        out = o["out"]
        got_err = isinstance(out, dict) and "err" in out
        try:
            want = fn(*args)
        except Skip as e:
            res["verdict"] = "skip"; res["why"] = str(e)
            print(json.dumps(res)); continue
        except Err as e:
            # Trino raises here. The property speaks of values and NULLs, not of
            # which inputs must be rejected, so an engine that answers something
            # else is not judged.
            res["verdict"] = "ok" if got_err else "skip"; res["why"] = "Trino raises: %s" % e
            print(json.dumps(res)); continue
        except Exception as e:  # a model bug must never look like an engine defect
            res["verdict"] = "skip"; res["why"] = "model exception: %r" % e
            print(json.dumps(res)); continue
        if got_err:
            res["verdict"] = "mismatch"; res["want"] = enc(want); res["why"] = "engine error: " + out["err"][:160]
        elif same(f, dec(out), want):
            res["verdict"] = "ok"
        else:
            res["verdict"] = "mismatch"; res["want"] = enc(want); res["why"] = "value"
        print(json.dumps(res))

if __name__ == "__main__":
    main()
