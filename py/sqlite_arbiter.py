#!/usr/bin/env python3
"""SQLite arbiter (DESIGN.md 2.3): a second, unrelated SQL implementation that
is consulted only when the engine and DataFusion disagree.

stdin : {"tables":[{"name":..,"cols":["id:i64","s0:str?",..],"rows":[[..],..]}], "sql": "..."}
stdout: {"ok": [[cell,..],..]}  or  {"err": "..."}
Cells : null, int, float, str, bool -> 0/1, dates as ISO text 'YYYY-MM-DD' (JSON "d:YYYY-MM-DD" on input).
"""
import json, sqlite3, sys, math

def main():
    req = json.load(sys.stdin)
    con = sqlite3.connect(":memory:")
    con.execute("PRAGMA case_sensitive_like=ON")
    try:
        for t in req["tables"]:
            cols = []
            for c in t["cols"]:
                n, ty = c.split(":")
                ty = ty.rstrip("?")
                aff = {"i64": "INTEGER", "i32": "INTEGER", "f64": "REAL", "str": "TEXT", "date": "TEXT", "bool": "INTEGER"}[ty]
                cols.append(f'"{n}" {aff}')
            con.execute(f'CREATE TABLE "{t["name"]}" ({", ".join(cols)})')
            def conv(v):
                if isinstance(v, bool):
                    return int(v)
                if isinstance(v, str) and v.startswith("d:"):
                    return v[2:]
                return v
            rows = [[conv(v) for v in r] for r in t["rows"]]
            if rows:
                con.executemany(f'INSERT INTO "{t["name"]}" VALUES ({",".join("?" * len(rows[0]))})', rows)
        cur = con.execute(req["sql"])
        out = []
        for r in cur.fetchall():
            row = []
            for v in r:
                if isinstance(v, float) and not math.isfinite(v):
                    row.append(str(v))
                elif isinstance(v, bytes):
                    row.append(v.decode("utf-8", "replace"))
                else:
                    row.append(v)
            out.append(row)
        print(json.dumps({"ok": out}))
    except Exception as e:
        print(json.dumps({"err": str(e)}))

if __name__ == "__main__":
    main()
