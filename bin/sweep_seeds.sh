#!/bin/bash
# usage: bin/sweep_seeds.sh <tier> <seed>...   — every registered check at the given seeds; prints one line per run
# (exit codes other than 0 are what to look at: 1 = VIOLATION on the unchanged tree, 2 = inconclusive)
TIER="$1"; shift
cd "$(dirname "$0")/.."
IDS=$(python3 -c "import json; print(' '.join(c['property_id'] for c in json.load(open('MANIFEST.json'))['checks']))")
for seed in "$@"; do
  for id in $IDS; do
    s=$(date +%s)
    out=$(VERIF_SEED=$seed bin/check $id $TIER 2>&1); rc=$?
    e=$(date +%s)
    echo "seed=$seed $id rc=$rc secs=$((e-s)) $(echo "$out" | grep -E "^C[0-9]+ (HELD|VIOLATED|INCONCLUSIVE)" | tail -1 | cut -c1-170)"
    if [ $rc -ne 0 ]; then echo "$out" | grep -E "^VIOLATION|^  |coverage floor" | head -6 | cut -c1-300; fi
  done
done
