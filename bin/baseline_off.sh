#!/bin/bash
# Runs the repository's pinned test suite with the verif-hooks feature OFF
# (default features) and checks that every test in BASELINE.json's stable_pass
# list still passes. Exit 0 iff none of them failed or went missing.
set -u
cd /repo || exit 2
export CARGO_NET_OFFLINE=true
rm -f target/nextest/pb/junit.xml
cargo nextest run --workspace --no-fail-fast --tool-config-file pb:/w/lib/nextest.toml --profile pb --test-threads 8 --offline >/var/tmp/qe-baseline-off.log 2>&1
python3 - <<'PY'
import json, sys, xml.etree.ElementTree as ET
sp = set(json.load(open('/root/.vp/BASELINE.json'))['stable_pass'])
try:
    root = ET.parse('/repo/target/nextest/pb/junit.xml').getroot()
except Exception as e:
    print("no junit output:", e); sys.exit(2)
passed, failed = set(), set()
for tc in root.iter('testcase'):
    tid = (tc.get('classname') or '') + '::' + (tc.get('name') or '')
    if tc.find('failure') is not None or tc.find('error') is not None or tc.find('flakyFailure') is not None:
        failed.add(tid)
    elif tc.find('skipped') is None:
        passed.add(tid)
passed -= failed
missing = sorted(sp - passed)
print(f"stable_pass={len(sp)} passed_now={len(passed)} stable_pass_not_passing={len(missing)}")
for m in missing[:50]:
    print("  NOT PASSING:", m)
sys.exit(1 if missing else 0)
PY
