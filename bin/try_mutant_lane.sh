#!/bin/bash
# usage: bin/try_mutant_lane.sh <patch.diff> <ID> [<ID>...]   (TIER=quick|thorough)
# Same as try_mutant.sh, but in a second lane so that /repo and /verif stay
# free: /var/tmp/mutlane/repo is a scratch worktree of /repo (reset to /repo's
# HEAD, patch applied, restored afterwards) and /var/tmp/mutlane/verif a copy of
# /verif whose harness depends on that worktree. Evidence and replays of these
# runs stay in the lane. Not usable for checks that compile files from /repo by
# absolute path (C33 under Miri, C40): use try_mutant.sh for those.
set -u
P="$1"; shift
L=/var/tmp/mutlane
[ -d $L/repo ] || { echo "no lane"; exit 2; }
rsync -a --exclude harness/target --exclude harness-miri/target --exclude replays --exclude evidence --exclude .git --exclude harness/Cargo.toml /verif/ $L/verif/
mkdir -p $L/verif/evidence
git -C $L/repo checkout -q -- .
git -C $L/repo checkout -q --detach "$(git -C /repo rev-parse HEAD)" || exit 2
if ! git -C $L/repo apply --check "$P" 2>/dev/null; then echo "patch does not apply: $P"; exit 2; fi
git -C $L/repo apply "$P"
trap 'git -C /var/tmp/mutlane/repo checkout -q -- . ' EXIT
for id in "$@"; do
  echo "=== $id on $(basename $(dirname $P))/$(basename $P) [lane]"
  $L/verif/bin/check "$id" "${TIER:-quick}" > $L/out_$id.txt 2>&1
  echo "exit=$?"
  grep -E "^(VIOLATION|KNOWN|C[0-9]+ )" $L/out_$id.txt | cut -c1-260 | head -8
  rec="$(dirname $P)/tried_$(basename $P .diff)_$id.txt"
  { echo "check=$id tier=${TIER:-quick} seed=${VERIF_SEED:-1}"; grep -E "^C[0-9]+ (HELD|VIOLATED|INCONCLUSIVE)" $L/out_$id.txt | tail -1; grep -A1 -E "^VIOLATION" $L/out_$id.txt | grep -v "^--" | cut -c1-400 | head -12; } > "$rec"
done
