#!/bin/bash
# usage: bin/try_mutant.sh <patch.diff> <ID> [<ID>...]   (tier via TIER=quick|thorough)
# Applies a seeded change to /repo, runs the named checks, and restores /repo.
set -u
P="$1"; shift
cd /repo || exit 2
if [ -n "$(git status --porcelain --untracked-files=no)" ]; then echo "/repo has uncommitted changes; refusing"; exit 2; fi
if ! git apply --check "$P" 2>/dev/null; then echo "patch does not apply: $P"; exit 2; fi
git apply "$P"
trap 'git -C /repo checkout -- . ' EXIT
for id in "$@"; do
  echo "=== $id on $(basename $(dirname $P))/$(basename $P)"
  /verif/bin/check "$id" "${TIER:-quick}" > /var/tmp/mut_out_$id.txt 2>&1
  echo "exit=$?"
  grep -E "^(VIOLATION|KNOWN|C[0-9]+ )" /var/tmp/mut_out_$id.txt | cut -c1-260 | head -8
done
