#!/bin/bash
# usage: bin/try_mutant.sh <patch.diff> <ID> [<ID>...]   (tier via TIER=quick|thorough)
# Applies a seeded change to /repo, runs the named checks, and restores /repo.
set -u
P="$1"; shift
cd /repo || exit 2
if [ -n "$(git status --porcelain --untracked-files=no)" ]; then echo "/repo has uncommitted changes; refusing"; exit 2; fi
if ! git apply --check "$P" 2>/dev/null; then echo "patch does not apply: $P"; exit 2; fi
git apply "$P"
trap 'git -C /repo checkout -- . ' EXIT
for id in "$@"; do
  # a run against a changed tree must not leave its evidence behind
  cp -f /verif/evidence/$id.json /var/tmp/evidence_backup_$id.json 2>/dev/null
  echo "=== $id on $(basename $(dirname $P))/$(basename $P)"
  /verif/bin/check "$id" "${TIER:-quick}" > /var/tmp/mut_out_$id.txt 2>&1
  echo "exit=$?"
  rc=$?
  grep -E "^(VIOLATION|KNOWN|C[0-9]+ )" /var/tmp/mut_out_$id.txt | cut -c1-260 | head -8
  # record next to the patch: what the check reported on the changed tree
  rec="$(dirname $P)/tried_$(basename $P .diff)_$id.txt"
  [ -f /var/tmp/evidence_backup_$id.json ] && mv -f /var/tmp/evidence_backup_$id.json /verif/evidence/$id.json
  { echo "check=$id tier=${TIER:-quick} seed=${VERIF_SEED:-1}"; grep -E "^C[0-9]+ (HELD|VIOLATED|INCONCLUSIVE)" /var/tmp/mut_out_$id.txt | tail -1; grep -A1 -E "^VIOLATION" /var/tmp/mut_out_$id.txt | grep -v "^--" | cut -c1-400 | head -12; } > "$rec"
done
