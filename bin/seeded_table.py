#!/usr/bin/env python3
"""Prints the markdown table of DESIGN.md 9.7 from /verif/seeded/*/meta.json."""
import json, glob, os
rows = []
for d in sorted(glob.glob('/verif/seeded/*/meta.json'), key=lambda p: (p.split('/')[-2].split('-')[0], int(p.split('/')[-2].split('-')[1]))):
    m = json.load(open(d))
    tried = m.get('checks_run_against_it', [])
    caught = ', '.join(t['check'] + ' (' + ('; '.join(t['violation_signatures'][:3]) or 'violation') + ')' for t in tried if t['caught']) or ('not caught by: ' + ', '.join(t['check'] for t in tried) if tried else 'not run')
    conf = m.get('confirmed', {})
    c = 'demo %s/%s; suite: %s' % (conf.get('demo_without_patch', '?')[:12], conf.get('demo_with_patch', '?')[:12], (conf.get('pinned_suite_with_patch') or '?')[:60])
    rows.append('| %s | %s | %s | %s | %s |' % (m['id'], m['breaks'][:110], m['needs_to_manifest'][:170], caught[:150], c))
print('| id | clause broken | needs to manifest | caught by (signatures) | confirmation |')
print('|---|---|---|---|---|')
print('\n'.join(rows))
