#!/usr/bin/env python3
"""usage: bin/store_seeded.py <ID>
Copies the confirmed seeded changes of property <ID> from /var/tmp/seeded/<ID>
into /verif/seeded/<ID>-<n>/ (patch.diff, demo.rs, confirm.txt, tried_*.txt,
meta.json). meta_in.json in the source directory supplies, per n, the clause
broken and what the change needs to manifest (written by hand from the
author's notes)."""
import json, os, re, shutil, subprocess, sys

pid = sys.argv[1]
src = f"/var/tmp/seeded/{pid}"
meta_in = {str(m["n"]): m for m in json.load(open(f"{src}/meta_in.json"))}
title = None
for l in open("/verif/properties.jsonl"):
    p = json.loads(l)
    if p["id"] == pid:
        title = p["title"]
head = subprocess.check_output(["git", "-C", "/repo", "rev-parse", "--short", "HEAD"], text=True).strip()
for n, m in sorted(meta_in.items()):
    sfx = "" if n == "1" else n
    patch = f"{src}/patch{sfx}.diff"
    demo = f"{src}/demo{sfx}.rs"
    conf = f"{src}/confirm{n}.txt"
    if not (os.path.exists(patch) and os.path.exists(demo)):
        print("missing", patch, demo)
        continue
    dst = f"/verif/seeded/{pid}-{n}"
    os.makedirs(dst, exist_ok=True)
    shutil.copy(patch, f"{dst}/patch.diff")
    shutil.copy(demo, f"{dst}/demo.rs")
    if os.path.exists(f"{src}/notes.md"):
        shutil.copy(f"{src}/notes.md", f"{dst}/author_notes.md")
    confirmed = {}
    if os.path.exists(conf):
        shutil.copy(conf, f"{dst}/confirm.txt")
        t = open(conf).read()
        parts = re.split(r"== (demo WITHOUT patch|demo WITH patch|pinned suite WITH patch)\n", t)
        sec = dict(zip(parts[1::2], parts[2::2]))
        confirmed = {
            "demo_without_patch": "passes" if "test result: ok" in sec.get("demo WITHOUT patch", "") and "FAILED" not in sec.get("demo WITHOUT patch", "") else "UNEXPECTED: " + sec.get("demo WITHOUT patch", "")[-200:],
            "demo_with_patch": "fails" if "test result: FAILED" in sec.get("demo WITH patch", "") else "UNEXPECTED: " + sec.get("demo WITH patch", "")[-200:],
            "pinned_suite_with_patch": ((re.search(r"stable_pass=\d+ still_passing=\d+ not_passing=\d+", sec.get("pinned suite WITH patch", "")) or [sec.get("pinned suite WITH patch", "").strip()[:200]])[0]) if sec.get("pinned suite WITH patch") else "",
            "how": ("bin/confirm_seeded_light.sh in a scratch worktree of /repo: cargo test --test seeded_demo without and with the patch; the pinned suite was not re-run by me for this one, the author's before/after PASS-list comparison is in author_notes.md" if "not re-run" in sec.get("pinned suite WITH patch", "") else "bin/confirm_seeded.sh in a scratch worktree of /repo: cargo test --test seeded_demo without and with the patch, then the pinned nextest command with the patch, compared with BASELINE.json stable_pass"),
        }
    tried = []
    for f in sorted(os.listdir(src)):
        mm = re.match(rf"tried_patch{sfx}_(C\d+)\.txt$", f)
        if mm:
            shutil.copy(f"{src}/{f}", f"{dst}/{f}")
            lines = open(f"{src}/{f}").read().splitlines()
            verdict = next((l for l in lines if re.match(r"C\d+ (HELD|VIOLATED|INCONCLUSIVE)", l)), "")
            sigs = sorted({re.sub(r"-seed\d+-\d+\.json$", "", l.split("replay=")[1].split("/")[-1]) for l in lines if l.startswith("VIOLATION") and "replay=" in l})
            tried.append({"check": mm.group(1), "run": lines[0] if lines else "", "verdict": verdict, "caught": "VIOLATED" in verdict, "violation_signatures": sigs})
    meta = {
        "id": f"{pid}-{n}",
        "property": pid,
        "property_title": title,
        "breaks": m["breaks"],
        "needs_to_manifest": m["needs"],
        "files_touched": sorted(set(re.findall(r"^\+\+\+ b/(\S+)", open(patch).read(), re.M))),
        "author": "a fresh sub-agent given only the property text and a scratch worktree",
        "base_commit": m.get("base", head),
        "demo": "demo.rs (an integration test: copy to tests/seeded_demo.rs, `cargo test --offline --test seeded_demo`)",
        "confirmed": confirmed,
        "checks_run_against_it": tried,
        "caught_by": [t["check"] for t in tried if t["caught"]],
        "note": m.get("note", ""),
    }
    json.dump(meta, open(f"{dst}/meta.json", "w"), indent=1)
    print(dst, "caught_by", meta["caught_by"], confirmed.get("pinned_suite_with_patch"))
