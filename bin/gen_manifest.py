#!/usr/bin/env python3
"""Generates /verif/MANIFEST.json from the table below (one entry per claimed
property) and properties.jsonl (every property not claimed is listed under
not_applicable with its reason)."""
import json, os, subprocess

ROOT = os.path.dirname(os.path.dirname(os.path.abspath(__file__)))

# id -> (level category, technique, level text, level note, design section)
CLAIMED = {
    "C01": ("exploration", "reference-model differential monitor (DataFusion reference, SQLite arbiter, tie-aware ordered comparison)",
            "Seeded mixed-stratum SELECT statements over generated databases in three physical layouts; every answered statement is judged against DataFusion; a disagreement is a violation only when SQLite sides with DataFusion.",
            "Trusts DataFusion 54 + SQLite 3.40 agreeing with each other; statements that would trip the recorded GroupKeyReduction finding (C03) run with that one rule removed."),
    "C02": ("exploration", "executable Kleene model as oracle, exhaustive over small predicate trees and operand nullness",
            "Every tree atom | NOT atom | atom AND/OR atom | NOT(...) over a 33-atom alphabet (exhaustive) plus random depth-3 trees, on a table holding every combination of {NULL,1,2,3}^3, in WHERE / SELECT-list / CASE / HAVING / inner ON / left ON, memory and two Parquet layouts.",
            "The model is cross-checked against DataFusion on every tree (SQLite decides when they differ)."),
    "C03": ("exploration", "engine-vs-engine differential monitor: unoptimized bound plan vs pipeline, each rule alone, pipeline prefixes",
            "The unoptimized bound plan lowered by the same physical planner defines the answer; the production pipeline, each of the 15 rules alone and (thorough) each prefix must return the same rows over Parquet tables with statistics and over memory tables.",
            "Semantic correctness of the unoptimized answer itself is C01's business."),
    "C05": ("exploration", "soundness monitor on real row groups: pruning decisions vs the engine's interpreter on the decoded group + Parquet-vs-memory end-to-end",
            "might_match=false must imply no row satisfies the predicate and definitely_matches=true that all do, for real Parquet row groups with hostile values and predicates of every column/literal type combination.",
            "The engine's interpreter defines which rows a predicate keeps."),
    "C06": ("exploration", "bitwise mask comparison compiled-vs-interpreted + two-process QE_COMPILE differential",
            "Compiled mask vs interpreter mask (validity everywhere, values where valid) on generated expressions and hostile batches; plus identical seeded queries in a QE_COMPILE=0 and a default worker process.",
            "Expressions are generated inside and just outside the compiled subset."),
    "C07": ("exploration", "multi-process schedule differential: RAYON_NUM_THREADS in {1,2,(3,4,)8,16} x batch splits x repetitions",
            "The same seeded statements over medium tables in 5-40 batches and Parquet, executed by worker processes with different thread counts and repeated; every answer must equal the 1-thread first answer. Evidence counts distinct row-arrival orders observed.",
            "Schedules are sampled, not enumerated."),
    "C11": ("exploration", "invariant monitor over real Parquet footers + independent inventory oracle",
            "Generated file sets x node counts: interval-cover, byte/row conservation, canonical order, permutation/relocation invariance and digest sensitivity are asserted on every enumeration, and one file is rewritten in place between two enumerations of the same path (mtime new / kept / moved earlier); held on the sample explored.",
            "Trusts the parquet crate's footer reader used by the harness as the independent inventory."),
    "C12": ("exploration", "exhaustive small-instance enumeration vs brute-force optimum + random invariant monitor",
            "Every multiset of <=7 (quick) / <=9 (thorough) sizes from a 7-value alphabet x N<=4/5 is compared with the brute-force optimal makespan in exact integer arithmetic; partition/totals/determinism monitored on large random instances.",
            "The exhaustive sub-space is small instances only; larger ones get the partition, totals, determinism and greedy-gap invariants."),
    "C14": ("exploration", "differential monitor over table-copy pairs differing in one attribute",
            "Worker copies that differ from the initiator's in exactly one split-relevant attribute must be refused, identical relocated copies must be served (positive control), every shard index in and out of range.",
            "Difference kinds: rename, re-row-grouping, one more row, other byte size; whether copies differ is decided by an independently read footer inventory."),
    "C15": ("exploration", "lock-step state-machine model + concurrent snapshot monitor",
            "Random operation histories advanced in lock step with a small model, invariants asserted on the real object after every step; 4 mutator threads + sampler thread assert snapshot invariants and generation monotonicity.",
            "Address universe is numeric except `localhost`, which the harness resolves itself."),
    "C16": ("fault_enumeration", "scripted-peer fault enumeration over real loopback sockets",
            "Responses (status lines, header sets, Content-Length kinds, bodies) delivered whole, byte-wise, or cut at byte offsets (every offset for small responses), then close/RST/stall; the client's answer is judged against an independent parse of the bytes actually sent; hang bound = timeout + 5 s.",
            "Without Content-Length the body is EOF-delimited, so truncation there is not demanded."),
    "C31": ("exploration", "plan well-formedness monitor: schema before/after each rule + behavioural resolution check",
            "Each of the 15 rules alone and the pipeline on every bound plan of the corpus: no rule error/panic, output column names and types unchanged, rewritten plan lowers and executes when the original does (resolution-class errors only).",
            "Execution-path errors of a rewritten plan (e.g. a scan that cannot serve the new shape) are counted, not reported here."),
    "C33": ("exploration", "shadow-accounting monitor over concurrent histories, natively (delay hook) and under Miri",
            "Concurrent try_allocate/allocate/resize/drop histories: live conditional grants never exceed the limit, sampled usage never exceeds limit + live forced bytes and never wraps, usage equals the sum of live reservations at quiescence and 0 after all are dropped; Miri additionally reports data races and UB on the real memory.rs.",
            "Interleavings are sampled (native scheduler + injected delays; Miri's randomised scheduler with many seeds), not enumerated."),
    "C37": ("exploration", "differential monitor against the Arrow kernels",
            "Generated arrays (NULL densities, runs, constants, overflow-adjacent integers, NaN/-0.0, sliced) through encode/decode and every helper, compared with arrow::compute kernels in value and Ok-vs-Err.",
            "Arrow's kernels are the definition."),
    "C38": ("exploration", "formula oracle in f64 with a derived forward-error bound",
            "All four distance functions, array-vs-literal and array-vs-array, whole and sliced, through the kernels and SQL, against the documented formula with the error bound of 8-lane f32 accumulation.",
            "Cosine of a zero vector (0/0) is engine-defined and compared engine-vs-engine only."),
    "C41": ("exploration", "round-trip and damaged-input monitor against a harness-side chunked encoder",
            "Random bodies x random chunkings (extensions, trailers, 1-byte chunks, hex case, leading zeros) must decode exactly; encodings damaged in one known way must be rejected; arbitrary bytes must not panic.",
            "Decoder reached through the verif-hooks re-export of the private function."),
    "C42": ("exploration", "set-model oracle over rendered cpulists + grid monitor for the fan-out helper",
            "Random CPU sets rendered with random grouping/order/duplicates/overlaps/whitespace/junk must parse to the sorted set; workers_for checked on a grid incl. 0 and usize::MAX.",
            "Junk tokens contain no digits or signs."),
    "C04": ("exploration", "layout differential monitor: the same rows as one batch, many batches, Parquet in varied files/row groups/encodings, every fast-path gate on both sides",
            "Statements whose shape selects a fast path (dense/morsel aggregation, streaming scan, runtime filters, dictionary strings, scalar-aggregate fast path) over the same rows in 5 physical layouts; every layout must give the memory single-batch answer, and a layout may not fail where another answers.",
            "The single-batch memory answer is itself judged against DataFusion/SQLite by C01."),
    "C08": ("exploration", "memory-limit differential monitor: unlimited run vs runs under 7 budgets from 3 MiB down to 64 bytes with spill, + two concurrent spilling processes sharing one spill path",
            "Sort / aggregate / join statements over tables that exceed the budget: the limited run must return the unlimited answer (tie-aware for ORDER BY ... LIMIT) or an explicit error, never other rows.",
            "Spill is forced by budgets far below the data size; the evidence counts runs that actually spilled (MemoryPool::spilled > 0)."),
    "C09": ("exploration", "distributed-vs-single-node differential over an in-process transport that executes fragments on a separate context",
            "execute_any_distributed over 1-8 participants (self at any index, more nodes than splits) for statements of all merge shapes must equal ctx.sql on the initiator; a refusal is allowed.",
            "The transport is in-process (the HTTP wire is C16/C35); peers read a byte-identical copy of the files."),
    "C10": ("fault_enumeration", "fault-injecting FragmentTransport: every fault kind at every remote shard, every truncation offset of small real payloads, message-boundary cuts, byte flips, wrong-copy peers, pairs of faults",
            "For scatter and gather shapes: transport error, HTTP error, empty body, truncation at every offset (all offsets for payloads <= 240 bytes in quick / <= 4096 in thorough, IPC message boundaries + sampled offsets + the last 64 bytes beyond), flipped bytes, digest-mismatch peers, alone and in pairs: the query must fail, or return exactly the fault-free answer when the fault did not reach the payload.",
            "Faults are injected at the FragmentTransport boundary (what HttpTransport returns); socket-level truncation is C16."),
    "C13": ("exploration", "reassembly monitor: union of all shard scans vs the table, per node count and split size",
            "For generated Parquet tables x node counts 1-9 x projections/filters/limits: every row appears in exactly one shard scan, shard scans concatenated equal the table scan (multiset), pruning inside a shard never drops a kept row.",
            "Rows carry a unique id so loss and duplication are told apart."),
    "C18": ("exploration", "bound-soundness monitor on generated Parquet files incl. chunks without statistics",
            "Table statistics (row count, per-column min/max/null count) reported for generated files with hostile values (NaN, -0.0, extremes, all-NULL chunks, missing statistics, many row groups) must bound the decoded values.",
            "Values are decoded with the parquet crate directly."),
    "C21": ("exploration", "reference differential on aggregate strata across every aggregation path",
            "COUNT/SUM/AVG/MIN/MAX/COUNT DISTINCT with and without GROUP BY, HAVING, empty and all-NULL inputs, every key/argument type, over memory and Parquet layouts and under a memory limit (scalar fast path, vectorized hash, morsel, dense, spilled).",
            "DataFusion reference with SQLite arbitration; floating sums compared with a relative tolerance."),
    "C22": ("exploration", "reference differential on join strata",
            "INNER/LEFT/RIGHT/FULL/CROSS/SEMI/ANTI shapes, NULL and duplicate keys, mixed key types, composite keys, residual ON predicates, empty sides, build-side swaps, 2-3 way joins.",
            "Join outputs are cardinality-bounded by the generator."),
    "C23": ("exploration", "reference differential + decorrelated-vs-row-by-row differential",
            "Scalar, IN/NOT IN, EXISTS/NOT EXISTS, quantified and correlated subqueries in SELECT/WHERE/HAVING, under OR, with NULLs on both sides; the production pipeline and the pipeline without decorrelation rules must both match the reference.",
            "A scalar subquery returning more than one row is an error case and only counted."),
    "C24": ("exploration", "executable multiset model of UNION/INTERSECT/EXCEPT [ALL] + reference differential",
            "Set-operation chains over generated operands with NULLs and duplicates: the answer must equal the multiset definition computed by the harness from the operands' own answers.",
            "Operand answers are the engine's own (their correctness is C01's)."),
    "C25": ("exploration", "tie-aware ordering oracle against the reference's full answer",
            "ORDER BY (multi-key, ASC/DESC, NULLS FIRST/LAST, expressions, ordinals) with LIMIT/OFFSET incl. 0 and beyond the end: the returned window must be a valid window of some order-consistent arrangement of the full answer.",
            "Ties may be broken any way; the oracle accepts every consistent arrangement."),
    "C26": ("exploration", "reference differential on window strata",
            "Ranking, offset, value and aggregate window functions over partitions, orderings and ROWS/RANGE frames with NULLs and ties.",
            "Order-sensitive functions get a unique tiebreak key; peer-invariant ones are tested with ties."),
    "C27": ("exploration", "per-grouping-set GROUP BY model",
            "GROUPING SETS / ROLLUP / CUBE over <= 3 columns: the answer must equal the UNION ALL of one plain GROUP BY per set (NULL-padded), computed by the engine's own plain GROUP BY and cross-checked with the reference.",
            "GROUPING() values are checked where the engine accepts the function."),
    "C28": ("exploration", "CTE inlining model",
            "WITH statements (one CTE referenced once/twice, chains, shadowing of table names, nested WITH, CTE in subquery) must equal the statement with every reference replaced by its body as a derived table.",
            "The inlined statement is answered by the engine and by the reference."),
    "C39": ("exploration", "determinism + referential monitor over generated TPC-H data",
            "generate twice (and per table) at several scale factors: byte-identical batches; row counts follow the scale; every foreign key resolves; value domains hold.",
            "Primary-key uniqueness is observed, not demanded."),
    "C44": ("exploration", "the VALUES list itself as the model",
            "VALUES lists (1-40 rows x 1-6 columns, all literal types, NULLs in any position incl. the first row, expressions, aliases, in FROM / UNION / IN) must produce exactly their rows with the declared names.",
            "Type unification across rows is checked against the reference."),
    "C45": ("exploration", "gathered-context differential + distributed-vs-single-node differential for gather shapes",
            "For statements that take the gather path: a context holding only the columns plan_gather lists must bind and answer like the full context, and the distributed answer must equal ctx.sql.",
            "Column lists come from the engine's own plan_gather; their sufficiency is what is observed."),
    "C43": ("exploration", "ordering-model oracle on kernel distances + rule-removed differential + poisoned-index provider",
            "ORDER BY <distance> LIMIT k [OFFSET m] in the default exact mode must return the k nearest rows (tie-aware) and equal the plan without VectorSearchPushdown; a provider whose scan_knn returns wrong rows must never be consulted.",
            "Distances used for ranking are the engine kernel's own (their accuracy is C38's business)."),
}


# built late in the session; enabled here once their quick run is clean on the unchanged tree
LATE = {
    "C17": ("exploration", "model writer + snapshot-membership oracle",
            "Iceberg tables written from random histories (appends, removals, manifest and metadata rewrites; v1/v2; both discovery styles; every accepted URI form): opening at the current and at every listed snapshot must return exactly the rows of the model's live files; delete files, non-Parquet files, remote URIs, unknown and empty snapshots must be refused.",
            "Histories are spec-shaped (one manifest tracks a file per snapshot)."),
    "C19": ("exploration", "write/query/rewrite/query histories in per-cache-mode worker processes against a content model",
            "Rewrites in place / by rename / remove-create with natural, same-second, preserved, older and newer timestamps and equal or other length, QE_IPC_CACHE=0/unset/1, answers in the registered context and a fresh one must reflect the new content.",
            "A rewrite follows the previous read by >= 15 ms."),
    "C20": ("exploration", "multi-process build race with a directory poller + cross-mode differential",
            "Sidecar-free answers vs 1-8 concurrent builder processes and readers (seeded delays at publication and open) vs reuse; a published sidecar directory must always be complete.",
            "Process interleavings are sampled."),
    "C29": ("exploration", "crash/hang monitor over worker processes with progress records",
            "Random bytes, token soup, mutated grammar statements, 20 deep-nesting forms to depth 20000, 16 huge-literal forms to 1 MB, 150 hostile templates: every input ends in Ok or Err; panic, process death or a confirmed hang is a violation.",
            "Hang = no answer in 40 s over tiny tables, confirmed alone at 240 s."),
    "C30": ("exploration", "schema agreement monitor",
            "QueryResult.schema vs every batch schema vs physical_plan(sql).schema() (the source of Flight's schema answers) for every executed statement of the mixed corpus.",
            "The Flight wire encoding of the schema is C34's."),
    "C32": ("exploration", "plan-structure monitor + answer differential on generated connected join graphs",
            "2-7 relations, chains/stars/trees/cycles/dense, composite keys, self-joins, four SQL forms, with and without statistics: no Cross join and no keyless inner join in the pipeline's plan or JoinReorder's alone, scans preserved, answers equal the reference.",
            "A conjunct missing textually counts only when the answer changes."),
    "C34": ("exploration", "two-door differential on in-process nodes (HTTP vs Arrow Flight)",
            "GetFlightInfo + DoGet vs POST /sql for statements of all shapes, > 4096 rows, empty results and errors, modes auto/force/off, 1-3 nodes: same schema, rows, decision, trailer row count; malformed tickets refused.",
            "Rust Flight client (arrow-flight/tonic) only."),
    "C35": ("exploration", "front-door monitor on in-process nodes",
            "503 before/after-failed load on /sql and /fragment; Arrow/JSON/CSV bodies decode to ctx.sql's rows; auto mode answers locally with a reason on a single member and after the peers left, auto mode never distributes with fewer than 2 members up and every distributed answer equals the single-node answer; no 200 after a distributed failure (differing peer copy, dead peer still listed) unless the distribution header shows the peer was given no work.",
            "Whether a shape is exactly mergeable is judged by the distributed answer equalling the single-node one, not by a syntactic classification."),
    "C36": ("exploration", "offline checker: observations log judged by a python3-stdlib model of the documented Trino values",
            "About 150 call shapes of 120 functions x hostile argument pools with NULLs through a column path and a literal path.",
            "The model declines where documentation/stdlib cannot decide; unmodelled functions are listed."),
    "C40": ("exploration", "round-trip monitor: RFC 4180 reader and serde_json over the shell formatter's output",
            "Result sets with hostile strings (separators, quotes, CR/LF, control, non-ASCII), NULLs, numbers, hostile column names in CSV and JSON mode must parse back to every cell.",
            "Formatter compiled from /repo/src/cli/output.rs into the harness."),
}
ENABLED_LATE = ["C17", "C19", "C20", "C29", "C30", "C32", "C34", "C35", "C36", "C40"]
for _k in ENABLED_LATE:
    CLAIMED[_k] = LATE[_k]

NOT_YET = "monitor not built yet in this session (design in DESIGN.md section 3); will be claimed once its check exists"

def main():
    props = [json.loads(l) for l in open(os.path.join(ROOT, "properties.jsonl"))]
    checks = []
    na = []
    for p in props:
        pid = p["id"]
        if pid in CLAIMED:
            cat, tech, text, note = CLAIMED[pid]
            checks.append({
                "property_id": pid,
                "quick_cmd": f"bin/check {pid} quick",
                "thorough_cmd": f"bin/check {pid} thorough",
                "evidence_file": f"/verif/evidence/{pid}.json",
                "replay_cmd_template": "harness/target/debug/qe-verif replay {path}",
                "engine": "qe-verif",
                "level_claimed": {"category": cat, "text": text, "design_ref": f"DESIGN.md section 3, {pid}"},
                "level_note": note,
                "technique": tech,
            })
        else:
            na.append({"property_id": pid, "reason": NA_REASONS.get(pid, NOT_YET)})
    try:
        commits = subprocess.check_output(["git", "-C", "/repo", "log", "--format=%h %s", "--grep=^verif-hooks"], text=True).strip().splitlines()
    except Exception:
        commits = []
    m = {
        "version": 1,
        "setup_cmd": "bin/setup",
        "hooks": {
            "guard": "cargo feature `verif-hooks` of the query_engine crate (off by default)",
            "enable": "the harness crate /verif/harness depends on query_engine { path = \"/repo\", features = [\"verif-hooks\"] }; every check runs `cargo build --offline` in /verif/harness first, which rebuilds query_engine from /repo's working tree with the feature on",
            "baseline_off_cmd": "bin/baseline_off.sh",
            "source_commits": commits,
            "add_only": True,
        },
        "engines": [
            {"name": "qe-verif", "path": "/verif/harness", "serves_properties": [c["property_id"] for c in checks],
             "kind_free_text": "Rust harness linking the real query_engine crate (hooks on) and DataFusion 54 as reference; runtime monitors: reference-model, differential, invariant and history checkers"},
        ],
        "checks": checks,
        "notes": "Runtime monitoring only: every check executes the real engine built from /repo's current working tree under generated workloads and judges what it observes. Exit 0 = held on what was explored, 1 = VIOLATION line, 2 = inconclusive (coverage floor not met or harness failure). Known findings: /verif/known_findings.json.",
        "not_applicable": na,
    }
    json.dump(m, open(os.path.join(ROOT, "MANIFEST.json"), "w"), indent=1)
    print(f"claimed {len(checks)}, not claimed {len(na)}")

NA_REASONS = {}

if __name__ == "__main__":
    main()
