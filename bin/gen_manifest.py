#!/usr/bin/env python3
"""Generates /verif/MANIFEST.json from the table below (one entry per claimed
property) and properties.jsonl (every property not claimed is listed under
not_applicable with its reason)."""
import json, os, subprocess

ROOT = os.path.dirname(os.path.dirname(os.path.abspath(__file__)))

# id -> (level category, technique, level text, level note, design section)
CLAIMED = {
    "C11": ("exploration", "invariant monitor over real Parquet footers + independent inventory oracle",
            "Generated file sets x node counts: interval-cover, byte/row conservation, canonical order, permutation/relocation invariance and digest sensitivity are asserted on every enumeration; held on the sample explored.",
            "Trusts the parquet crate's footer reader used by the harness as the independent inventory."),
    "C12": ("exploration", "exhaustive small-instance enumeration vs brute-force optimum + random invariant monitor",
            "Every multiset of <=7 (quick) / <=9 (thorough) sizes from a 7-value alphabet x N<=4/5 is compared with the brute-force optimal makespan in exact integer arithmetic; partition/totals/determinism monitored on large random instances.",
            "The exhaustive sub-space is small instances only; larger ones get the partition, totals, determinism and greedy-gap invariants."),
    "C14": ("exploration", "differential monitor over table-copy pairs differing in one attribute",
            "Worker copies that differ from the initiator's in exactly one split-relevant attribute must be refused, identical relocated copies must be served (positive control), every shard index in and out of range.",
            "Difference kinds: rename, re-row-grouping, one more row, other byte size; whether copies differ is decided by an independently read footer inventory."),
    "C15": ("exploration", "lock-step state-machine model + concurrent snapshot monitor",
            "Random operation histories advanced in lock step with a small model, invariants asserted on the real object after every step; 4 mutator threads + sampler thread assert snapshot invariants and generation monotonicity.",
            "Address universe is numeric except `localhost`, which the harness resolves itself."),
    "C16": ("fault_enumeration", "scripted-peer fault enumeration over real loopback sockets",
            "Responses (status lines, header sets, Content-Length kinds, bodies) delivered whole, byte-wise, or cut at byte offsets (every offset for small responses), then close/RST/stall; the client's answer is judged against an independent parse of the bytes actually sent; hang bound = timeout + 5 s.",
            "Without Content-Length the body is EOF-delimited, so truncation there is not demanded."),
    "C41": ("exploration", "round-trip and damaged-input monitor against a harness-side chunked encoder",
            "Random bodies x random chunkings (extensions, trailers, 1-byte chunks, hex case, leading zeros) must decode exactly; encodings damaged in one known way must be rejected; arbitrary bytes must not panic.",
            "Decoder reached through the verif-hooks re-export of the private function."),
    "C42": ("exploration", "set-model oracle over rendered cpulists + grid monitor for the fan-out helper",
            "Random CPU sets rendered with random grouping/order/duplicates/overlaps/whitespace/junk must parse to the sorted set; workers_for checked on a grid incl. 0 and usize::MAX.",
            "Junk tokens contain no digits or signs."),
}

NOT_YET = "monitor not built yet in this session (design in DESIGN.md section 3); will be claimed once its check exists"

def main():
    props = [json.loads(l) for l in open(os.path.join(ROOT, "properties.jsonl"))]
    checks = []
    na = []
    for p in props:
        pid = p["id"]
        if pid in CLAIMED:
            cat, tech, text, note = CLAIMED[pid]
            checks.append({
                "property_id": pid,
                "quick_cmd": f"bin/check {pid} quick",
                "thorough_cmd": f"bin/check {pid} thorough",
                "evidence_file": f"/verif/evidence/{pid}.json",
                "replay_cmd_template": "harness/target/debug/qe-verif replay {path}",
                "engine": "qe-verif",
                "level_claimed": {"category": cat, "text": text, "design_ref": f"DESIGN.md section 3, {pid}"},
                "level_note": note,
                "technique": tech,
            })
        else:
            na.append({"property_id": pid, "reason": NA_REASONS.get(pid, NOT_YET)})
    try:
        commits = subprocess.check_output(["git", "-C", "/repo", "log", "--format=%h %s", "--grep=^verif-hooks"], text=True).strip().splitlines()
    except Exception:
        commits = []
    m = {
        "version": 1,
        "setup_cmd": "bin/setup",
        "hooks": {
            "guard": "cargo feature `verif-hooks` of the query_engine crate (off by default)",
            "enable": "the harness crate /verif/harness depends on query_engine { path = \"/repo\", features = [\"verif-hooks\"] }; every check runs `cargo build --offline` in /verif/harness first, which rebuilds query_engine from /repo's working tree with the feature on",
            "baseline_off_cmd": "bin/baseline_off.sh",
            "source_commits": commits,
            "add_only": True,
        },
        "engines": [
            {"name": "qe-verif", "path": "/verif/harness", "serves_properties": [c["property_id"] for c in checks],
             "kind_free_text": "Rust harness linking the real query_engine crate (hooks on) and DataFusion 54 as reference; runtime monitors: reference-model, differential, invariant and history checkers"},
        ],
        "checks": checks,
        "notes": "Runtime monitoring only: every check executes the real engine built from /repo's current working tree under generated workloads and judges what it observes. Exit 0 = held on what was explored, 1 = VIOLATION line, 2 = inconclusive (coverage floor not met or harness failure). Known findings: /verif/known_findings.json.",
        "not_applicable": na,
    }
    json.dump(m, open(os.path.join(ROOT, "MANIFEST.json"), "w"), indent=1)
    print(f"claimed {len(checks)}, not claimed {len(na)}")

NA_REASONS = {}

if __name__ == "__main__":
    main()
