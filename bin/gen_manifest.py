#!/usr/bin/env python3
"""Generates /verif/MANIFEST.json from the table below (one entry per claimed
property) and properties.jsonl (every property not claimed is listed under
not_applicable with its reason)."""
import json, os, subprocess

ROOT = os.path.dirname(os.path.dirname(os.path.abspath(__file__)))

# id -> (level category, technique, level text, level note, design section)
CLAIMED = {
    "C01": ("exploration", "reference-model differential monitor (DataFusion reference, SQLite arbiter, tie-aware ordered comparison)",
            "Seeded mixed-stratum SELECT statements over generated databases in three physical layouts; every answered statement is judged against DataFusion; a disagreement is a violation only when SQLite sides with DataFusion.",
            "Trusts DataFusion 54 + SQLite 3.40 agreeing with each other; statements that would trip the recorded GroupKeyReduction finding (C03) run with that one rule removed."),
    "C02": ("exploration", "executable Kleene model as oracle, exhaustive over small predicate trees and operand nullness",
            "Every tree atom | NOT atom | atom AND/OR atom | NOT(...) over a 33-atom alphabet (exhaustive) plus random depth-3 trees, on a table holding every combination of {NULL,1,2,3}^3, in WHERE / SELECT-list / CASE / HAVING / inner ON / left ON, memory and two Parquet layouts.",
            "The model is cross-checked against DataFusion on every tree (SQLite decides when they differ)."),
    "C03": ("exploration", "engine-vs-engine differential monitor: unoptimized bound plan vs pipeline, each rule alone, pipeline prefixes",
            "The unoptimized bound plan lowered by the same physical planner defines the answer; the production pipeline, each of the 15 rules alone and (thorough) each prefix must return the same rows over Parquet tables with statistics and over memory tables.",
            "Semantic correctness of the unoptimized answer itself is C01's business."),
    "C05": ("exploration", "soundness monitor on real row groups: pruning decisions vs the engine's interpreter on the decoded group + Parquet-vs-memory end-to-end",
            "might_match=false must imply no row satisfies the predicate and definitely_matches=true that all do, for real Parquet row groups with hostile values and predicates of every column/literal type combination.",
            "The engine's interpreter defines which rows a predicate keeps."),
    "C06": ("exploration", "bitwise mask comparison compiled-vs-interpreted + two-process QE_COMPILE differential",
            "Compiled mask vs interpreter mask (validity everywhere, values where valid) on generated expressions and hostile batches; plus identical seeded queries in a QE_COMPILE=0 and a default worker process.",
            "Expressions are generated inside and just outside the compiled subset."),
    "C07": ("exploration", "multi-process schedule differential: RAYON_NUM_THREADS in {1,2,(3,4,)8,16} x batch splits x repetitions",
            "The same seeded statements over medium tables in 5-40 batches and Parquet, executed by worker processes with different thread counts and repeated; every answer must equal the 1-thread first answer. Evidence counts distinct row-arrival orders observed.",
            "Schedules are sampled, not enumerated."),
    "C11": ("exploration", "invariant monitor over real Parquet footers + independent inventory oracle",
            "Generated file sets x node counts: interval-cover, byte/row conservation, canonical order, permutation/relocation invariance and digest sensitivity are asserted on every enumeration; held on the sample explored.",
            "Trusts the parquet crate's footer reader used by the harness as the independent inventory."),
    "C12": ("exploration", "exhaustive small-instance enumeration vs brute-force optimum + random invariant monitor",
            "Every multiset of <=7 (quick) / <=9 (thorough) sizes from a 7-value alphabet x N<=4/5 is compared with the brute-force optimal makespan in exact integer arithmetic; partition/totals/determinism monitored on large random instances.",
            "The exhaustive sub-space is small instances only; larger ones get the partition, totals, determinism and greedy-gap invariants."),
    "C14": ("exploration", "differential monitor over table-copy pairs differing in one attribute",
            "Worker copies that differ from the initiator's in exactly one split-relevant attribute must be refused, identical relocated copies must be served (positive control), every shard index in and out of range.",
            "Difference kinds: rename, re-row-grouping, one more row, other byte size; whether copies differ is decided by an independently read footer inventory."),
    "C15": ("exploration", "lock-step state-machine model + concurrent snapshot monitor",
            "Random operation histories advanced in lock step with a small model, invariants asserted on the real object after every step; 4 mutator threads + sampler thread assert snapshot invariants and generation monotonicity.",
            "Address universe is numeric except `localhost`, which the harness resolves itself."),
    "C16": ("fault_enumeration", "scripted-peer fault enumeration over real loopback sockets",
            "Responses (status lines, header sets, Content-Length kinds, bodies) delivered whole, byte-wise, or cut at byte offsets (every offset for small responses), then close/RST/stall; the client's answer is judged against an independent parse of the bytes actually sent; hang bound = timeout + 5 s.",
            "Without Content-Length the body is EOF-delimited, so truncation there is not demanded."),
    "C31": ("exploration", "plan well-formedness monitor: schema before/after each rule + behavioural resolution check",
            "Each of the 15 rules alone and the pipeline on every bound plan of the corpus: no rule error/panic, output column names and types unchanged, rewritten plan lowers and executes when the original does (resolution-class errors only).",
            "Execution-path errors of a rewritten plan (e.g. a scan that cannot serve the new shape) are counted, not reported here."),
    "C33": ("exploration", "shadow-accounting monitor over concurrent histories, natively (delay hook) and under Miri",
            "Concurrent try_allocate/allocate/resize/drop histories: live conditional grants never exceed the limit, sampled usage never exceeds limit + live forced bytes and never wraps, usage equals the sum of live reservations at quiescence and 0 after all are dropped; Miri additionally reports data races and UB on the real memory.rs.",
            "Interleavings are sampled (native scheduler + injected delays; Miri's randomised scheduler with many seeds), not enumerated."),
    "C37": ("exploration", "differential monitor against the Arrow kernels",
            "Generated arrays (NULL densities, runs, constants, overflow-adjacent integers, NaN/-0.0, sliced) through encode/decode and every helper, compared with arrow::compute kernels in value and Ok-vs-Err.",
            "Arrow's kernels are the definition."),
    "C38": ("exploration", "formula oracle in f64 with a derived forward-error bound",
            "All four distance functions, array-vs-literal and array-vs-array, whole and sliced, through the kernels and SQL, against the documented formula with the error bound of 8-lane f32 accumulation.",
            "Cosine of a zero vector (0/0) is engine-defined and compared engine-vs-engine only."),
    "C41": ("exploration", "round-trip and damaged-input monitor against a harness-side chunked encoder",
            "Random bodies x random chunkings (extensions, trailers, 1-byte chunks, hex case, leading zeros) must decode exactly; encodings damaged in one known way must be rejected; arbitrary bytes must not panic.",
            "Decoder reached through the verif-hooks re-export of the private function."),
    "C42": ("exploration", "set-model oracle over rendered cpulists + grid monitor for the fan-out helper",
            "Random CPU sets rendered with random grouping/order/duplicates/overlaps/whitespace/junk must parse to the sorted set; workers_for checked on a grid incl. 0 and usize::MAX.",
            "Junk tokens contain no digits or signs."),
    "C43": ("exploration", "ordering-model oracle on kernel distances + rule-removed differential + poisoned-index provider",
            "ORDER BY <distance> LIMIT k [OFFSET m] in the default exact mode must return the k nearest rows (tie-aware) and equal the plan without VectorSearchPushdown; a provider whose scan_knn returns wrong rows must never be consulted.",
            "Distances used for ranking are the engine kernel's own (their accuracy is C38's business)."),
}

NOT_YET = "monitor not built yet in this session (design in DESIGN.md section 3); will be claimed once its check exists"

def main():
    props = [json.loads(l) for l in open(os.path.join(ROOT, "properties.jsonl"))]
    checks = []
    na = []
    for p in props:
        pid = p["id"]
        if pid in CLAIMED:
            cat, tech, text, note = CLAIMED[pid]
            checks.append({
                "property_id": pid,
                "quick_cmd": f"bin/check {pid} quick",
                "thorough_cmd": f"bin/check {pid} thorough",
                "evidence_file": f"/verif/evidence/{pid}.json",
                "replay_cmd_template": "harness/target/debug/qe-verif replay {path}",
                "engine": "qe-verif",
                "level_claimed": {"category": cat, "text": text, "design_ref": f"DESIGN.md section 3, {pid}"},
                "level_note": note,
                "technique": tech,
            })
        else:
            na.append({"property_id": pid, "reason": NA_REASONS.get(pid, NOT_YET)})
    try:
        commits = subprocess.check_output(["git", "-C", "/repo", "log", "--format=%h %s", "--grep=^verif-hooks"], text=True).strip().splitlines()
    except Exception:
        commits = []
    m = {
        "version": 1,
        "setup_cmd": "bin/setup",
        "hooks": {
            "guard": "cargo feature `verif-hooks` of the query_engine crate (off by default)",
            "enable": "the harness crate /verif/harness depends on query_engine { path = \"/repo\", features = [\"verif-hooks\"] }; every check runs `cargo build --offline` in /verif/harness first, which rebuilds query_engine from /repo's working tree with the feature on",
            "baseline_off_cmd": "bin/baseline_off.sh",
            "source_commits": commits,
            "add_only": True,
        },
        "engines": [
            {"name": "qe-verif", "path": "/verif/harness", "serves_properties": [c["property_id"] for c in checks],
             "kind_free_text": "Rust harness linking the real query_engine crate (hooks on) and DataFusion 54 as reference; runtime monitors: reference-model, differential, invariant and history checkers"},
        ],
        "checks": checks,
        "notes": "Runtime monitoring only: every check executes the real engine built from /repo's current working tree under generated workloads and judges what it observes. Exit 0 = held on what was explored, 1 = VIOLATION line, 2 = inconclusive (coverage floor not met or harness failure). Known findings: /verif/known_findings.json.",
        "not_applicable": na,
    }
    json.dump(m, open(os.path.join(ROOT, "MANIFEST.json"), "w"), indent=1)
    print(f"claimed {len(checks)}, not claimed {len(na)}")

NA_REASONS = {}

if __name__ == "__main__":
    main()
