#!/bin/bash
# usage: bin/confirm_seeded.sh <seeded-dir> [<n>...]
# Confirms a seeded change in a scratch worktree of /repo (outside /repo and
# /verif): demo passes without the patch, fails with it; the pinned suite's
# stable_pass set still passes with it. Writes <seeded-dir>/confirm<n>.txt.
set -u
D="$1"; shift
NS="${@:-1 2 3}"
WT=/var/tmp/confirm-wt
cd /repo
if [ ! -d $WT ]; then git worktree add -q --detach $WT HEAD || exit 2; fi
git -C $WT checkout -q --detach $(git -C /repo rev-parse HEAD) 2>/dev/null
git -C $WT checkout -q -- . ; git -C $WT clean -fdq tests
export CARGO_NET_OFFLINE=true CARGO_INCREMENTAL=0
for n in $NS; do
  s=""; [ "$n" != "1" ] && s="$n"
  P="$D/patch$s.diff"; DEMO="$D/demo$s.rs"
  [ -f "$P" ] || continue
  OUT="$D/confirm$n.txt"; : > "$OUT"
  cd $WT
  git checkout -q -- . ; git clean -fdq tests
  cp "$DEMO" tests/seeded_demo.rs
  echo "== demo WITHOUT patch" >> "$OUT"
  (cargo test --offline --test seeded_demo 2>&1 | grep -E "^test |test result|error(\[|:)" | head -30) >> "$OUT"
  if ! git apply --check "$P" 2>>"$OUT"; then echo "PATCH DOES NOT APPLY" >> "$OUT"; continue; fi
  git apply "$P"
  echo "== demo WITH patch" >> "$OUT"
  (cargo test --offline --test seeded_demo 2>&1 | grep -E "^test |test result|error(\[|:)" | head -30) >> "$OUT"
  rm -f tests/seeded_demo.rs
  echo "== pinned suite WITH patch" >> "$OUT"
  rm -f target/nextest/pb/junit.xml
  cargo nextest run --workspace --lib --bins --tests --no-fail-fast --tool-config-file pb:/w/lib/nextest.toml --profile pb --test-threads 8 --offline > /var/tmp/confirm-nextest.log 2>&1
  python3 - >> "$OUT" <<PY
import json, xml.etree.ElementTree as ET
sp=set(json.load(open('/root/.vp/BASELINE.json'))['stable_pass'])
try:
    root=ET.parse('$WT/target/nextest/pb/junit.xml').getroot()
except Exception as e:
    print('no junit', e); raise SystemExit
passed=set(); failed=set()
for tc in root.iter('testcase'):
    tid=(tc.get('classname') or '')+'::'+(tc.get('name') or '')
    if tc.find('failure') is not None or tc.find('error') is not None: failed.add(tid)
    elif tc.find('skipped') is None: passed.add(tid)
missing=sorted(sp-(passed-failed))
print(f'stable_pass={len(sp)} still_passing={len(sp)-len(missing)} not_passing={len(missing)}')
for m in missing[:20]: print('  NOT PASSING', m)
PY
  git checkout -q -- .
  echo "done $D $n: $(grep -c 'test result: ok' $OUT) ok-runs, $(grep -c 'test result: FAILED' $OUT) failed-runs, $(grep stable_pass $OUT)"
done
