#!/bin/bash
# usage: bin/confirm_seeded_light.sh <seeded-dir> [<n>...]
# Light confirmation of a seeded change in the scratch worktree /var/tmp/confirm-wt:
# the author's demonstration passes without the patch and fails with it. The
# pinned suite is NOT re-run here (confirm_seeded.sh does that); the author's
# own PASS-list comparison is quoted in meta.json instead.
set -u
D="$1"; shift
NS="${@:-1 2 3 4}"
WT=/var/tmp/confirm-wt
cd /repo
if [ ! -d $WT ]; then git worktree add -q --detach $WT HEAD || exit 2; fi
git -C $WT checkout -q -- . ; git -C $WT clean -fdq tests
git -C $WT checkout -q --detach $(git -C /repo rev-parse HEAD) 2>/dev/null
export CARGO_NET_OFFLINE=true CARGO_INCREMENTAL=0
for n in $NS; do
  s=""; [ "$n" != "1" ] && s="$n"
  P="$D/patch$s.diff"; DEMO="$D/demo$s.rs"
  [ -f "$P" ] || continue
  OUT="$D/confirm$n.txt"
  [ -f "$OUT" ] && grep -q "== demo WITH patch" "$OUT" && continue
  : > "$OUT"
  cd $WT
  git checkout -q -- . ; git clean -fdq tests
  cp "$DEMO" tests/seeded_demo.rs
  echo "== demo WITHOUT patch" >> "$OUT"
  (cargo test --offline --test seeded_demo 2>&1 | grep -E "^test |test result|error(\[|:)" | head -30) >> "$OUT"
  if ! git apply --check "$P" 2>>"$OUT"; then echo "PATCH DOES NOT APPLY" >> "$OUT"; continue; fi
  git apply "$P"
  echo "== demo WITH patch" >> "$OUT"
  (cargo test --offline --test seeded_demo 2>&1 | grep -E "^test |test result|error(\[|:)" | head -30) >> "$OUT"
  rm -f tests/seeded_demo.rs
  echo "== pinned suite WITH patch" >> "$OUT"
  echo "not re-run (light confirmation); the author's own before/after PASS-list comparison is in notes.md" >> "$OUT"
  git checkout -q -- .
  echo "done $D $n: $(grep -c 'test result: ok' $OUT) ok-runs, $(grep -c 'test result: FAILED' $OUT) failed-runs"
done
